"""Contracts for sysloss/utils.py (C20): trace_res / plane_res return the documented closed forms; lemmas."""
import z3, random, math
from pyvc import *
from pyvc import solver

ARGS = {"trace_res": ["w1_mm", "w2_mm", "l_mm", "t_mm", "rho", "temp", "tcr"], "plane_res": ["w", "l", "t_mm", "rho", "temp", "tcr"]}
POSITIVE = {"trace_res": ["w1_mm", "w2_mm", "l_mm", "t_mm", "rho"], "plane_res": ["w", "l", "t_mm", "rho"]}


def spec(fn, a):
    if fn == "trace_res":
        area = (a["w1_mm"] + a["w2_mm"]) / 2 * a["t_mm"]              # trapezoid cross-section, mm^2
        return a["rho"] * (a["l_mm"] / 1000) / (area / 1000000) * (1 + a["tcr"] * (a["temp"] - 20))      # rho*L/A in SI units
    return (a["rho"] / (a["t_mm"] / 1000)) * (a["l"] / a["w"]) * (1 + a["tcr"] * (a["temp"] - 20))


def run_real(src, fn, terms, run=None):
    eng = Engine(src)
    paths = eng.explore(lambda e: e.call_function("utils." + fn, [], {k: SV(v, "real") for k, v in terms.items()}))
    if run is not None:
        run.functions.update(eng.inlined)
    return paths


def fun_term(src, fn, b):
    """the function as one term over its arguments: ite over the path conditions of the returning paths (a raising path is
    reported by the never-raises clause; here it contributes an unconstrained value so that no lemma is proved through it)"""
    q = run_real(src, fn, b)
    rets = [p for p in q if p.kind == "return"]
    if not rets: raise Unsupported("%s never returns" % fn)
    fun_term.n = getattr(fun_term, "n", 0) + 1
    t = z3.Real("%s.undef!%d" % (fn, fun_term.n)) if len(rets) < len(q) else to_z(rets[-1].value, "real")
    for p in (rets if len(rets) < len(q) else rets[:-1])[::-1]:
        t = z3.If(z3.And(*p.pc) if p.pc else z3.BoolVal(True), to_z(p.value, "real"), t)
    return t


def obligations(run, src):
    obls, canaries = [], []
    for fn in ("trace_res", "plane_res"):
        a = {k: z3.Real("%s.%s" % (fn, k)) for k in ARGS[fn]}
        pre = [a[k] > 0 for k in POSITIVE[fn]]
        try:
            paths = run_real(src, fn, a, run)
        except (Unsupported, FunctionMissing) as u:
            run.undecide("utils.%s/closed-form" % fn, str(u)); continue
        def replay(model, zm, fn=fn, a=a):
            import sysloss.utils as U
            vals = {k: float(solver.frac(zm.eval(t, model_completion=True))) for k, t in a.items()}
            try:
                got = float(getattr(U, fn)(**vals))
            except Exception as ex:
                return {"confirmed": True, "call": "%s(**%r)" % (fn, vals), "observed": {"raised": type(ex).__name__}}
            req = float(spec(fn, vals))
            return {"confirmed": not math.isclose(got, req, rel_tol=1e-9, abs_tol=1e-300), "call": "sysloss.utils.%s(**%r)" % (fn, vals), "observed": got, "required": req}
        for pi, p in enumerate(paths):
            base = "utils.%s" % fn
            if p.kind != "return":
                obls.append({"id": "%s/never-raises@p%d" % (base, pi), "hyps": p.pc + pre, "goal": z3.BoolVal(False), "meta": {"replay": replay}}); continue
            r = to_z(p.value, "real")
            obls.append({"id": "%s/closed-form@p%d" % (base, pi), "hyps": p.pc + pre, "goal": r == spec(fn, a), "meta": {"replay": replay}})
            for s in p.side:
                if not z3.is_true(z3.simplify(s["goal"])):
                    obls.append({"id": "%s/safety:%s@[%s]" % (base, s["what"], s["at"]), "hyps": s["hyps"] + pre, "goal": s["goal"], "kind": "safety", "meta": {"replay": replay}})
            canaries.append({"id": base + "/canary", "hyps": p.pc + pre, "goal": r == spec(fn, a) + 1, "fn": base})
            # lemmas on the real result term (second symbolic run with transformed arguments)
            k = z3.Real("k")
            def again(**sub):
                b = dict(a); b.update(sub)
                return fun_term(src, fn, b)
            L = "l_mm" if fn == "trace_res" else "l"
            lem = [("proportional-to-length", again(**{L: k * a[L]}) == k * r),
                   ("proportional-to-resistivity", again(rho=k * a["rho"]) == k * r),
                   ("inverse-in-thickness", again(t_mm=k * a["t_mm"]) * k == r),
                   ("affine-in-temperature", again(temp=a["temp"] + k) - r == again(temp=z3.RealVal(20) + k) - again(temp=z3.RealVal(20)))]
            if fn == "trace_res":
                lem += [("inverse-in-mean-width", again(w1_mm=k * a["w1_mm"], w2_mm=k * a["w2_mm"]) * k == r),
                        ("symmetric-in-w1-w2", again(w1_mm=a["w2_mm"], w2_mm=a["w1_mm"]) == r)]
            else:
                lem += [("inverse-in-width", again(w=k * a["w"]) * k == r)]
            for name, goal in lem:
                obls.append({"id": "%s/lemma:%s" % (base, name), "hyps": p.pc + pre + [k > 0], "goal": goal, "meta": {}})
    # trace_res(W, W, L) == plane_res(W, L)
    W, Lx, T, rho, temp, tcr = [z3.Real(n) for n in ("W", "L", "T", "rho", "temp", "tcr")]
    try:
        t = fun_term(src, "trace_res", dict(w1_mm=W, w2_mm=W, l_mm=Lx, t_mm=T, rho=rho, temp=temp, tcr=tcr))
        pl = fun_term(src, "plane_res", dict(w=W, l=Lx, t_mm=T, rho=rho, temp=temp, tcr=tcr))
        obls.append({"id": "utils/lemma:trace_res(W,W,L)==plane_res(W,L)", "hyps": [W > 0, Lx > 0, T > 0, rho > 0], "goal": t == pl, "meta": {}})
    except (Unsupported, FunctionMissing) as u:
        run.undecide("utils/lemma:trace_res(W,W,L)==plane_res(W,L)", str(u))
    return obls, canaries


def cross_check(src, seed, n):
    """engine vs CPython on random concrete inputs: exactly one path condition holds and its result term evaluates to the
    real result (within float rounding).  A mismatch is an engine fault, never a violation."""
    import sysloss.utils as U
    rnd = random.Random(seed)
    mism, cnt = [], 0
    for fn in ("trace_res", "plane_res"):
        a = {k: z3.Real("%s.%s" % (fn, k)) for k in ARGS[fn]}
        try:
            paths = run_real(src, fn, a)
        except (Unsupported, FunctionMissing):
            continue
        for _ in range(n):
            vals = {k: rnd.choice([0.1, 0.25, 1.0, 2.5, 10.0, 35.0]) * rnd.uniform(0.5, 2) for k in ARGS[fn]}
            vals["rho"] = rnd.uniform(1e-8, 5e-8); vals["tcr"] = rnd.uniform(0.001, 0.006); vals["temp"] = rnd.uniform(-40, 125)
            sub = [(a[k], z3.RealVal(repr(v))) for k, v in vals.items()]
            hold = [p for p in paths if all(z3.is_true(z3.simplify(z3.substitute(c, *sub))) for c in p.pc)]
            cnt += 1
            if len(hold) != 1 or hold[0].kind != "return":
                mism.append((fn, vals, "paths holding: %d" % len(hold))); continue
            sym = float(solver.frac(z3.simplify(z3.substitute(to_z(hold[0].value, "real"), *sub))))
            real = float(getattr(U, fn)(**vals))
            if not math.isclose(sym, real, rel_tol=1e-9):
                mism.append((fn, vals, sym, real))
    return cnt, mism
