"""Contracts on the constructors (C11-P1) and the save()/from_file() encode/decode lemma (C12-P1), layer P.

(a) every K.__init__ (scalar / list forms) is executed symbolically from the real source: on accepted paths the stored
    parameters are the documented normalisation of the arguments (magnitudes for resistances, currents, powers, drops,
    thermal resistances; vo signed; interpolator constant = magnitude) and the class invariant INV_K holds; ValueError is
    raised exactly for the documented unphysical arguments.
(b) for every accepted path, the saved block {type, params, limits} - params being the object's own _params dict, as
    save() stores it verbatim - is fed to the mechanically located per-type branch of the REAL System.from_file; the
    component it builds (again through the real constructor) must have the same _params (and the same interpolator
    constant and limits)."""
import ast, z3
from pyvc import *
from pyvc import solver

KINDS = {  # kind label -> (class, symbolic scalar kwargs, fixed kwargs variants, saved type tag)
    "Source": ("Source", ["vo", "rs"], [{}], "SOURCE"),
    "PLoad": ("PLoad", ["pwr", "pwrs", "rt"], [{"loss": True}, {"loss": False}], "LOAD"),
    "ILoad": ("ILoad", ["ii", "iis", "rt"], [{"loss": True}, {"loss": False}], "LOAD"),
    "RLoad": ("RLoad", ["rs", "rt"], [{"loss": True}, {"loss": False}], "LOAD"),
    "RLoss": ("RLoss", ["rs", "rt"], [{}], "SLOSS"),
    "VLoss": ("VLoss", ["vdrop", "rt"], [{}], "SLOSS"),
    "Converter": ("Converter", ["vo", "eff", "iq", "iis", "rt"], [{}], "CONVERTER"),
    "LinReg": ("LinReg", ["vo", "vdrop", "ig", "iis", "rt"], [{}], "LINREG"),
    "PSwitch": ("PSwitch", ["rs", "ig", "iis", "rt"], [{}], "PSWITCH"),
    "PMux": ("PMux", ["rs", "ig", "iis", "rt"], [{}], "PMUX"),
    "PMux[rs-list]": ("PMux", ["ig", "iis", "rt"], [{"rs": "LIST2"}], "PMUX"),
    "Rectifier": ("Rectifier", ["vdrop", "rs", "ig", "iq", "rt"], [{}], "RECTIFIER"),
}
MAGN = ("rs", "rt", "pwr", "pwrs", "ii", "iis", "iq", "vdrop")


def zabs(t):
    return z3.If(t >= 0, t, -t)


def run_ctor(src, cls, kwargs, pre=()):
    eng = Engine(src)
    def thunk(e):
        for c in pre: e.assume(c)
        kw = {k: (list(v) if isinstance(v, list) else v) for k, v in kwargs.items()}
        return e.new_object(cls, ["X"], kw)
    paths = eng.explore(thunk)
    return paths, eng


def sym_args(K):
    cls, names, variants, tag = KINDS[K]
    out = []
    for var in variants:
        a = {n: SV(z3.Real("%s.%s" % (K, n)), "real") for n in names}
        for k, v in var.items():
            a[k] = [SV(z3.Real("%s.rs0" % K), "real"), SV(z3.Real("%s.rs1" % K), "real")] if v == "LIST2" else v
        out.append((a, ",".join("%s=%s" % kv for kv in var.items())))
    return out


def ctor_obligations(run, src):
    """C11-P1"""
    obls, accepted = [], {}
    for K in KINDS:
        cls = KINDS[K][0]
        for args, vlabel in sym_args(K):
            base = "components.%s.__init__%s" % (cls, ("[%s]" % vlabel if vlabel else "") if K == cls else "[%s]" % K.split("[")[1].rstrip("]"))
            try:
                paths, eng = run_ctor(src, cls, args)
            except (Unsupported, FunctionMissing) as u:
                run.undecide(base + "/post", str(u)); continue
            run.functions.update(eng.inlined)
            A = {k: (v.z if is_sym(v) else v) for k, v in args.items()}
            # documented rejections (scalar forms)
            rej = z3.BoolVal(False)
            if cls == "Converter": rej = z3.Or(A["eff"] <= 0, A["eff"] > 1)
            if cls == "LinReg": rej = zabs(A["vdrop"]) >= zabs(A["vo"])
            if cls == "RLoad": rej = A["rs"] == 0
            for pi, p in enumerate(paths):
                if p.kind == "raise":
                    obls.append({"id": "%s/raises ValueError exactly for the documented unphysical arguments@p%d" % (base, pi), "hyps": p.pc,
                                 "goal": z3.And(z3.BoolVal(p.value.etype == "ValueError" and not p.value.implicit), rej), "kind": "post", "tags": ["C11"], "meta": {}})
                    continue
                obj = p.value
                P = obj.attrs.get("_params", {})
                obls.append({"id": "%s/accepted => arguments are physical@p%d" % (base, pi), "hyps": p.pc, "goal": z3.Not(rej), "kind": "post", "tags": ["C11"], "meta": {}})
                mode = P.get("type")
                for k, v in A.items():
                    if k == "loss":
                        obls.append({"id": "%s/stored %s as given@p%d" % (base, k, pi), "hyps": p.pc, "goal": z3.BoolVal(P.get(k) is v or P.get(k) == v), "kind": "post", "tags": ["C11"], "meta": {}}); continue
                    if cls == "Rectifier" and ((mode == "diode" and k in ("rs", "ig", "iq")) or (mode == "mosfet" and k == "vdrop")):
                        continue
                    if k not in P:
                        obls.append({"id": "%s/stores parameter %s@p%d" % (base, k, pi), "hyps": p.pc, "goal": z3.BoolVal(False), "kind": "post", "tags": ["C11"], "meta": {}}); continue
                    sv = P[k]
                    if isinstance(v, list):
                        ok = isinstance(sv, list) and len(sv) == len(v)
                        obls.append({"id": "%s/per-input resistance list stored@p%d" % (base, pi), "hyps": p.pc, "goal": z3.BoolVal(bool(ok)), "kind": "post", "tags": ["C11"], "meta": {}}); continue
                    if k in MAGN:
                        goal = to_z(sv, "real") == zabs(v)
                        obls.append({"id": "%s/%s stored as magnitude@p%d" % (base, k, pi), "hyps": p.pc, "goal": goal, "kind": "post", "tags": ["C11"], "meta": {"replay": _replay_ctor(cls, args, k)}})
                    elif k in ("vo", "eff"):
                        obls.append({"id": "%s/%s stored as given@p%d" % (base, k, pi), "hyps": p.pc, "goal": to_z(sv, "real") == v, "kind": "post", "tags": ["C11"], "meta": {}})
                    elif k == "ig":
                        # a constant ig is stored as configured (shown so by params()); the interpolator holds its magnitude
                        obls.append({"id": "%s/ig stored as configured@p%d" % (base, pi), "hyps": p.pc, "goal": to_z(sv, "real") == v, "kind": "post", "tags": ["C11", "C16"], "meta": {}})
                ipr = obj.attrs.get("_ipr")
                gkey = {"VLoss": "vdrop", "Converter": "eff", "LinReg": "ig", "PSwitch": "ig", "PMux": "ig", "Rectifier": ("vdrop" if mode == "diode" else "ig")}.get(cls)
                if gkey is not None:
                    okc = isinstance(ipr, PyObj) and ipr.cls == "_Interp0d" and "_x" in ipr.attrs
                    gv = to_z(ipr.attrs["_x"], "real") if okc else None
                    want = (A[gkey] if cls == "Converter" else zabs(A[gkey]))
                    obls.append({"id": "%s/interpolator constant = magnitude of %s@p%d" % (base, gkey, pi), "hyps": p.pc, "goal": (gv == want) if okc else z3.BoolVal(False), "kind": "post", "tags": ["C11"], "meta": {}})
                    rng = z3.And(gv > 0, gv <= 1) if (cls == "Converter" and okc) else ((gv >= 0) if okc else z3.BoolVal(False))
                    obls.append({"id": "%s/INV: interpolator value in the physical range@p%d" % (base, pi), "hyps": p.pc, "goal": rng, "kind": "post", "tags": ["C11"], "meta": {}})
                if cls == "LinReg":
                    obls.append({"id": "%s/INV: 0 <= vdrop < |vo|@p%d" % (base, pi), "hyps": p.pc, "goal": z3.And(to_z(P["vdrop"], "real") >= 0, to_z(P["vdrop"], "real") < zabs(A["vo"])), "kind": "post", "tags": ["C11"], "meta": {}})
                if cls == "RLoad":
                    obls.append({"id": "%s/INV: rs > 0@p%d" % (base, pi), "hyps": p.pc, "goal": to_z(P["rs"], "real") > 0, "kind": "post", "tags": ["C11"], "meta": {}})
                if cls == "Source":
                    obls.append({"id": "%s/INV: rt = 0@p%d" % (base, pi), "hyps": p.pc, "goal": to_z(P.get("rt", 1), "real") == 0, "kind": "post", "tags": ["C11"], "meta": {}})
                if cls == "Rectifier":
                    dm = A["vdrop"] != 0
                    obls.append({"id": "%s/mode: diode iff vdrop != 0@p%d" % (base, pi), "hyps": p.pc, "goal": z3.BoolVal(mode == "diode") == dm, "kind": "post", "tags": ["C11", "C12"], "meta": {}})
                obls.append({"id": "%s/name stored@p%d" % (base, pi), "hyps": p.pc, "goal": z3.BoolVal(P.get("name") == "X"), "kind": "post", "tags": ["C11"], "meta": {}})
                obls.append({"id": "%s/canary@p%d" % (base, pi), "hyps": p.pc, "goal": z3.And(*[to_z(P[k], "real") == A[k] + 1 for k in A if k in P and k in MAGN and not isinstance(A[k], list)] or [z3.BoolVal(False)]), "kind": "canary", "tags": ["C11"], "meta": {}})
                accepted.setdefault(K, []).append((p, obj, A, vlabel))
    # malformed arguments (concrete): limits not a list / wrong length / non-numbers; non-numeric resistance lists
    for cls in ("Source", "PLoad", "ILoad", "RLoad", "RLoss", "VLoss", "Converter", "LinReg", "PSwitch", "PMux", "Rectifier"):
        good = {"Source": {"vo": 5.0}, "PLoad": {"pwr": 1.0}, "ILoad": {"ii": 1.0}, "RLoad": {"rs": 1.0}, "RLoss": {"rs": 1.0}, "VLoss": {"vdrop": 1.0}, "Converter": {"vo": 5.0, "eff": 0.8},
                "LinReg": {"vo": 5.0}, "PSwitch": {}, "PMux": {}, "Rectifier": {}}[cls]
        for bad, label in (({"vi": 5.0}, "not a list"), ({"vo": [1.0]}, "one element"), ({"ii": [0.0, "x"]}, "non-number"), ({"tp": [0, 1, 2]}, "three elements")):
            try:
                paths, eng = run_ctor(src, cls, dict(good, limits=bad))
                ok = len(paths) == 1 and paths[0].kind == "raise" and paths[0].value.etype == "ValueError" and not paths[0].value.implicit
                obls.append({"id": "components.%s.__init__/malformed limits (%s) rejected with ValueError" % (cls, label), "hyps": [], "goal": z3.BoolVal(bool(ok)), "kind": "post", "tags": ["C11"], "meta": {}})
                paths, eng = run_ctor(src, cls, dict(good, limits={"vi": [0.0, 3.0], "tp": [-5, 60]}))
                ok = len(paths) == 1 and paths[0].kind == "return" and paths[0].value.attrs.get("_limits") == {"vi": [0.0, 3.0], "tp": [-5, 60]}
                obls.append({"id": "components.%s.__init__/well-formed limits stored" % cls, "hyps": [], "goal": z3.BoolVal(bool(ok)), "kind": "post", "tags": ["C11", "C09"], "meta": {}})
            except (Unsupported, FunctionMissing) as u:
                run.undecide("components.%s.__init__/limits" % cls, str(u)); break
    for cls in ("PMux", "Rectifier"):
        try:
            paths, eng = run_ctor(src, cls, {"rs": [0.1, "a"]})
            ok = len(paths) == 1 and paths[0].kind == "raise" and paths[0].value.etype == "ValueError" and not paths[0].value.implicit
            obls.append({"id": "components.%s.__init__/non-numeric resistance list rejected with ValueError" % cls, "hyps": [], "goal": z3.BoolVal(bool(ok)), "kind": "post", "tags": ["C11"], "meta": {}})
        except (Unsupported, FunctionMissing) as u:
            run.undecide("components.%s.__init__/rs-list" % cls, str(u))
    return obls, accepted


def _replay_ctor(cls, args, key):
    def replay(model, zm):
        if zm is None: return None
        import sysloss.components as C
        kw = {}
        for k, v in args.items():
            if is_sym(v): kw[k] = float(solver.frac(zm.eval(v.z, model_completion=True)))
            elif isinstance(v, list): kw[k] = [float(solver.frac(zm.eval(x.z, model_completion=True))) for x in v]
            else: kw[k] = v
        try:
            obj = getattr(C, cls)("X", **kw)
        except Exception as ex:
            return {"confirmed": False, "call": "%s('X', **%r)" % (cls, kw), "observed": {"raised": type(ex).__name__}}
        got = obj._params.get(key)
        return {"confirmed": not (isinstance(got, (int, float)) and got == abs(kw[key])), "call": "%s('X', **%r)" % (cls, kw), "observed": {key: got}, "required": abs(kw[key])}
    return replay


# =================================================================================================== C12-P1
def locate_from_file(src):
    _, fn = src.method("System", "from_file")
    eloop = next((n for n in ast.walk(fn) if isinstance(n, ast.For) and isinstance(n.target, ast.Name) and n.target.id == "e"), None)
    cloop = next((n for n in ast.walk(fn) if isinstance(n, ast.For) and isinstance(n.target, ast.Name) and n.target.id == "c"), None)
    if eloop is None or cloop is None: raise FunctionMissing("from_file: entry / child loops not found")
    head = []
    for s in eloop.body:
        if isinstance(s, ast.If) and "childs" in ast.unparse(s.test): break
        head.append(s)
    return fn, eloop, head, cloop


def roundtrip_obligations(run, src, accepted):
    obls = []
    try:
        fn, eloop, head, cloop = locate_from_file(src)
    except FunctionMissing as m:
        run.undecide("system.System.from_file/slices", str(m)); return obls
    run.notes.append("from_file() is verified as mechanically located slices (entry head for Source/PMux blocks, child-loop body); dropped: json.load, the version gate (own obligation), registry restoration after the loops (bounded round trip)")
    LIM = {"vi": [0.0, 3.3], "tp": [-10, 70]}
    for K, lst in accepted.items():
        cls, _, _, tag = KINDS[K]
        for (p, obj, A, vlabel) in lst:
            P = obj.attrs["_params"]
            base = "system.System.from_file/decode[%s%s%s]" % (K, "," + vlabel if vlabel else "", "," + P["type"] if "type" in P else "")
            captured = []
            eng = Engine(src)
            def add_comp(e, recv, args, kw, captured=captured):
                captured.append(("add_comp", args, kw)); return None
            def add_source(e, recv, args, kw, captured=captured):
                captured.append(("add_source", args, kw)); return None
            eng.overrides["system.System.add_comp"] = add_comp
            eng.overrides["system.System.add_source"] = add_source
            def cls_call(e, recv, args, kw, captured=captured):
                # cls(sysname, Source(...)) for the first entry
                captured.append(("system", args, kw)); return Opaque("self", cls="System")
            selfobj = Opaque("self", cls="System")
            def thunk(e, P=P, tag=tag, cls=cls):
                for c in p.pc: e.assume(c)
                del captured[:]
                block = {"type": tag, "params": {k: (list(v) if isinstance(v, list) else v) for k, v in P.items()}, "limits": dict(LIM), "childs": {}}
                if cls in ("Source", "PMux"):
                    if cls == "PMux": block["parents"] = ["A", "B"]
                    env = {"sys": {"system": {}, "FIRST": {}, "X": block}, "entires": ["system", "FIRST", "X"], "e": 2, "self": selfobj, "cls": Builtin_cls(cls_call), "sysname": "n"}
                    e.run_block("system", "System", head, env, fn)
                else:
                    env = {"c": block, "p": "PARENT", "self": selfobj}
                    e.run_block("system", "System", cloop.body, env, fn)
                return list(captured)
            try:
                paths = eng.explore(thunk)
            except (Unsupported, FunctionMissing) as u:
                run.undecide(base, str(u)); continue
            run.functions.update(q for q in eng.inlined)
            run.functions.add("system.System.from_file (slices: entry head, child-loop body)")
            for qi, q in enumerate(paths):
                if q.kind != "return" or len(q.value) != 1:
                    obls.append({"id": base + ":loader builds exactly one component and does not raise@q%d" % qi, "hyps": q.pc, "goal": z3.BoolVal(False), "kind": "post", "tags": ["C12"], "meta": {}}); continue
                what, args, kw = q.value[0]
                comp2 = kw.get("comp") if what == "add_comp" else (args[0] if args else None)
                ok = isinstance(comp2, PyObj) and comp2.cls == cls
                if not ok:
                    obls.append({"id": base + ":rebuilt component is a %s@q%d" % (cls, qi), "hyps": q.pc, "goal": z3.BoolVal(False), "kind": "post", "tags": ["C12"], "meta": {}}); continue
                P2 = comp2.attrs.get("_params", {})
                same_keys = set(P2) == set(P)
                goals = [z3.BoolVal(same_keys)]
                if same_keys:
                    for k in P:
                        a, b = P[k], P2[k]
                        if isinstance(a, list) and isinstance(b, list) and len(a) == len(b): goals += [to_z(x, "real") == to_z(y, "real") for x, y in zip(a, b)]
                        elif is_sym(a) or is_sym(b) or isinstance(a, float): goals.append(to_z(a, "real") == to_z(b, "real"))
                        else: goals.append(z3.BoolVal(a == b and type(a) == type(b)))
                obls.append({"id": base + ":rebuilt _params == saved _params (keys %s)@q%d" % (sorted(P), qi), "hyps": q.pc, "goal": z3.And(*goals), "kind": "post", "tags": ["C12"], "meta": {"detail": "saved keys %s rebuilt keys %s" % (sorted(P), sorted(P2))}})
                i1, i2 = obj.attrs.get("_ipr"), comp2.attrs.get("_ipr")
                if isinstance(i1, PyObj):
                    g = (to_z(i1.attrs["_x"], "real") == to_z(i2.attrs["_x"], "real")) if (isinstance(i2, PyObj) and i2.cls == i1.cls) else z3.BoolVal(False)
                    obls.append({"id": base + ":rebuilt interpolator constant == original@q%d" % qi, "hyps": q.pc, "goal": g, "kind": "post", "tags": ["C12"], "meta": {}})
                obls.append({"id": base + ":saved limits handed to the constructor@q%d" % qi, "hyps": q.pc, "goal": z3.BoolVal(comp2.attrs.get("_limits") == LIM), "kind": "post", "tags": ["C12"], "meta": {}})
                if what == "add_comp":
                    par = args[0] if args else kw.get("parent")
                    want = ["A", "B"] if cls == "PMux" else "PARENT"
                    obls.append({"id": base + ":attached under the saved parent(s), priority order kept@q%d" % qi, "hyps": q.pc, "goal": z3.BoolVal(par == want), "kind": "post", "tags": ["C12"], "meta": {}})
                obls.append({"id": base + ":canary@q%d" % qi, "hyps": q.pc, "goal": z3.BoolVal(not same_keys), "kind": "canary", "tags": ["C12"], "meta": {}})
    obls += version_gate(run, src)
    return obls


def Builtin_cls(fn):
    from pyvc.engine import Builtin
    return Builtin("cls", lambda e, *a, **k: fn(e, None, list(a), k))


def version_gate(run, src):
    """parse(current) < parse(file) => ValueError before anything is built"""
    obls = []
    try:
        _, fn = src.method("System", "from_file")
        gate = next((s for s in fn.body if isinstance(s, ast.If) and "version" in ast.unparse(s.test)), None)
        if gate is None: raise FunctionMissing("from_file: version gate not found")
        k = fn.body.index(gate)
        first_build = next((j for j, s in enumerate(fn.body) if isinstance(s, ast.For)), len(fn.body))
        LT = z3.Bool("current_version_lt_file_version")
        class V: pass
        def parse(e, x): return Opaque("ver:" + str(x))
        eng = Engine(src)
        cur, fil = Opaque("ver:current"), Opaque("ver:file")
        eng.extra_globals["version"] = Opaque("version", methods={"parse": lambda e, x: cur if x == "CUR" else fil})
        eng.extra_globals["sysloss"] = Opaque("sysloss", attrs={"__version__": "CUR"})
        orig_cmp = eng.compare
        def compare(op, a, b, node=None):
            if a is cur and b is fil and isinstance(op, ast.Lt): return SV(LT, "bool")
            if a is fil and b is cur and isinstance(op, ast.Gt): return SV(LT, "bool")
            if a is cur and b is fil and isinstance(op, ast.GtE): return SV(z3.Not(LT), "bool")
            if (a is cur or a is fil) or (b is cur or b is fil): raise Unsupported("version comparison %s" % type(op).__name__)
            return orig_cmp(op, a, b, node)
        eng.compare = compare
        paths = eng.explore(lambda e: e.run_block("system", "System", [gate], {"ver": "FILE", "fname": "f", "cls": None}, fn))
        obls.append({"id": "system.System.from_file/version-gate:placed before anything is built", "hyps": [], "goal": z3.BoolVal(k < first_build), "kind": "post", "tags": ["C12"], "meta": {}})
        for pi, p in enumerate(paths):
            if p.kind == "raise":
                obls.append({"id": "system.System.from_file/version-gate:ValueError only for a newer file@p%d" % pi, "hyps": p.pc, "goal": z3.And(LT, z3.BoolVal(p.value.etype == "ValueError")), "kind": "post", "tags": ["C12"], "meta": {}})
            else:
                obls.append({"id": "system.System.from_file/version-gate:newer file never passes@p%d" % pi, "hyps": p.pc, "goal": z3.Not(LT), "kind": "post", "tags": ["C12"], "meta": {}})
        run.assumed.add("packaging.version.parse / '<' on versions: a strict total order on version strings")
    except (Unsupported, FunctionMissing) as u:
        run.undecide("system.System.from_file/version-gate", str(u))
    return obls
