"""Contracts on the constructors (C11-P1) and the save()/from_file() encode/decode lemma (C12-P1), layer P.

(a) every K.__init__ (scalar / list forms) is executed symbolically from the real source: on accepted paths the stored
    parameters are the documented normalisation of the arguments (magnitudes for resistances, currents, powers, drops,
    thermal resistances; vo signed; interpolator constant = magnitude) and the class invariant INV_K holds; ValueError is
    raised exactly for the documented unphysical arguments.
(b) for every accepted path, the saved block {type, params, limits} - params being the object's own _params dict, as
    save() stores it verbatim - is fed to the mechanically located per-type branch of the REAL System.from_file; the
    component it builds (again through the real constructor) must have the same _params (and the same interpolator
    constant and limits)."""
import ast, z3
from pyvc import *
from pyvc import solver

KINDS = {  # kind label -> (class, symbolic scalar kwargs, fixed kwargs variants, saved type tag)
    "Source": ("Source", ["vo", "rs"], [{}], "SOURCE"),
    "PLoad": ("PLoad", ["pwr", "pwrs", "rt"], [{"loss": True}, {"loss": False}], "LOAD"),
    "ILoad": ("ILoad", ["ii", "iis", "rt"], [{"loss": True}, {"loss": False}], "LOAD"),
    "RLoad": ("RLoad", ["rs", "rt"], [{"loss": True}, {"loss": False}], "LOAD"),
    "RLoss": ("RLoss", ["rs", "rt"], [{}], "SLOSS"),
    "VLoss": ("VLoss", ["vdrop", "rt"], [{}], "SLOSS"),
    "Converter": ("Converter", ["vo", "eff", "iq", "iis", "rt"], [{}], "CONVERTER"),
    "LinReg": ("LinReg", ["vo", "vdrop", "ig", "iis", "rt"], [{}], "LINREG"),
    "PSwitch": ("PSwitch", ["rs", "ig", "iis", "rt"], [{}], "PSWITCH"),
    "PMux": ("PMux", ["rs", "ig", "iis", "rt"], [{}], "PMUX"),
    "PMux[rs-list]": ("PMux", ["ig", "iis", "rt"], [{"rs": "LIST2"}], "PMUX"),
    "Rectifier": ("Rectifier", ["vdrop", "rs", "ig", "iq", "rt"], [{}], "RECTIFIER"),
}
MAGN = ("rs", "rt", "pwr", "pwrs", "ii", "iis", "iq", "vdrop")


def zabs(t):
    return z3.If(t >= 0, t, -t)


def run_ctor(src, cls, kwargs, pre=()):
    eng = Engine(src)
    def thunk(e):
        for c in pre: e.assume(c)
        kw = {k: (list(v) if isinstance(v, list) else v) for k, v in kwargs.items()}
        return e.new_object(cls, ["X"], kw)
    paths = eng.explore(thunk)
    return paths, eng


def sym_args(K):
    cls, names, variants, tag = KINDS[K]
    out = []
    for var in variants:
        a = {n: SV(z3.Real("%s.%s" % (K, n)), "real") for n in names}
        for k, v in var.items():
            a[k] = [SV(z3.Real("%s.rs0" % K), "real"), SV(z3.Real("%s.rs1" % K), "real")] if v == "LIST2" else v
        out.append((a, ",".join("%s=%s" % kv for kv in var.items())))
    return out


def ctor_obligations(run, src):
    """C11-P1"""
    obls, accepted = [], {}
    for K in KINDS:
        cls = KINDS[K][0]
        for args, vlabel in sym_args(K):
            base = "components.%s.__init__%s" % (cls, ("[%s]" % vlabel if vlabel else "") if K == cls else "[%s]" % K.split("[")[1].rstrip("]"))
            try:
                paths, eng = run_ctor(src, cls, args)
            except (Unsupported, FunctionMissing) as u:
                run.undecide(base + "/post", str(u)); continue
            run.functions.update(eng.inlined)
            A = {k: (v.z if is_sym(v) else v) for k, v in args.items()}
            # documented rejections (scalar forms)
            rej = z3.BoolVal(False)
            if cls == "Converter": rej = z3.Or(A["eff"] <= 0, A["eff"] > 1)
            if cls == "LinReg": rej = zabs(A["vdrop"]) >= zabs(A["vo"])
            if cls == "RLoad": rej = A["rs"] == 0
            for pi, p in enumerate(paths):
                if p.kind == "raise":
                    obls.append({"id": "%s/raises ValueError exactly for the documented unphysical arguments@p%d" % (base, pi), "hyps": p.pc,
                                 "goal": z3.And(z3.BoolVal(p.value.etype == "ValueError" and not p.value.implicit), rej), "kind": "post", "tags": ["C11"], "meta": {}})
                    continue
                obj = p.value
                P = obj.attrs.get("_params", {})
                obls.append({"id": "%s/accepted => arguments are physical@p%d" % (base, pi), "hyps": p.pc, "goal": z3.Not(rej), "kind": "post", "tags": ["C11"], "meta": {}})
                mode = P.get("type")
                for k, v in A.items():
                    if k == "loss":
                        obls.append({"id": "%s/stored %s as given@p%d" % (base, k, pi), "hyps": p.pc, "goal": z3.BoolVal(P.get(k) is v or P.get(k) == v), "kind": "post", "tags": ["C11"], "meta": {}}); continue
                    if cls == "Rectifier" and ((mode == "diode" and k in ("rs", "ig", "iq")) or (mode == "mosfet" and k == "vdrop")):
                        continue
                    if k not in P:
                        obls.append({"id": "%s/stores parameter %s@p%d" % (base, k, pi), "hyps": p.pc, "goal": z3.BoolVal(False), "kind": "post", "tags": ["C11"], "meta": {}}); continue
                    sv = P[k]
                    if isinstance(v, list):
                        ok = isinstance(sv, list) and len(sv) == len(v)
                        obls.append({"id": "%s/per-input resistance list stored@p%d" % (base, pi), "hyps": p.pc, "goal": z3.BoolVal(bool(ok)), "kind": "post", "tags": ["C11"], "meta": {}}); continue
                    if k in MAGN:
                        goal = to_z(sv, "real") == zabs(v)
                        obls.append({"id": "%s/%s stored as magnitude@p%d" % (base, k, pi), "hyps": p.pc, "goal": goal, "kind": "post", "tags": ["C11"], "meta": {"replay": _replay_ctor(cls, args, k)}})
                    elif k in ("vo", "eff"):
                        obls.append({"id": "%s/%s stored as given@p%d" % (base, k, pi), "hyps": p.pc, "goal": to_z(sv, "real") == v, "kind": "post", "tags": ["C11"], "meta": {}})
                    elif k == "ig":
                        # a constant ig is stored as configured (shown so by params()); the interpolator holds its magnitude
                        obls.append({"id": "%s/ig stored as configured@p%d" % (base, pi), "hyps": p.pc, "goal": to_z(sv, "real") == v, "kind": "post", "tags": ["C11", "C16"], "meta": {}})
                ipr = obj.attrs.get("_ipr")
                gkey = {"VLoss": "vdrop", "Converter": "eff", "LinReg": "ig", "PSwitch": "ig", "PMux": "ig", "Rectifier": ("vdrop" if mode == "diode" else "ig")}.get(cls)
                if gkey is not None:
                    okc = isinstance(ipr, PyObj) and ipr.cls == "_Interp0d" and "_x" in ipr.attrs
                    gv = to_z(ipr.attrs["_x"], "real") if okc else None
                    want = (A[gkey] if cls == "Converter" else zabs(A[gkey]))
                    obls.append({"id": "%s/interpolator constant = magnitude of %s@p%d" % (base, gkey, pi), "hyps": p.pc, "goal": (gv == want) if okc else z3.BoolVal(False), "kind": "post", "tags": ["C11"], "meta": {}})
                    rng = z3.And(gv > 0, gv <= 1) if (cls == "Converter" and okc) else ((gv >= 0) if okc else z3.BoolVal(False))
                    obls.append({"id": "%s/INV: interpolator value in the physical range@p%d" % (base, pi), "hyps": p.pc, "goal": rng, "kind": "post", "tags": ["C11"], "meta": {}})
                if cls == "LinReg":
                    obls.append({"id": "%s/INV: 0 <= vdrop < |vo|@p%d" % (base, pi), "hyps": p.pc, "goal": z3.And(to_z(P["vdrop"], "real") >= 0, to_z(P["vdrop"], "real") < zabs(A["vo"])), "kind": "post", "tags": ["C11"], "meta": {}})
                if cls == "RLoad":
                    obls.append({"id": "%s/INV: rs > 0@p%d" % (base, pi), "hyps": p.pc, "goal": to_z(P["rs"], "real") > 0, "kind": "post", "tags": ["C11"], "meta": {}})
                if cls == "Source":
                    obls.append({"id": "%s/INV: rt = 0@p%d" % (base, pi), "hyps": p.pc, "goal": to_z(P.get("rt", 1), "real") == 0, "kind": "post", "tags": ["C11"], "meta": {}})
                if cls == "Rectifier":
                    dm = A["vdrop"] != 0
                    obls.append({"id": "%s/mode: diode iff vdrop != 0@p%d" % (base, pi), "hyps": p.pc, "goal": z3.BoolVal(mode == "diode") == dm, "kind": "post", "tags": ["C11", "C12"], "meta": {}})
                obls.append({"id": "%s/name stored@p%d" % (base, pi), "hyps": p.pc, "goal": z3.BoolVal(P.get("name") == "X"), "kind": "post", "tags": ["C11"], "meta": {}})
                obls.append({"id": "%s/canary@p%d" % (base, pi), "hyps": p.pc, "goal": z3.And(*[to_z(P[k], "real") == A[k] + 1 for k in A if k in P and k in MAGN and not isinstance(A[k], list)] or [z3.BoolVal(False)]), "kind": "canary", "tags": ["C11"], "meta": {}})
                accepted.setdefault(K, []).append((p, obj, A, vlabel))
    # malformed arguments (concrete): limits not a list / wrong length / non-numbers; non-numeric resistance lists
    for cls in ("Source", "PLoad", "ILoad", "RLoad", "RLoss", "VLoss", "Converter", "LinReg", "PSwitch", "PMux", "Rectifier"):
        good = {"Source": {"vo": 5.0}, "PLoad": {"pwr": 1.0}, "ILoad": {"ii": 1.0}, "RLoad": {"rs": 1.0}, "RLoss": {"rs": 1.0}, "VLoss": {"vdrop": 1.0}, "Converter": {"vo": 5.0, "eff": 0.8},
                "LinReg": {"vo": 5.0}, "PSwitch": {}, "PMux": {}, "Rectifier": {}}[cls]
        for bad, label in (({"vi": 5.0}, "not a list"), ({"vo": [1.0]}, "one element"), ({"ii": [0.0, "x"]}, "non-number"), ({"tp": [0, 1, 2]}, "three elements")):
            try:
                paths, eng = run_ctor(src, cls, dict(good, limits=bad))
                ok = len(paths) == 1 and paths[0].kind == "raise" and paths[0].value.etype == "ValueError" and not paths[0].value.implicit
                obls.append({"id": "components.%s.__init__/malformed limits (%s) rejected with ValueError" % (cls, label), "hyps": [], "goal": z3.BoolVal(bool(ok)), "kind": "post", "tags": ["C11"], "meta": {}})
                paths, eng = run_ctor(src, cls, dict(good, limits={"vi": [0.0, 3.0], "tp": [-5, 60]}))
                ok = len(paths) == 1 and paths[0].kind == "return" and paths[0].value.attrs.get("_limits") == {"vi": [0.0, 3.0], "tp": [-5, 60]}
                obls.append({"id": "components.%s.__init__/well-formed limits stored" % cls, "hyps": [], "goal": z3.BoolVal(bool(ok)), "kind": "post", "tags": ["C11", "C09"], "meta": {}})
            except (Unsupported, FunctionMissing) as u:
                run.undecide("components.%s.__init__/limits" % cls, str(u)); break
    for cls in ("PMux", "Rectifier"):
        try:
            paths, eng = run_ctor(src, cls, {"rs": [0.1, "a"]})
            ok = len(paths) == 1 and paths[0].kind == "raise" and paths[0].value.etype == "ValueError" and not paths[0].value.implicit
            obls.append({"id": "components.%s.__init__/non-numeric resistance list rejected with ValueError" % cls, "hyps": [], "goal": z3.BoolVal(bool(ok)), "kind": "post", "tags": ["C11"], "meta": {}})
        except (Unsupported, FunctionMissing) as u:
            run.undecide("components.%s.__init__/rs-list" % cls, str(u))
    return obls, accepted


def _replay_ctor(cls, args, key):
    def replay(model, zm):
        if zm is None: return None
        import sysloss.components as C
        kw = {}
        for k, v in args.items():
            if is_sym(v): kw[k] = float(solver.frac(zm.eval(v.z, model_completion=True)))
            elif isinstance(v, list): kw[k] = [float(solver.frac(zm.eval(x.z, model_completion=True))) for x in v]
            else: kw[k] = v
        try:
            obj = getattr(C, cls)("X", **kw)
        except Exception as ex:
            return {"confirmed": False, "call": "%s('X', **%r)" % (cls, kw), "observed": {"raised": type(ex).__name__}}
        got = obj._params.get(key)
        return {"confirmed": not (isinstance(got, (int, float)) and got == abs(kw[key])), "call": "%s('X', **%r)" % (cls, kw), "observed": {key: got}, "required": abs(kw[key])}
    return replay


# =================================================================================================== C12-P1
def locate_from_file(src):
    _, fn = src.method("System", "from_file")
    eloop = next((n for n in ast.walk(fn) if isinstance(n, ast.For) and isinstance(n.target, ast.Name) and n.target.id == "e"), None)
    cloop = next((n for n in ast.walk(fn) if isinstance(n, ast.For) and isinstance(n.target, ast.Name) and n.target.id == "c"), None)
    if eloop is None or cloop is None: raise FunctionMissing("from_file: entry / child loops not found")
    head = []
    for s in eloop.body:
        if isinstance(s, ast.If) and "childs" in ast.unparse(s.test): break
        head.append(s)
    return fn, eloop, head, cloop


def roundtrip_obligations(run, src, accepted):
    obls = []
    try:
        fn, eloop, head, cloop = locate_from_file(src)
    except FunctionMissing as m:
        run.undecide("system.System.from_file/slices", str(m)); return obls
    run.notes.append("from_file() is verified as mechanically located slices (entry head for Source/PMux blocks, child-loop body); dropped: json.load, the version gate (own obligation), registry restoration after the loops (bounded round trip)")
    LIM = {"vi": [0.0, 3.3], "tp": [-10, 70]}
    for K, lst in accepted.items():
        cls, _, _, tag = KINDS[K]
        for (p, obj, A, vlabel) in lst:
            P = obj.attrs["_params"]
            base = "system.System.from_file/decode[%s%s%s]" % (K, "," + vlabel if vlabel else "", "," + P["type"] if "type" in P else "")
            captured = []
            eng = Engine(src)
            def add_comp(e, recv, args, kw, captured=captured):
                captured.append(("add_comp", args, kw)); return None
            def add_source(e, recv, args, kw, captured=captured):
                captured.append(("add_source", args, kw)); return None
            eng.overrides["system.System.add_comp"] = add_comp
            eng.overrides["system.System.add_source"] = add_source
            def cls_call(e, recv, args, kw, captured=captured):
                # cls(sysname, Source(...)) for the first entry
                captured.append(("system", args, kw)); return Opaque("self", cls="System")
            selfobj = Opaque("self", cls="System")
            def thunk(e, P=P, tag=tag, cls=cls):
                for c in p.pc: e.assume(c)
                del captured[:]
                block = {"type": tag, "params": {k: (list(v) if isinstance(v, list) else v) for k, v in P.items()}, "limits": dict(LIM), "childs": {}}
                if cls in ("Source", "PMux"):
                    if cls == "PMux": block["parents"] = ["A", "B"]
                    env = {"sys": {"system": {}, "FIRST": {}, "X": block}, "entires": ["system", "FIRST", "X"], "e": 2, "self": selfobj, "cls": Builtin_cls(cls_call), "sysname": "n"}
                    e.run_block("system", "System", head, env, fn)
                else:
                    env = {"c": block, "p": "PARENT", "self": selfobj}
                    e.run_block("system", "System", cloop.body, env, fn)
                return list(captured)
            try:
                paths = eng.explore(thunk)
            except (Unsupported, FunctionMissing) as u:
                run.undecide(base, str(u)); continue
            run.functions.update(q for q in eng.inlined)
            run.functions.add("system.System.from_file (slices: entry head, child-loop body)")
            for qi, q in enumerate(paths):
                if q.kind != "return" or len(q.value) != 1:
                    obls.append({"id": base + ":loader builds exactly one component and does not raise@q%d" % qi, "hyps": q.pc, "goal": z3.BoolVal(False), "kind": "post", "tags": ["C12"], "meta": {}}); continue
                what, args, kw = q.value[0]
                comp2 = kw.get("comp") if what == "add_comp" else (args[0] if args else None)
                ok = isinstance(comp2, PyObj) and comp2.cls == cls
                if not ok:
                    obls.append({"id": base + ":rebuilt component is a %s@q%d" % (cls, qi), "hyps": q.pc, "goal": z3.BoolVal(False), "kind": "post", "tags": ["C12"], "meta": {}}); continue
                P2 = comp2.attrs.get("_params", {})
                same_keys = set(P2) == set(P)
                goals = [z3.BoolVal(same_keys)]
                if same_keys:
                    for k in P:
                        a, b = P[k], P2[k]
                        if isinstance(a, list) and isinstance(b, list) and len(a) == len(b): goals += [to_z(x, "real") == to_z(y, "real") for x, y in zip(a, b)]
                        elif is_sym(a) or is_sym(b) or isinstance(a, float): goals.append(to_z(a, "real") == to_z(b, "real"))
                        else: goals.append(z3.BoolVal(a == b and type(a) == type(b)))
                obls.append({"id": base + ":rebuilt _params == saved _params (keys %s)@q%d" % (sorted(P), qi), "hyps": q.pc, "goal": z3.And(*goals), "kind": "post", "tags": ["C12"], "meta": {"detail": "saved keys %s rebuilt keys %s" % (sorted(P), sorted(P2))}})
                i1, i2 = obj.attrs.get("_ipr"), comp2.attrs.get("_ipr")
                if isinstance(i1, PyObj):
                    g = (to_z(i1.attrs["_x"], "real") == to_z(i2.attrs["_x"], "real")) if (isinstance(i2, PyObj) and i2.cls == i1.cls) else z3.BoolVal(False)
                    obls.append({"id": base + ":rebuilt interpolator constant == original@q%d" % qi, "hyps": q.pc, "goal": g, "kind": "post", "tags": ["C12"], "meta": {}})
                obls.append({"id": base + ":saved limits handed to the constructor@q%d" % qi, "hyps": q.pc, "goal": z3.BoolVal(comp2.attrs.get("_limits") == LIM), "kind": "post", "tags": ["C12"], "meta": {}})
                if what == "add_comp":
                    par = args[0] if args else kw.get("parent")
                    want = ["A", "B"] if cls == "PMux" else "PARENT"
                    obls.append({"id": base + ":attached under the saved parent(s), priority order kept@q%d" % qi, "hyps": q.pc, "goal": z3.BoolVal(par == want), "kind": "post", "tags": ["C12"], "meta": {}})
                obls.append({"id": base + ":canary@q%d" % qi, "hyps": q.pc, "goal": z3.BoolVal(not same_keys), "kind": "canary", "tags": ["C12"], "meta": {}})
    obls += version_gate(run, src)
    return obls


def Builtin_cls(fn):
    from pyvc.engine import Builtin
    return Builtin("cls", lambda e, *a, **k: fn(e, None, list(a), k))


def version_gate(run, src):
    """parse(current) < parse(file) => ValueError before anything is built"""
    obls = []
    try:
        _, fn = src.method("System", "from_file")
        gate = next((s for s in fn.body if isinstance(s, ast.If) and "version" in ast.unparse(s.test)), None)
        if gate is None: raise FunctionMissing("from_file: version gate not found")
        k = fn.body.index(gate)
        first_build = next((j for j, s in enumerate(fn.body) if isinstance(s, ast.For)), len(fn.body))
        LT = z3.Bool("current_version_lt_file_version")
        class V: pass
        def parse(e, x): return Opaque("ver:" + str(x))
        eng = Engine(src)
        cur, fil = Opaque("ver:current"), Opaque("ver:file")
        eng.extra_globals["version"] = Opaque("version", methods={"parse": lambda e, x: cur if x == "CUR" else fil})
        eng.extra_globals["sysloss"] = Opaque("sysloss", attrs={"__version__": "CUR"})
        orig_cmp = eng.compare
        def compare(op, a, b, node=None):
            if a is cur and b is fil and isinstance(op, ast.Lt): return SV(LT, "bool")
            if a is fil and b is cur and isinstance(op, ast.Gt): return SV(LT, "bool")
            if a is cur and b is fil and isinstance(op, ast.GtE): return SV(z3.Not(LT), "bool")
            if (a is cur or a is fil) or (b is cur or b is fil): raise Unsupported("version comparison %s" % type(op).__name__)
            return orig_cmp(op, a, b, node)
        eng.compare = compare
        paths = eng.explore(lambda e: e.run_block("system", "System", [gate], {"ver": "FILE", "fname": "f", "cls": None}, fn))
        obls.append({"id": "system.System.from_file/version-gate:placed before anything is built", "hyps": [], "goal": z3.BoolVal(k < first_build), "kind": "post", "tags": ["C12"], "meta": {}})
        for pi, p in enumerate(paths):
            if p.kind == "raise":
                obls.append({"id": "system.System.from_file/version-gate:ValueError only for a newer file@p%d" % pi, "hyps": p.pc, "goal": z3.And(LT, z3.BoolVal(p.value.etype == "ValueError")), "kind": "post", "tags": ["C12"], "meta": {}})
            else:
                obls.append({"id": "system.System.from_file/version-gate:newer file never passes@p%d" % pi, "hyps": p.pc, "goal": z3.Not(LT), "kind": "post", "tags": ["C12"], "meta": {}})
        run.assumed.add("packaging.version.parse / '<' on versions: a strict total order on version strings")
    except (Unsupported, FunctionMissing) as u:
        run.undecide("system.System.from_file/version-gate", str(u))
    return obls


# =================================================================================================== C10: interpolators
class NdArr:
    """numpy array of a (nested) python list, row-major (assumed contract of np.asarray / reshape / tolist)"""
    def __init__(self, data): self.data = data


def interp_obligations(run, src):
    obls = []
    Rl = z3.RealSort()
    # ---- _Interp0d
    try:
        eng = Engine(src); c = z3.Real("c")
        paths = eng.explore(lambda e: e.call_method(e.new_object("_Interp0d", [SV(c, "real")]), "_interp", [SV(z3.Real("x"), "real"), SV(z3.Real("y"), "real")]))
        for pi, p in enumerate(paths):
            obls.append({"id": "components._Interp0d._interp/post:the constant@p%d" % pi, "hyps": p.pc, "goal": (to_z(p.value, "real") == c) if p.kind == "return" else z3.BoolVal(False), "kind": "post", "tags": ["C10"], "meta": {}})
            obls.append({"id": "components._Interp0d._interp/canary@p%d" % pi, "hyps": p.pc, "goal": (to_z(p.value, "real") == c + 1) if p.kind == "return" else z3.BoolVal(True), "kind": "canary", "tags": ["C10"], "meta": {}})
        run.functions.update(eng.inlined)
    except (Unsupported, FunctionMissing) as u:
        run.undecide("components._Interp0d._interp/post", str(u))
    # ---- _Interp1d: np.interp(|x|, |xs| sorted ascending, |fs| carried along), independent of y
    try:
        eng = Engine(src)
        ARR = z3.DeclareSort("Arr"); ORD = z3.DeclareSort("Ord")
        ABSA = z3.Function("abs_array", ARR, ARR); INTERP = z3.Function("np_interp", Rl, ARR, ARR, Rl)
        ARGSORT = z3.Function("np_argsort", ARR, ORD); TAKE = z3.Function("take", ARR, ORD, ARR)
        xs, fs = z3.Consts("xs fs", ARR)
        def arr(t):
            def gi(e, idx, t=t):
                if isinstance(idx, Opaque) and idx.tag == "ord": return arr(TAKE(t, idx.attrs["z"]))
                raise Unsupported("array subscript other than a permutation")
            return Opaque("arr", attrs={"z": t}, getitem=gi)
        eng.np.methods["asarray"] = lambda e, a, **k: a
        orig_abs = eng.np.methods["abs"]
        eng.np.methods["abs"] = lambda e, a: arr(ABSA(a.attrs["z"])) if (isinstance(a, Opaque) and a.tag == "arr") else orig_abs(e, a)
        eng.np.methods["argsort"] = lambda e, a, **k: Opaque("ord", attrs={"z": ARGSORT(a.attrs["z"])})
        eng.np.methods["interp"] = lambda e, x, xp, fp: SV(INTERP(to_z(x, "real"), xp.attrs["z"], fp.attrs["z"]), "real")
        x, y = z3.Real("x"), z3.Real("y")
        paths = eng.explore(lambda e: e.call_method(e.new_object("_Interp1d", [arr(xs), arr(fs)]), "_interp", [SV(x, "real"), SV(y, "real")]))
        def replay_1d(model, zm):
            # the clause is stated over uninterpreted array functions: a refutation counts only with a concrete witness
            import numpy as np, sysloss.components as C
            for xs_, fs_ in (([0.1, 0.5, 0.9], [1e-3, 5e-3, 9e-3]), ([-0.9, -0.5, -0.1], [9e-3, 5e-3, 1e-3]), ([-0.5, 0.1, 0.9], [5e-3, -1e-3, 9e-3]), ([0.0, 2.0], [0.3, 0.7])):
                ip = C._Interp1d(list(xs_), list(fs_))
                ax = np.abs(np.asarray(xs_)); af = np.abs(np.asarray(fs_)); o = np.argsort(ax, kind="stable")
                for q in (-2.0, -0.5, -0.3, 0.0, 0.1, 0.25, 0.5, 0.9, 1.5):
                    got = float(ip._interp(q, 7.0)); want_ = float(np.interp(abs(q), ax[o], af[o]))
                    if not abs(got - want_) <= 1e-12 * max(1.0, abs(want_)):
                        return {"confirmed": True, "call": "_Interp1d(%r, %r)._interp(%r, 7.0)" % (list(xs_), list(fs_), q), "observed": got, "required": want_}
            return {"confirmed": False, "detail": "no concrete witness among the probe tables"}
        for pi, p in enumerate(paths):
            o_ = ARGSORT(ABSA(xs))
            want = INTERP(z3.If(x >= 0, x, -x), TAKE(ABSA(xs), o_), TAKE(ABSA(fs), o_))
            obls.append({"id": "components._Interp1d._interp/post:np.interp(|x|, |xs| ascending, |fs| carried along), independent of y@p%d" % pi, "hyps": p.pc, "goal": (to_z(p.value, "real") == want) if p.kind == "return" else z3.BoolVal(False), "kind": "post", "tags": ["C10"],
                         "meta": {"replay": replay_1d, "abstract": True}})
        run.functions.update(eng.inlined)
        run.assumed.add("np.interp(x, xp, fp): piecewise-linear interpolation over increasing xp, clamped to fp[0] / fp[-1] outside; np.argsort / fancy indexing: the stable ascending permutation (validated boundedly by C10-B1)")
    except (Unsupported, FunctionMissing) as u:
        run.undecide("components._Interp1d._interp/post", str(u))
    # ---- _Interp2d._interp: result = _intp(clamp_x(x), clamp_y(y)), never NaN, given 'NaN exactly outside [xmin,xmax]x[ymin,ymax]'
    try:
        eng = Engine(src)
        VAL = z3.Function("intp_value", Rl, Rl, Rl)
        xmin, xmax, ymin, ymax = z3.Reals("xmin xmax ymin ymax")
        def intp_call(e, xl, yl):
            xz, yz = to_z(xl[0], "real"), to_z(yl[0], "real")
            outside = z3.Or(xz < xmin, xz > xmax, yz < ymin, yz > ymax)
            e.event("intp", x=xz, y=yz)
            return [Opaque("maybe_nan", attrs={"is_nan": outside, "val": VAL(xz, yz), "x": xz, "y": yz})]
        x, y = z3.Real("x"), z3.Real("y")
        def thunk(e):
            e.assume(xmin <= xmax); e.assume(ymin <= ymax)
            obj = PyObj("_Interp2d", {"_xmin": SV(xmin, "real"), "_xmax": SV(xmax, "real"), "_ymin": SV(ymin, "real"), "_ymax": SV(ymax, "real")})
            from pyvc.engine import Builtin
            obj.attrs["_intp"] = Builtin("_intp", intp_call)
            return e.call_method(obj, "_interp", [SV(x, "real"), SV(y, "real")])
        paths = eng.explore(thunk)
        cx = z3.If(x < xmin, xmin, z3.If(x > xmax, xmax, x)); cy = z3.If(y < ymin, ymin, z3.If(y > ymax, ymax, y))
        for pi, p in enumerate(paths):
            if p.kind != "return" or not isinstance(p.value, Opaque):
                obls.append({"id": "components._Interp2d._interp/never-raises@p%d" % pi, "hyps": p.pc, "goal": z3.BoolVal(False), "kind": "post", "tags": ["C10"], "meta": {}}); continue
            r = p.value
            obls.append({"id": "components._Interp2d._interp/post:queried at the clamped point@p%d" % pi, "hyps": p.pc, "goal": z3.And(r.attrs["x"] == cx, r.attrs["y"] == cy), "kind": "post", "tags": ["C10"], "meta": {}})
            obls.append({"id": "components._Interp2d._interp/post:never NaN@p%d" % pi, "hyps": p.pc, "goal": z3.Not(r.attrs["is_nan"]), "kind": "post", "tags": ["C10"], "meta": {}})
            obls.append({"id": "components._Interp2d._interp/canary@p%d" % pi, "hyps": p.pc, "goal": r.attrs["x"] == x, "kind": "canary", "tags": ["C10"], "meta": {}})
        run.functions.update(eng.inlined)
        run.assumed.add("scipy LinearNDInterpolator on the flattened grid: NaN exactly outside [xmin,xmax]x[ymin,ymax], piecewise linear inside (validated boundedly by C10-B1)")
    except (Unsupported, FunctionMissing) as u:
        run.undecide("components._Interp2d._interp/post", str(u))
    obls += flatten_obligations(run, src)
    return obls


def flatten_obligations(run, src):
    """C10-P4 (bounded in SHAPE, symbolic in values): the constructors hand the interpolator the points
    (|io[j mod m]|, |vi[j div m]|) with value |tbl[j div m][j mod m]|, for table shapes up to 3 x 4"""
    obls = []
    forms = [("Converter", "eff", {"vo": 5.0}), ("VLoss", "vdrop", {}), ("LinReg", "ig", {"vo": 5.0}), ("PSwitch", "ig", {}), ("PMux", "ig", {}), ("Rectifier", "vdrop", {}), ("Rectifier", "ig", {})]
    for cls, key, extra in forms:
        for nv, ni in ((2, 2), (2, 3), (3, 2), (3, 4)):
            base = "components.%s.__init__[%s table %dx%d]" % (cls, key, nv, ni)
            io = [z3.Real("io%d" % j) for j in range(ni)]; vi = [z3.Real("vi%d" % j) for j in range(nv)]
            tb = [[z3.Real("t%d_%d" % (a, b)) for b in range(ni)] for a in range(nv)]
            captured = []
            eng = Engine(src)
            eng.overrides["components._check_interp"] = lambda e, recv, a, k: None
            def asarray(e, a, **k): return NdArr(a)
            eng.np.methods["asarray"] = asarray
            eng.np.methods["min"] = lambda e, a: _nested(e, a, "min")
            eng.np.methods["max"] = lambda e, a: _nested(e, a, "max")
            orig_abs = eng.np.methods["abs"]
            eng.np.methods["abs"] = lambda e, a: [orig_abs(e, v) for v in a] if isinstance(a, list) else orig_abs(e, a)
            def lnd(e, pts, vals, captured=captured):
                captured.append((list(pts), list(vals))); return Opaque("LinearNDInterpolator")
            eng.extra_globals["LinearNDInterpolator"] = Builtin_fn(lnd)
            patch_ndarr(eng)
            def thunk(e):
                del captured[:]
                tbl = {"vi": [SV(v, "real") for v in vi], "io": [SV(v, "real") for v in io], key: [[SV(t, "real") for t in row] for row in tb]}
                if cls == "Converter":
                    for row in tb:
                        for t in row: e.assume(z3.And(t > 0, t <= 1))
                elif key == "ig":
                    for row in tb:
                        for t in row: e.assume(t >= 0)
                obj = e.new_object(cls, ["X"], dict(extra, **{key: tbl}))
                return obj, list(captured)
            try:
                paths = eng.explore(thunk)
            except (Unsupported, FunctionMissing) as u:
                run.undecide(base, str(u)); continue
            run.functions.update(q for q in eng.inlined)
            for pi, p in enumerate(paths):
                if p.kind != "return":
                    obls.append({"id": base + "/accepted@p%d" % pi, "hyps": p.pc, "goal": z3.BoolVal(False), "kind": "post", "tags": ["C10"], "meta": {}}); continue
                obj, cap = p.value
                ok = len(cap) == 1 and len(cap[0][0]) == nv * ni and len(cap[0][1]) == nv * ni
                goals = [z3.BoolVal(bool(ok))]
                if ok:
                    for j in range(nv * ni):
                        px, py = cap[0][0][j]
                        goals.append(z3.And(to_z(px, "real") == zabs(io[j % ni]), to_z(py, "real") == zabs(vi[j // ni]), to_z(cap[0][1][j], "real") == zabs(tb[j // ni][j % ni])))
                obls.append({"id": base + "/post:interpolator receives (|io|, |vi|, |value|) row-major@p%d" % pi, "hyps": p.pc, "goal": z3.And(*goals), "kind": "post", "tags": ["C10"], "meta": {}})
                ipr = obj.attrs.get("_ipr")
                if isinstance(ipr, PyObj) and ipr.cls == "_Interp2d":
                    def mn(ts): 
                        r = zabs(ts[0])
                        for t in ts[1:]: r = z3.If(zabs(t) < r, zabs(t), r)
                        return r
                    def mx(ts):
                        r = zabs(ts[0])
                        for t in ts[1:]: r = z3.If(zabs(t) > r, zabs(t), r)
                        return r
                    g = z3.And(to_z(ipr.attrs["_xmin"], "real") == mn(io), to_z(ipr.attrs["_xmax"], "real") == mx(io), to_z(ipr.attrs["_ymin"], "real") == mn(vi), to_z(ipr.attrs["_ymax"], "real") == mx(vi))
                    obls.append({"id": base + "/post:clamp bounds = range of |io| and |vi|@p%d" % pi, "hyps": p.pc, "goal": g, "kind": "post", "tags": ["C10"], "meta": {}})
                else:
                    obls.append({"id": base + "/post:2-D interpolator built@p%d" % pi, "hyps": p.pc, "goal": z3.BoolVal(False), "kind": "post", "tags": ["C10"], "meta": {}})
    run.assumed.add("np.asarray(nested list).reshape(1,-1)[0].tolist(): row-major flattening")
    run.notes.append("table flattening (C10-P4) is proved for concrete table shapes 2x2, 2x3, 3x2, 3x4 with symbolic contents: bounded in shape, labelled so")
    return obls


def Builtin_fn(fn):
    from pyvc.engine import Builtin
    return Builtin(getattr(fn, "__name__", "fn"), fn)


def _nested(e, a, which):
    flat = []
    def walk(v):
        if isinstance(v, (list, tuple)): [walk(x) for x in v]
        elif isinstance(v, NdArr): walk(v.data)
        else: flat.append(v)
    walk(a)
    from pyvc.engine import BUILTINS
    return BUILTINS[which].fn(e, *flat) if len(flat) > 1 else flat[0]


def patch_ndarr(eng):
    """NdArr support: .reshape(1,-1), [0], .tolist()"""
    orig_get, orig_item = eng.getattr_, eng.getitem
    def getattr_(base, attr, node=None):
        if isinstance(base, NdArr):
            from pyvc.engine import Builtin
            if attr == "reshape":
                def reshape(e, a, b, _b=base):
                    flat = []
                    def walk(v):
                        if isinstance(v, (list, tuple)): [walk(x) for x in v]
                        else: flat.append(v)
                    walk(_b.data)
                    if (a, b) != (1, -1): raise Unsupported("reshape%r" % ((a, b),))
                    return NdArr([flat])
                return Builtin("ndarray.reshape", reshape)
            if attr == "tolist": return Builtin("ndarray.tolist", lambda e, _b=base: list(_b.data))
            if attr == "shape":
                sh, d = [], base.data
                while isinstance(d, list): sh.append(len(d)); d = d[0] if d else None
                return tuple(sh)
            raise Unsupported("ndarray." + attr)
        return orig_get(base, attr, node)
    def getitem(base, idx, node=None):
        if isinstance(base, NdArr):
            v = base.data[idx]
            return NdArr(v) if isinstance(v, list) else v
        return orig_item(base, idx, node)
    eng.getattr_, eng.getitem = getattr_, getitem


# =================================================================================================== C13: TOML loader
GENERIC = ["Source", "PLoad", "ILoad", "RLoad", "RLoss", "VLoss", "Converter", "PSwitch", "PMux", "Rectifier"]
_GOOD = {"vo": 5.0, "rs": 0.5, "pwr": 1.0, "pwrs": 0.1, "rt": 2.0, "ii": 0.3, "iis": 0.01, "eff": 0.8, "iq": 1e-3, "ig": 1e-3, "vdrop": 0.2, "loss": True}


import json as _json, os as _os
try: _PINNED_TYPES = _json.load(open(_os.path.join(_os.path.dirname(__file__), "TOML_TYPES.json")))
except Exception: _PINNED_TYPES = {}


def toml_obligations(run, src):
    """C13-P1/P2: the generic loader _Component.from_file builds cls(name, **values) with file values for present keys and
    the schema default for absent optional ones; KeyError for a missing mandatory key; ValueError for a wrongly typed value;
    schema defaults == constructor defaults; schema keys are constructor keywords."""
    import itertools
    obls = []
    for cls in GENERIC:
        base = "components.%s.from_file" % cls
        try:
            cp = src.class_literal(cls, "_cparams")
            _, init = src.method(cls, "__init__")
        except FunctionMissing as m:
            run.undecide(base, str(m)); continue
        kw_defaults = {a.arg: d for a, d in zip(init.args.kwonlyargs, init.args.kw_defaults)}
        mod = src.module_of_class(cls)
        # ---- P2 (finite, exhaustive; backend 'ast')
        for k, sc in cp["params"].items():
            okk = k in kw_defaults
            obls.append({"id": "%s/schema key %s is a constructor keyword" % (base, k), "hyps": [], "goal": z3.BoolVal(okk), "kind": "post", "tags": ["C13"], "meta": {}})
            if okk and sc["opt"]:
                d = kw_defaults[k]
                try: dv = eval(compile(ast.Expression(d), "<d>", "eval"), {"__builtins__": {}}, dict(mod.consts)) if d is not None else None
                except Exception: dv = "<not literal>"
                obls.append({"id": "%s/schema default of %s (%r) == constructor default (%r)" % (base, k, sc.get("def"), dv), "hyps": [], "goal": z3.BoolVal(d is not None and dv == sc.get("def") and type(dv) == type(sc.get("def")) or (d is not None and dv == sc.get("def") and isinstance(dv, (int, float)) and not isinstance(dv, bool))), "kind": "post", "tags": ["C13"], "meta": {}})
            if okk and not sc["opt"]:
                obls.append({"id": "%s/mandatory key %s has no constructor default" % (base, k), "hyps": [], "goal": z3.BoolVal(kw_defaults[k] is None or cls == "Rectifier"), "kind": "post", "tags": ["C13"], "meta": {}})
        # ---- P1: every presence pattern of the optional keys (mandatory present), numeric values symbolic
        keys = list(cp["params"])
        opt = [k for k in keys if cp["params"][k]["opt"]]; mand = [k for k in keys if not cp["params"][k]["opt"]]
        def value(k, wrong=False):
            if wrong: return "text"
            if k == "loss": return True
            if k == "rs" and cls == "PMux" and False: return [0.1, 0.2]
            t = cp["params"][k]["typ"]
            return SV(z3.Real("%s.%s" % (cls, k)), "real", pytype=float)
        for present in itertools.product([True, False], repeat=len(opt)):
            for with_limits in (True, False):
                pres = dict(zip(opt, present)); pres.update({k: True for k in mand})
                sect = {k: value(k) for k in keys if pres[k]}
                lim = {"vi": [0.0, 3.0]}
                config = {cp["name"]: sect}
                if with_limits: config["limits"] = lim
                label = "[present: %s%s]" % (",".join(k for k in keys if pres[k]), ";limits" if with_limits else "")
                r1 = _run_loader(src, cls, config)
                direct_kw = dict(sect); 
                if with_limits: direct_kw["limits"] = lim
                r2 = _run_direct(src, cls, direct_kw)
                if r1 is None or r2 is None:
                    run.undecide(base + label, "unsupported"); continue
                run.functions.add("components._Component.from_file"); run.functions.add("components.%s.__init__" % cls)
                obls += _compare_builds(base + label, r1, r2)
        # missing mandatory key -> KeyError ; wrong type -> ValueError, nothing built
        for k in mand:
            sect = {q: value(q) for q in keys if q != k}
            r = _run_loader(src, cls, {cp["name"]: sect})
            if r is None:
                run.undecide("%s/missing mandatory key %s raises KeyError" % (base, k), "loader body outside the supported subset on this tree"); continue
            ok = all(p.kind == "raise" and p.value.etype == "KeyError" for p in r)
            obls.append({"id": "%s/missing mandatory key %s raises KeyError" % (base, k), "hyps": [], "goal": z3.BoolVal(bool(ok)), "kind": "post", "tags": ["C13"], "meta": {}})
        for k in keys:
            for wrongv, wl in (("text", "str"), (True, "bool"), (False, "bool-false"), ([1.0], "list"), (0, "int-zero"), (1, "int-one"), (0.0, "float-zero"), (None, "none")):
                typ = cp["params"][k]["typ"]
                pinned = _PINNED_TYPES.get(cls, {}).get(k)
                if pinned is not None: typ = [t_ for t_ in (int, float, bool, str, list, dict) if t_.__name__ in pinned]     # the documented types (contracts/TOML_TYPES.json), not the tree's own declaration
                if type(wrongv) in typ or wrongv is None and False: continue
                if wrongv is None: continue
                sect = {q: value(q) for q in keys}; sect[k] = wrongv
                r = _run_loader(src, cls, {cp["name"]: sect})
                if r is None:
                    run.undecide("%s/value of the wrong type (%s) for %s is rejected with ValueError" % (base, wl, k), "loader body outside the supported subset on this tree"); continue
                ok = all(p.kind == "raise" and p.value.etype == "ValueError" and not p.value.implicit for p in r)
                obls.append({"id": "%s/value of the wrong type (%s) for %s is rejected with ValueError" % (base, wl, k), "hyps": [], "goal": z3.BoolVal(bool(ok)), "kind": "post", "tags": ["C13"], "meta": {}})
    run.assumed.add("toml.load returns the file's tables as nested dicts with python scalars / lists (validated boundedly by C13-B1)")
    return obls


def _run_loader(src, cls, config):
    eng = Engine(src)
    from pyvc.engine import Builtin
    eng.extra_globals["open"] = Builtin("open", lambda e, *a, **k: Opaque("file"))
    eng.extra_globals["toml"] = Opaque("toml", methods={"load": lambda e, f: {k: (dict(v) if isinstance(v, dict) else v) for k, v in config.items()}})
    try:
        return eng.explore(lambda e: e.call_value(e.getattr_(ClassRef(cls), "from_file"), ["X"], {"fname": "f.toml"}, None))
    except (Unsupported, FunctionMissing):
        return None


def _run_direct(src, cls, kw):
    eng = Engine(src)
    try:
        return eng.explore(lambda e: e.new_object(cls, ["X"], dict(kw)))
    except (Unsupported, FunctionMissing):
        return None


def _state_terms(obj):
    out = {}
    for k, v in obj.attrs.get("_params", {}).items(): out["_params." + k] = v
    ipr = obj.attrs.get("_ipr")
    out["_ipr.kind"] = ipr.cls if isinstance(ipr, PyObj) else type(ipr).__name__
    if isinstance(ipr, PyObj) and "_x" in ipr.attrs: out["_ipr._x"] = ipr.attrs["_x"]
    out["_limits"] = obj.attrs.get("_limits")
    return out


def _compare_builds(base, loader_paths, direct_paths):
    """for every pair (loader path, direct path) with compatible path conditions the outcomes agree"""
    obls = []
    for i, a in enumerate(loader_paths):
        for j, b in enumerate(direct_paths):
            hyps = a.pc + b.pc
            if not solver.satisfiable(hyps, 3)[0]: continue
            if a.kind != b.kind:
                obls.append({"id": "%s:loader and constructor agree on acceptance@p%d,%d" % (base, i, j), "hyps": hyps, "goal": z3.BoolVal(False), "kind": "post", "tags": ["C13"], "meta": {}}); continue
            if a.kind == "raise":
                obls.append({"id": "%s:same exception type@p%d,%d" % (base, i, j), "hyps": hyps, "goal": z3.BoolVal(a.value.etype == b.value.etype), "kind": "post", "tags": ["C13"], "meta": {}}); continue
            sa, sb = _state_terms(a.value), _state_terms(b.value)
            goals = [z3.BoolVal(set(sa) == set(sb) and a.value.cls == b.value.cls)]
            if set(sa) == set(sb):
                for k in sa:
                    x, y = sa[k], sb[k]
                    if is_sym(x) or is_sym(y): goals.append(to_z(x, "real") == to_z(y, "real") if not ((is_sym(x) and x.sort == "bool") or isinstance(x, bool)) else to_z(x) == to_z(y))
                    else: goals.append(z3.BoolVal(x == y and type(x) == type(y)))
            obls.append({"id": "%s:component built by the loader == constructor call (params, interpolator, limits)@p%d,%d" % (base, i, j), "hyps": hyps, "goal": z3.And(*goals), "kind": "post", "tags": ["C13"], "meta": {}})
            obls.append({"id": "%s:canary@p%d,%d" % (base, i, j), "hyps": hyps, "goal": z3.BoolVal(False), "kind": "canary", "tags": ["C13"], "meta": {}})
    return obls
