"""Spec functions (single source of truth for layer P and layer B): the documented model of each component kind,
written once over an `ops` namespace - Z3Ops builds z3 terms, FloatOps evaluates on python floats.

P  : parameters of the component (dict: magnitudes as stored after construction, vo signed)
g  : value of the kind's tabulated / constant parameter at the operating point, g = ipr(|io|, |vi_sel|)
vi : input voltage actually feeding the component (selected input for a PMux); io : output current (>= 0)
off: the feeding parent is off;  inactive: phase configuration non-empty and the phase not listed
Each law returns a dict(mode=..., vo=..., raises=..., state_off=...) or a term.
"""
import math
import z3


class Z3Ops:
    name = "z3"
    def const(self, x): return z3.RealVal(repr(float(x))) if not isinstance(x, (int, z3.ExprRef)) else (z3.RealVal(x) if isinstance(x, int) else x)
    def abs(self, x): x = self.const(x); return z3.If(x >= 0, x, -x)
    def ite(self, c, a, b): return z3.If(c, self.const(a), self.const(b))
    def bite(self, c, a, b): return z3.If(c, a, b)
    def min(self, a, b): a, b = self.const(a), self.const(b); return z3.If(a <= b, a, b)
    def max(self, a, b): a, b = self.const(a), self.const(b); return z3.If(b > a, b, a)
    def and_(self, *a): return z3.And(*a)
    def or_(self, *a): return z3.Or(*a)
    def not_(self, a): return z3.Not(a)
    def implies(self, a, b): return z3.Implies(a, b)
    def eq(self, a, b): return self.const(a) == self.const(b)
    def beq(self, a, b): return a == b
    def le(self, a, b): return self.const(a) <= self.const(b)
    def lt(self, a, b): return self.const(a) < self.const(b)
    def true(self): return z3.BoolVal(True)
    def false(self): return z3.BoolVal(False)
    def sign(self, x): x = self.const(x); return z3.If(x > 0, z3.RealVal(1), z3.If(x < 0, z3.RealVal(-1), z3.RealVal(0)))


class FloatOps:
    name = "float"
    def __init__(self, rel=1e-9, abs_=1e-12): self.rel, self.abs_ = rel, abs_
    def const(self, x): return float(x)
    def abs(self, x): return abs(x)
    def ite(self, c, a, b): return a if c else b
    bite = ite
    def min(self, a, b): return min(a, b)
    def max(self, a, b): return max(a, b)
    def and_(self, *a): return all(a)
    def or_(self, *a): return any(a)
    def not_(self, a): return not a
    def implies(self, a, b): return (not a) or b
    def eq(self, a, b):
        # comparisons with exactly 0 select branches of the documented laws (no load, dead input, 0 V setting): they are exact, as in the code
        if (isinstance(b, (int, float)) and b == 0) or (isinstance(a, (int, float)) and a == 0): return a == b
        return math.isclose(a, b, rel_tol=self.rel, abs_tol=self.abs_)
    def beq(self, a, b): return bool(a) == bool(b)
    def le(self, a, b): return a <= b + self.abs_ + self.rel * max(abs(a), abs(b))
    def lt(self, a, b): return a < b
    def true(self): return True
    def false(self): return False
    def sign(self, x): return (x > 0) - (x < 0)


SERIES = ("RLoss", "VLoss", "PSwitch", "PMux", "Rectifier")      # passive series elements (plus the Source's resistance)
LOADS = ("PLoad", "ILoad", "RLoad")
PHASED = ("Source", "Converter", "LinReg", "PSwitch", "PMux")   # active only in their listed phases
KINDS = ("Source", "PLoad", "ILoad", "RLoad", "RLoss", "VLoss", "Converter", "LinReg", "PSwitch", "PMux", "Rectifier")


def kind_of(K, P=None):
    """Rectifier splits by mode"""
    if K == "Rectifier" and P is not None:
        return "Rectifier:" + P["type"]
    return K


# ---------------------------------------------------------------------------------------------------------- output voltage
def vo_law(o, K, P, vi, io, g, off, inactive, r_sel=None):
    """-> dict(dead, inactive, vo (term when neither raising nor dead/inactive), raises (cond), value (overall), state_off)
    K: kind ('Rectifier:diode' / 'Rectifier:mosfet').  For Source vi is ignored (its own vo is the 'input').
    r_sel: PMux on-resistance of the selected input (magnitude)."""
    A = o.abs(vi)
    zero = o.const(0.0)
    if K == "Source":
        vo = P["vo"]
        dead = o.or_(o.eq(vo, 0.0), off)
        drop = P["rs"] * io
        mag = o.abs(vo) - drop
        out = o.sign(vo) * mag
        raises = o.le(mag, 0.0)
        use_inactive = inactive
    elif K in LOADS:
        return dict(dead=off, inactive=o.false(), vo=zero, raises=o.false(), value=zero, state_off=off)
    else:
        dead = o.or_(o.eq(A, 0.0), off)
        use_inactive = inactive if K in PHASED else o.false()
        if K == "RLoss":
            mag = A - P["rs"] * io; out = o.sign(vi) * mag; raises = o.le(mag, 0.0)
        elif K == "VLoss":
            mag = A - g; out = o.sign(vi) * mag; raises = o.le(mag, 0.0)
        elif K == "Converter":
            out = o.const(P["vo"]); raises = o.false()
        elif K == "LinReg":
            m = o.min(o.abs(P["vo"]), o.max(A - P["vdrop"], 0.0))
            out = o.ite(o.le(0.0, P["vo"]), m, -m); raises = o.false()
        elif K == "PSwitch":
            mag = A - P["rs"] * io; out = o.sign(vi) * mag; raises = o.le(mag, 0.0)
        elif K == "PMux":
            mag = A - r_sel * io; out = o.sign(vi) * mag; raises = o.le(mag, 0.0)
        elif K == "Rectifier:diode":
            mag = A - 2 * g; out = mag; raises = o.le(mag, 0.0)
        elif K == "Rectifier:mosfet":
            mag = A - 2 * P["rs"] * io; out = mag; raises = o.le(mag, 0.0)
        else:
            raise KeyError(K)
    quiet = o.or_(dead, use_inactive)
    return dict(dead=dead, inactive=o.and_(o.not_(dead), use_inactive), vo=out,
                raises=o.and_(o.not_(quiet), raises),
                value=o.ite(quiet, zero, out), state_off=quiet)


# ---------------------------------------------------------------------------------------------------------- input current
def ii_law(o, K, P, vi, io, g, off, inactive, pc_nonempty=None, pc_contains=None, pc_value=None):
    """input current drawn from the (selected) supply.  For loads the phase rule of C06: no configuration -> nominal,
    phase absent -> sleep value (RLoad keeps its resistance), present -> the configured value."""
    A = o.abs(vi)
    zero = o.const(0.0)
    if K == "Source":
        dead = o.or_(o.eq(P["vo"], 0.0), off)
        return o.ite(o.or_(inactive, dead), zero, io)
    dead = o.or_(o.eq(A, 0.0), off)
    if K in LOADS:
        def phase_val(nominal, sleep):
            return o.ite(o.not_(pc_nonempty), nominal, o.ite(o.not_(pc_contains), sleep, pc_value))
        if K == "PLoad":
            val = phase_val(P["pwr"], P["pwrs"]) / o.ite(dead, 1.0, A)
        elif K == "ILoad":
            val = o.abs(phase_val(P["ii"], P["iis"]))
        else:
            val = A / o.ite(dead, 1.0, phase_val(P["rs"], P["rs"]))
        return o.ite(dead, zero, val)
    if K in ("RLoss", "VLoss", "Rectifier:diode"):
        return o.ite(dead, zero, io)
    if K == "Converter":
        dead = o.or_(dead, o.eq(P["vo"], 0.0))
        den = o.ite(o.or_(dead, o.eq(g, 0.0)), 1.0, A * g)
        act = o.ite(o.eq(io, 0.0), P["iq"], o.abs(P["vo"]) * io / den)
        return o.ite(dead, zero, o.ite(inactive, P["iis"], act))
    if K in ("LinReg", "PSwitch", "PMux"):
        return o.ite(dead, zero, o.ite(inactive, P["iis"], io + g))
    if K == "Rectifier:mosfet":
        return o.ite(dead, zero, o.ite(o.eq(io, 0.0), P["iq"], io + g))
    raise KeyError(K)


# ---------------------------------------------------------------------------------------------------------- power / loss
def pwr_law(o, K, P, vi, vo, ii, io, g, ta, inactive):
    """documented accounting for one table row: (power, loss, tr, tp) as functions of the row's electrical values.
    `dead` here is what _solv_pwr_loss can see: |vi| = 0 (Source: own vo = 0)."""
    A = o.abs(vi)
    zero = o.const(0.0)
    if K == "Source":
        dead = o.or_(o.eq(P["vo"], 0.0), inactive)
        pwr = o.ite(dead, zero, o.abs(P["vo"]) * io)
        loss = o.ite(dead, zero, P["rs"] * io * io)
        return dict(dead=dead, pwr=pwr, loss=loss, tr=zero, tp=zero)
    dead = o.eq(A, 0.0)
    if K in LOADS:
        cons = A * o.abs(ii)
        isloss = P["loss"]
        pwr = o.ite(o.or_(dead, isloss), zero, cons)
        loss = o.ite(o.and_(o.not_(dead), isloss), cons, zero)
        # D18 (open, pinned by the suite): temperature rise of a load follows its consumption, also when it is not a loss
        tr = o.ite(dead, zero, cons * P["rt"])
        return dict(dead=dead, pwr=pwr, loss=loss, tr=tr, tp=ta + tr, cons=cons)
    pin = A * o.abs(ii)
    if K in ("RLoss", "PSwitch", "PMux"):
        # series drop (|vi|-|vo|) * io plus ground current g*|vi| (g = 0 for RLoss)
        extra = zero if K == "RLoss" else g * A
        loss = extra + (A - o.abs(vo)) * io
    elif K in ("VLoss",):
        loss = g * io
    elif K == "Rectifier:diode":
        loss = 2 * g * io
    elif K == "Rectifier:mosfet":
        loss = o.ite(o.eq(io, 0.0), P["iq"] * A, g * A + 2 * P["rs"] * io * io)
    elif K == "Converter":
        loss = o.ite(o.eq(io, 0.0), P["iq"] * A, pin * (1 - g))
    elif K == "LinReg":
        v = o.min(o.abs(P["vo"]), o.max(A - P["vdrop"], 0.0))
        loss = g * A + (A - v) * io
    else:
        raise KeyError(K)
    sleeping = inactive if K in PHASED else o.false()
    loss = o.ite(sleeping, P["iis"] * A if "iis" in P else zero, loss)
    pwr = o.ite(sleeping, P["iis"] * A if "iis" in P else zero, pin)
    loss = o.ite(dead, zero, loss); pwr = o.ite(dead, zero, pwr)
    tr = loss * P["rt"]
    return dict(dead=dead, pwr=pwr, loss=loss, tr=tr, tp=ta + tr)


def eff_law(o, pwr, loss, default):
    den = o.ite(o.lt(0.0, pwr), pwr, 1.0)
    return o.ite(o.lt(0.0, pwr), 100.0 * o.abs((pwr - loss) / den), default)


EFF_DEFAULT = {"Source": 100.0, "RLoss": 100.0}      # default efficiency reported at zero power (others 0.0; loads by loss flag)


# ---------------------------------------------------------------------------------------------------------- warnings (C09)
LIMIT_KEYS = {
    "Source": ["io", "po", "pl"], "PLoad": ["vi", "ii", "tr", "tp"], "ILoad": ["vi", "pi", "tr", "tp"], "RLoad": ["vi", "ii", "pi", "tr", "tp"],
    "Converter": ["vi", "vo", "ii", "io", "pi", "po", "pl", "tr", "tp"],
}
ALL_KEYS = ["vi", "vo", "vd", "ii", "io", "pi", "po", "pl", "tr", "tp"]


def limit_keys(K):
    return LIMIT_KEYS.get(K.split(":")[0], ALL_KEYS)


def quantities(o, vi, vo, ii, io, pwr, loss, tr, tp):
    return {"vi": vi, "vo": vo, "vd": o.abs(vi) - o.abs(vo), "ii": ii, "io": io, "pi": pwr, "po": pwr - loss, "pl": loss, "tr": tr, "tp": tp}


def exceeded(o, key, x, lo, hi):
    if key == "tp":
        return o.or_(o.lt(hi, x), o.lt(x, lo))
    return o.or_(o.lt(o.abs(hi), o.abs(x)), o.lt(o.abs(x), o.abs(lo)))
