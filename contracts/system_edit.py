"""Side-car contracts for the registry / configuration operations of sysloss/system.py (C14, C15, C16, C06):
set_sys_phases, set_comp_phases, _get_index, _chk_parent, _chk_comp, _chk_name (layer P).

Registries (nodes: name -> index, rails: name -> rail, ...) are modelled as maps (dom: Name -> Bool, val: Name -> tau) over
z3 arrays; every store / del is logged, so 'an exception leaves the system untouched' is the obligation 'the write log is
empty on every raising path' (explicit raise, or implicit KeyError whose key-presence side condition is not discharged)."""
import z3
from pyvc import *
from pyvc.engine import LoopSpec, Builtin
from pyvc import solver

I, Bo = z3.IntSort(), z3.BoolSort()
EMPTY = name_const("")


class Reg:
    """registry dict as (dom, val) arrays with a write log"""

    def __init__(self, label, valsort, writes):
        self.label, self.valsort, self.writes = label, valsort, writes
        self.dom = z3.Array(label + ".dom", NAME, Bo)
        self.val = z3.Array(label + ".val", NAME, valsort)
        self.obj = Opaque("reg:" + label, contains=self._contains, getitem=self._get, setitem=self._set,
                          methods={"keys": lambda e: self.obj, "values": lambda e: self._values(), "delitem": self._del}, label=label)

    def has(self, k): return z3.Select(self.dom, to_z(k))
    def get(self, k): return z3.Select(self.val, to_z(k))
    def _contains(self, e, item):
        if not (is_sym(item) and item.sort == "name") and not isinstance(item, str): return False
        return self.has(item)
    def _get(self, e, k):
        if not e.decide(self.has(k)): raise PyRaise("KeyError", self.label, None, implicit=True)
        return SV(self.get(k))
    def _set(self, e, k, v):
        self.writes.append((self.label, "store", to_z(k), v))
        self.dom = z3.Store(self.dom, to_z(k), True)
        if is_sym(v) or isinstance(v, (str, int)): self.val = z3.Store(self.val, to_z(k), to_z(v))
        else: self.stored_obj = v
    def _del(self, e, k, node=None):
        if not e.decide(self.has(k)): raise PyRaise("KeyError", self.label, node, implicit=True)
        self.writes.append((self.label, "del", to_z(k), None))
        self.dom = z3.Store(self.dom, to_z(k), False)
    def _values(self):
        x = z3.Const("k_" + self.label, NAME)
        return Opaque("values:" + self.label, contains=lambda e, item: z3.Exists([x], z3.And(z3.Select(self.dom, x), z3.Select(self.val, x) == to_z(item))))


def _mk(src, writes, with_graph=True):
    nodes = Reg("nodes", I, writes); rails = Reg("rails", NAME, writes); pconf = Reg("phase_conf", I, writes); groups = Reg("groups", NAME, writes)
    ISA = z3.Function("isinstance_of", I, NAME, Bo); CNAME = z3.Function("name_of", I, NAME)
    attrs_d = {"nodes": nodes.obj, "rails": rails.obj, "phase_conf": pconf.obj, "groups": groups.obj}
    def attrs_set(key, v):
        writes.append(("attrs", "store", key, v)); attrs_d[key] = v
    INPH = z3.Function("phase_defined", NAME, Bo)
    attrs_d["phases"] = Opaque("phases", truth=lambda e: z3.Bool("phases_nonempty"), contains=lambda e, item: INPH(to_z(item)),
                               methods={"keys": lambda e: attrs_d["phases"]})
    def attrs_get(key):
        if key not in attrs_d: raise Unsupported("self._g.attrs[%r] is not modelled" % (key,))
        return attrs_d[key]
    attrs = HMap(attrs_get, attrs_set, label="self._g.attrs")
    def comp(c):
        cz = to_z(c)
        return Opaque("comp", attrs={"_params": {"name": SV(CNAME(cz), "name")}}, methods={"isinstance": lambda e, cls, cz=cz: ISA(cz, name_const(cls))})
    g = HMap(comp, label="self._g"); g.attrs = {"attrs": attrs}
    selfobj = Opaque("self", cls="System", attrs={"_g": g})
    return dict(nodes=nodes, rails=rails, pconf=pconf, groups=groups, ISA=ISA, CNAME=CNAME, selfobj=selfobj, attrs_d=attrs_d)


def wf_registry(M):
    """the part of WF(S) the lookups rely on: names <-> indices bijective with the objects' own names, registries share the
    domain, non-empty rails unique and disjoint from names"""
    n1, n2 = z3.Consts("wn1 wn2", NAME)
    nodes, rails = M["nodes"], M["rails"]
    return [z3.ForAll([n1], z3.Implies(z3.Select(nodes.dom, n1), z3.And(M["CNAME"](z3.Select(nodes.val, n1)) == n1, z3.Select(nodes.val, n1) >= 0))),
            z3.ForAll([n1], z3.Select(nodes.dom, n1) == z3.Select(rails.dom, n1)),
            z3.ForAll([n1], z3.Select(nodes.dom, n1) == z3.Select(M["pconf"].dom, n1)),
            z3.ForAll([n1, n2], z3.Implies(z3.And(z3.Select(rails.dom, n1), z3.Select(rails.dom, n2), z3.Select(rails.val, n1) == z3.Select(rails.val, n2), z3.Select(rails.val, n1) != EMPTY), n1 == n2)),
            z3.ForAll([n1, n2], z3.Implies(z3.And(z3.Select(rails.dom, n1), z3.Select(nodes.dom, n2), z3.Select(rails.val, n1) != EMPTY), z3.Select(rails.val, n1) != n2)),
            z3.Not(z3.Select(nodes.dom, EMPTY))]


def obligations(run, src):
    obls = []
    obls += _set_sys_phases(run, src)
    obls += _set_comp_phases(run, src)
    obls += _lookups(run, src)
    return obls


def _ob(oid, p, goal, tags, kind="post"):
    return {"id": oid, "hyps": p.pc, "goal": goal, "kind": kind, "tags": tags, "meta": {}}


def _set_sys_phases(run, src):
    qual = "system.System.set_sys_phases"
    obls = []
    N = z3.Int("n_phases"); HASNA = z3.Bool("has_N/A")
    writes = []
    def mk_phases():
        keys = Opaque("phases.keys", methods={"len": lambda e: SV(N, "int")}, contains=lambda e, item: HASNA if item == "N/A" else z3.Bool("has_" + str(item)))
        DUR = z3.Function("duration_of_phase", I, z3.RealSort())
        vals = Seq(N, lambda j: SV(DUR(j), "real"), "phases.values()")
        return Opaque("phases_arg", methods={"keys": lambda e: keys, "values": lambda e: vals, "len": lambda e: SV(N, "int"),
                                             "eq": lambda e, other: (N == 0) if other == {} else False}, truth=lambda e: N > 0)
    eng = Engine(src)
    eng.extra_globals["list"] = Builtin("list", lambda e, x=(): x if isinstance(x, Opaque) else list(e.iterate(x)))
    def thunk(e):
        e.assume(N >= 0); e.assume(z3.Implies(HASNA, N >= 1))
        del writes[:]
        M = _mk(src, writes)
        ph = mk_phases()
        e.path_extra["phases_arg"] = ph; e.path_extra["M"] = M
        e.call_method(M["selfobj"], "set_sys_phases", [ph])
        return list(writes)
    try:
        paths = eng.explore(thunk)
    except (Unsupported, FunctionMissing) as u:
        run.undecide(qual + "/post", str(u)); return obls
    run.functions.update(eng.inlined)
    bad = z3.Or(N == 1, HASNA)
    for pi, p in enumerate(paths):
        if p.kind == "raise":
            obls.append(_ob(qual + "/raises ValueError only for exactly one phase or a phase named N/A@p%d" % pi, p, z3.And(z3.BoolVal(p.value.etype == "ValueError" and not p.value.implicit), bad), ["C15", "C06"]))
            obls.append(_ob(qual + "/frame:nothing written before the exception@p%d" % pi, p, z3.BoolVal(len(p.writes) == 0 and not writes_of(p)), ["C15"]))
        else:
            w = p.value
            ok = len(w) == 1 and w[0][0] == "attrs" and w[0][2] == "phases" and w[0][3] is p.extra["phases_arg"]
            obls.append(_ob(qual + "/post:accepted => phases stored verbatim, nothing else written@p%d" % pi, p, z3.And(z3.Not(bad), z3.BoolVal(bool(ok))), ["C15", "C06", "C16"]))
            obls.append(_ob(qual + "/canary@p%d" % pi, p, bad, ["C15"], kind="canary"))
    return obls


def writes_of(p):
    return [w for w in (p.extra.get("writes") or [])]


def _set_comp_phases(run, src):
    qual = "system.System.set_comp_phases"
    obls = []
    name = z3.Const("name_arg", NAME); IDX = z3.Function("get_index", NAME, I)
    for label, conf in (("dict", {"a": 1.0}), ("list", ["a"]), ("str", "bad"), ("int", 3)):
        writes = []
        eng = Engine(src)
        eng.overrides["system.System._get_index"] = lambda e, recv, a, k: SV(IDX(to_z(a[0])), "int")
        def thunk(e, conf=conf, writes=writes):
            del writes[:]
            M = _mk(src, writes)
            e.path_extra["M"] = M
            e.call_method(M["selfobj"], "set_comp_phases", [SV(name, "name"), conf])
            return list(writes)
        try:
            paths = eng.explore(thunk)
        except (Unsupported, FunctionMissing) as u:
            run.undecide("%s[%s]/post" % (qual, label), str(u)); continue
        run.functions.update(eng.inlined)
        for pi, p in enumerate(paths):
            M = p.extra["M"]; cidx = IDX(name)
            sloss = z3.Or(M["ISA"](cidx, name_const("RLoss")), M["ISA"](cidx, name_const("VLoss")))
            bad = z3.Or(cidx == -1, z3.BoolVal(label not in ("dict", "list")), sloss)
            if p.kind == "raise":
                obls.append(_ob("%s[%s]/raises ValueError only for unknown name, malformed configuration, series-loss component@p%d" % (qual, label, pi), p,
                                z3.And(z3.BoolVal(p.value.etype == "ValueError" and not p.value.implicit), bad), ["C15", "C06"]))
                obls.append(_ob("%s[%s]/frame:nothing written before the exception@p%d" % (qual, label, pi), p, z3.BoolVal(len(p.writes) == 0), ["C15"]))
            else:
                w = p.value
                ok1 = len(w) == 1 and w[0][0] == "phase_conf" and w[0][1] == "store" and w[0][3] is conf
                goal = z3.And(z3.Not(bad), z3.BoolVal(bool(ok1)), (w[0][2] == M["CNAME"](cidx)) if ok1 else z3.BoolVal(False))
                obls.append(_ob("%s[%s]/post:configuration stored verbatim under the resolved component's own name, nothing else written@p%d" % (qual, label, pi), p, goal, ["C15", "C06", "C16"]))
                obls.append(_ob("%s[%s]/canary@p%d" % (qual, label, pi), p, z3.BoolVal(False), ["C15"], kind="canary"))
    return obls


def _lookups(run, src):
    obls = []
    name = z3.Const("name_arg", NAME); rail = z3.Const("rail_arg", NAME)
    x = z3.Const("xk", NAME)
    def run_fn(fn, args, tag):
        writes = []
        eng = Engine(src)
        def thunk(e):
            del writes[:]
            M = _mk(src, writes)
            for a in wf_registry(M): e.assume(a)
            e.path_extra["M"] = M
            r = e.call_method(M["selfobj"], fn, args)
            e.path_extra["nwrites"] = len(writes)
            return r
        # filtered comprehension over the rails registry: [i for i in rails if rails[i] == name] -> a key owning that rail
        orig = eng._comp
        def comp(xnode, kind, eng=eng, orig=orig):
            g = xnode.generators[0]
            it = eng.ev(g.iter)
            if isinstance(it, Opaque) and it.tag.startswith("reg:") and len(g.ifs) == 1:
                reg = it
                k = eng.fresh("owner", "name")
                fr = eng.frames[-1]
                saved = fr.locals.get(g.target.id, None)
                fr.locals[g.target.id] = k
                M = eng.path_extra["M"]
                R = M[reg.tag.split(":")[1]]
                npc = len(eng.pc)
                eng.assume(z3.Select(R.dom, k.z))          # the filter is only evaluated on keys of the dict
                cond = eng.truth(eng.ev(g.ifs[0]))
                del eng.pc[npc:]                            # ... which is not an assumption about the state
                if saved is None: fr.locals.pop(g.target.id, None)
                else: fr.locals[g.target.id] = saved
                exists = z3.Exists([x], z3.And(z3.Select(R.dom, x), z3.substitute(cond, (k.z, x))))
                if eng.decide(exists):
                    eng.assume(z3.And(z3.Select(R.dom, k.z), cond))
                    return [k]
                return []
            return orig(xnode, kind)
        eng._comp = comp
        try:
            paths = eng.explore(thunk)
        except (Unsupported, FunctionMissing) as u:
            run.undecide("system.System.%s/post" % fn, str(u)); return None, None
        run.functions.update(eng.inlined)
        return paths, eng
    # ---- _get_index
    paths, eng = run_fn("_get_index", [SV(name, "name")], "C15")
    if paths:
        for pi, p in enumerate(paths):
            M = p.extra["M"]; nodes, rails = M["nodes"], M["rails"]
            owner = z3.Exists([x], z3.And(z3.Select(rails.dom, x), z3.Select(rails.val, x) == name))
            if p.kind != "return":
                obls.append(_ob("system.System._get_index/never-raises@p%d" % pi, p, z3.BoolVal(False), ["C15", "C14", "C16"])); continue
            r = to_z(p.value)
            spec = z3.If(z3.Select(nodes.dom, name), r == z3.Select(nodes.val, name),
                         z3.If(z3.And(name != EMPTY, owner), z3.Exists([x], z3.And(z3.Select(rails.dom, x), z3.Select(rails.val, x) == name, r == z3.Select(nodes.val, x))), r == -1))
            obls.append(_ob("system.System._get_index/post:index of the component of that name, else of the owner of that non-empty rail, else -1@p%d" % pi, p, spec, ["C15", "C14", "C16", "C06"]))
            obls.append(_ob("system.System._get_index/frame:read-only@p%d" % pi, p, z3.BoolVal(p.extra.get("nwrites") == 0), ["C15", "C17"]))
            obls.append(_ob("system.System._get_index/canary@p%d" % pi, p, r == -1, ["C15"], kind="canary"))
    # ---- _chk_parent / _chk_comp
    for fn, cond_of in (("_chk_parent", lambda M: z3.Or(z3.Select(M["nodes"].dom, name), z3.And(name != EMPTY, z3.Exists([x], z3.And(z3.Select(M["rails"].dom, x), z3.Select(M["rails"].val, x) == name))))),
                        ("_chk_comp", lambda M: z3.Select(M["nodes"].dom, name))):
        paths, eng = run_fn(fn, [SV(name, "name")], "C15")
        if not paths: continue
        for pi, p in enumerate(paths):
            known = cond_of(p.extra["M"])
            if p.kind == "raise":
                obls.append(_ob("system.System.%s/raises ValueError exactly for an unknown name@p%d" % (fn, pi), p, z3.And(z3.BoolVal(p.value.etype == "ValueError" and not p.value.implicit), z3.Not(known)), ["C15", "C14"]))
            else:
                obls.append(_ob("system.System.%s/post:True for a known name@p%d" % (fn, pi), p, z3.And(known, z3.BoolVal(p.value is True)), ["C15", "C14"]))
            obls.append(_ob("system.System.%s/frame:read-only@p%d" % (fn, pi), p, z3.BoolVal(len(p.writes) == 0), ["C15"]))
    # ---- _chk_name(name, rail)
    paths, eng = run_fn("_chk_name", [SV(name, "name"), SV(rail, "name")], "C15")
    if paths:
        for pi, p in enumerate(paths):
            M = p.extra["M"]; nodes, rails = M["nodes"], M["rails"]
            used = lambda t: z3.Or(z3.Select(nodes.dom, t), z3.Exists([x], z3.And(z3.Select(rails.dom, x), z3.Select(rails.val, x) == t)))
            bad = z3.Or(used(name), z3.And(rail != EMPTY, z3.Or(name == rail, used(rail))))
            if p.kind == "raise":
                obls.append(_ob("system.System._chk_name/raises ValueError exactly for a colliding name or rail@p%d" % pi, p, z3.And(z3.BoolVal(p.value.etype == "ValueError" and not p.value.implicit), bad), ["C15", "C14"]))
            else:
                obls.append(_ob("system.System._chk_name/post:accepts only fresh names and rails@p%d" % pi, p, z3.And(z3.Not(bad), z3.BoolVal(p.value is True)), ["C15", "C14"]))
                obls.append(_ob("system.System._chk_name/canary@p%d" % pi, p, bad, ["C14"], kind="canary"))
            obls.append(_ob("system.System._chk_name/frame:read-only@p%d" % pi, p, z3.BoolVal(len(p.writes) == 0), ["C15"]))
    run.assumed.add("registry dicts behave as finite maps (python dict); WF(S) of the registries is the precondition of the lookups (established by the edit operations: bounded C14 oracle)")
    return obls
