"""Contract of System.batt_life (C17-P2 restoration on every exit, C18-P1 loop body, C18-P2 non-source rejected), layer P.

The real body is executed symbolically: the battery model callbacks and _solve are abstract and may RAISE at every call
(engine-level choice), the while-loop goes through the loop rule (side-car invariant: 0 <= phidx < len(phase_list),
cap[0] is the probed capacity).  The progress bar is dropped by extraction."""
import z3
from pyvc import *
from pyvc.engine import LoopSpec, Builtin
from pyvc import solver

I, Rl, Bo = z3.IntSort(), z3.RealSort(), z3.BoolSort()


def _explore(src, with_phases):
    qual = "system.System.batt_life"
    PIDX = z3.Int("battery_index"); ISSRC = z3.Bool("battery_is_source"); KNOWN = z3.Bool("battery_name_known")
    vo_org, rs_org = z3.Reals("vo_org rs_org"); cutoff = z3.Real("cutoff")
    NPH = z3.Int("n_phases"); PHN = z3.Function("phase_name", I, NAME); DUR = z3.Function("dur", NAME, Rl)
    B0 = [z3.Real("probe_%s" % x) for x in ("cap", "volt", "rs")]
    eng = Engine(src)
    holder = {}
    def may_raise(e, what):
        c = e.choose(3)
        if c:
            e.event("callback-raised", what=what)
            raise PyRaise("CallbackError" if c == 1 else "KeyboardInterrupt", what)      # an Exception subclass / a BaseException
    def pfunc(e):
        e.event("pfunc", params=dict(holder["params"]))
        may_raise(e, "pfunc")
        if e.choose(2) == 1:
            e.event("malformed-probe")
            return tuple(SV(t, "real") for t in B0[:2])          # a battery model that answers with an incomplete state (no impedance): batt_life fails on it
        return tuple(SV(t, "real") for t in B0)
    def dfunc(e, dt, cur):
        e.event("dfunc", dt=dt, cur=cur, params=dict(holder["params"]), env=dict(e.frames[-1].locals))
        may_raise(e, "dfunc")
        return (e.fresh("d_cap", "real"), e.fresh("d_volt", "real"), e.fresh("d_rs", "real"))
    def solve_o(e, recv, args, kw):
        ISOL = e.fresh("i_battery", "real")
        ivec = HMap(lambda idx, ISOL=ISOL: ISOL if True else None, label="i")
        e.event("_solve", args=list(args), kw=dict(kw), params=dict(holder["params"]), env=dict(e.frames[-1].locals), i=ISOL, ivec=ivec)
        may_raise(e, "_solve")
        return (None, ivec, None, None)
    eng.overrides["system.System._solve"] = solve_o
    eng.overrides["system.System._chk_parent"] = lambda e, r, a, k: (True if e.decide(KNOWN) else (_ for _ in ()).throw(PyRaise("ValueError", "unknown parent")))
    eng.overrides["system.System._get_index"] = lambda e, r, a, k: SV(PIDX, "int")
    eng.overrides["system.System._rel_update"] = lambda e, r, a, k: None
    pbar = Opaque("pbar", methods={"update": lambda e, *a: None, "close": lambda e: None})
    eng.extra_globals["tqdm"] = Builtin("tqdm", lambda e, *a, **k: pbar)
    eng.extra_globals["range"] = Builtin("range", lambda e, *a: Opaque("range"))
    def int_(e, x=0):
        # the battery model's answers are arbitrary floats: int() of a non-finite one raises (the restoration must survive that too)
        if is_sym(x) and x.sort != "int":
            if e.choose(2) == 1:
                e.event("int-of-non-finite")
                raise PyRaise("ValueError", "cannot convert float NaN to integer", None, implicit=True)
            return e.fresh("int_of", "int")
        return x if is_sym(x) else int(x)
    eng.extra_globals["int"] = Builtin("int", int_)
    eng.extra_globals["pd"] = Opaque("pd", methods={"DataFrame": lambda e, res: Opaque("DataFrame", attrs={"res": res})})
    keys = Seq(NPH, lambda j: SV(PHN(j), "name"), "phases.keys()") if with_phases else []
    phases = Opaque("phases", methods={"keys": lambda e: keys}, getitem=lambda e, k: SV(DUR(to_z(k)), "real"))
    def comp(c):
        return Opaque("comp", attrs={"_params": holder["params"]}, methods={"isinstance": lambda e, cls: ISSRC if cls == "Source" else z3.BoolVal(False)})
    g = HMap(comp, label="self._g"); g.attrs = {"attrs": HMap(lambda key: {"phases": phases}[key], label="self._g.attrs")}
    selfobj = Opaque("self", cls="System", attrs={"_g": g})
    def fresh_list(name):
        def h(e, old):
            first = old[0] if isinstance(old, list) and old else (old.first if isinstance(old, AccList) else None)
            return AccList(name, last=e.fresh(name + "_last", "real"), first=first)
        return h
    hv = {"bstate": lambda e, old: (e.fresh("cap", "real"), e.fresh("volt", "real"), e.fresh("rs", "real")),
          "t": fresh_list("t"), "cap": fresh_list("cap"), "volt": fresh_list("volt"), "rs": fresh_list("rs")}
    def inv(env, k):
        ph = to_z(env["phidx"])
        pl = env["phase_list"]
        n = pl.ln if isinstance(pl, Seq) else z3.IntVal(len(pl))
        c = [ph >= 0, ph < n]
        cp = env["cap"]
        first = cp[0] if isinstance(cp, list) else cp.first
        c.append(to_z(first, "real") == B0[0])
        return z3.And(*c)
    eng.loop_specs[(qual, "While", 0)] = LoopSpec(qual + "/while", inv=inv, havoc=hv)
    def thunk(e):
        holder["params"] = {"vo": SV(vo_org, "real"), "rs": SV(rs_org, "real"), "name": "B"}
        if with_phases:
            e.assume(NPH >= 2)
            jj = z3.Int("jj"); e.assume(z3.ForAll([jj], PHN(jj) != name_const("")))
        e.path_extra["params"] = holder["params"]
        r = e.call_method(selfobj, "batt_life", ["BATT"], {"cutoff": SV(cutoff, "real"), "pfunc": Builtin("pfunc", pfunc), "dfunc": Builtin("dfunc", dfunc)})
        return r
    paths = eng.explore(thunk)
    ctx = dict(PIDX=PIDX, ISSRC=ISSRC, KNOWN=KNOWN, vo_org=vo_org, rs_org=rs_org, cutoff=cutoff, NPH=NPH, PHN=PHN, DUR=DUR, B0=B0, eng=eng, qual=qual)
    return paths, ctx


def obligations(run, src):
    obls = []
    for with_phases in (False, True):
        lab = "[phases]" if with_phases else "[no phases]"
        try:
            paths, C = _explore(src, with_phases)
        except (Unsupported, FunctionMissing) as u:
            run.undecide("system.System.batt_life%s" % lab, str(u)); continue
        eng, qual = C["eng"], C["qual"]
        run.functions.update(eng.inlined)
        obls += [dict(o, id=o["id"] + lab, tags=["C18"]) for o in eng.obligations]
        def ob(cid, p, pi, goal, tags, kind="post"):
            obls.append({"id": "%s%s/%s@p%d" % (qual, lab, cid, pi), "hyps": p.pc, "goal": goal, "kind": kind, "tags": tags, "meta": {}})
        for pi, p in enumerate(paths):
            params = p.extra.get("params", {})
            evs = p.events
            names = [e_[0] for e_ in evs]
            # ---- C17-P2: on EVERY exit the battery's vo / rs are the entry values
            if p.kind in ("return", "raise"):
                restored = z3.And(to_z(params.get("vo"), "real") == C["vo_org"], to_z(params.get("rs"), "real") == C["rs_org"]) if ("vo" in params and "rs" in params) else z3.BoolVal(False)
                how = "normal return" if p.kind == "return" else "exception %s%s" % (p.value.etype, " (implicit)" if getattr(p.value, "implicit", False) else "")
                ob("restore:battery vo/rs == entry values on %s" % how, p, pi, restored, ["C17", "C18"])
            if p.kind == "raise" and p.value.etype == "ValueError" and "pfunc" not in names:
                ob("raises ValueError exactly for a name that is unknown or not a Source, before the battery is probed", p, pi, z3.Or(z3.Not(C["KNOWN"]), z3.Not(C["ISSRC"])), ["C18"])
            if "pfunc" in names:
                ob("battery probed only for a known Source", p, pi, z3.And(C["KNOWN"], C["ISSRC"]), ["C18"])
                ob("battery probed exactly once", p, pi, z3.BoolVal(names.count("pfunc") == 1), ["C18"])
            # ---- loop-body obligations from the events of the arbitrary iteration
            sol = [e_[1] for e_ in evs if e_[0] == "_solve"]; dfs = [e_[1] for e_ in evs if e_[0] == "dfunc"]
            for s_ in sol:
                env = s_["env"]; bst = env.get("bstate")
                ok = isinstance(bst, tuple) and len(bst) == 3
                ob("_solve sees the battery at its present voltage and impedance", p, pi,
                   z3.And(to_z(s_["params"]["vo"], "real") == to_z(bst[1], "real"), to_z(s_["params"]["rs"], "real") == to_z(bst[2], "real")) if ok else z3.BoolVal(False), ["C18"])
                pl, ph = env.get("phase_list"), env.get("phidx")
                pharg = s_["kw"].get("phase", s_["args"][4] if len(s_["args"]) > 4 else None)
                want = (pl.elem(to_z(ph)) if isinstance(pl, Seq) else (pl[0] if isinstance(pl, list) and len(pl) == 1 else None))
                g = eng.equal(pharg, want) if (pharg is not None and want is not None) else False
                ob("_solve called for the phase the cycle is at", p, pi, z3.BoolVal(g) if isinstance(g, bool) else g, ["C18"])
                # 'steady-state current': the solver runs with its own default tolerances and iteration budget (batt_life does not look at the iteration count)
                import ast as _ast
                _, fnode = src.method("System", "_solve")
                names_ = [a_.arg for a_ in fnode.args.args[1:]]; dfl = dict(zip(names_[len(names_) - len(fnode.args.defaults):], fnode.args.defaults))
                given = dict(zip(names_, s_["args"])); given.update(s_["kw"])
                okd = True
                for k_, v_ in given.items():
                    if k_ in ("phase", "quiet"): continue
                    try: okd = okd and (k_ in dfl) and (not is_sym(v_)) and v_ == _ast.literal_eval(dfl[k_])
                    except Exception: okd = False
                ob("_solve runs with the solver's default tolerances and iteration budget", p, pi, z3.BoolVal(bool(okd)), ["C18"])
            for d_ in dfs:
                env = d_["env"]
                last = sol[-1] if sol else None
                if last is None:
                    ob("depletion call is preceded by a solve", p, pi, z3.BoolVal(False), ["C18"]); continue
                ob("depletion call receives the battery's solved output current", p, pi, to_z(d_["cur"], "real") == to_z(last["i"], "real"), ["C18"])
                pl, ph = last["env"].get("phase_list"), last["env"].get("phidx")
                if isinstance(pl, Seq):
                    want_dt = C["DUR"](to_z(pl.elem(to_z(ph))))
                else:
                    cp = last["env"].get("cap")
                    cap0 = cp[0] if isinstance(cp, list) else cp.first
                    want_dt = to_z(cap0, "real") / to_z(last["i"], "real") * z3.RealVal("3.6")
                ob("depletion call receives the duration of the current phase (no phases: time to draw 1/1000 of the initial capacity)", p, pi, to_z(d_["dt"], "real") == want_dt, ["C18"])
            if p.kind == "end" and sol and dfs and not any(e_[0] == "callback-raised" for e_ in evs):
                pass
            ob("canary", p, pi, z3.BoolVal(False), ["C17", "C18"], kind="canary")
        # ---- iteration tail: phidx advances cyclically, state appended iff alive, time strictly increasing.  These are checked
        #      on the 'end' paths of the arbitrary iteration through a second instrumented run (env at the end of the body).
        obls += _tail(run, src, with_phases, lab)
    run.assumed.add("callbacks passed to batt_life do not touch the system; they may raise at any call")
    run.notes.append("batt_life: divisor i[battery] != 0 without phases requires a loaded battery (input assumption of C18: the capacity eventually runs out)")
    return obls


def _tail(run, src, with_phases, lab):
    """end-of-iteration state of the loop body"""
    obls = []
    import ast
    qual = "system.System.batt_life"
    try:
        _, fn = src.method("System", "batt_life")
        loop = next(n for n in ast.walk(fn) if isinstance(n, ast.While))
    except (FunctionMissing, StopIteration) as m:
        run.undecide(qual + lab + "/iteration-tail", str(m)); return obls
    eng = Engine(src)
    cutoff = z3.Real("cutoff"); NPH = z3.Int("n_phases"); PHN = z3.Function("phase_name", I, NAME); DUR = z3.Function("dur", NAME, Rl)
    bst = [z3.Real("b_%s" % x) for x in ("cap", "volt", "rs")]; nb = [z3.Real("n_%s" % x) for x in ("cap", "volt", "rs")]
    phidx = z3.Int("phidx0"); ISOL = z3.Real("i_batt"); tlast, caplast = z3.Real("t_last"), z3.Real("cap_last"); cap0 = z3.Real("cap0")
    params = {}
    eng.overrides["system.System._solve"] = lambda e, r, a, k: (None, HMap(lambda idx: SV(ISOL, "real")), None, None)
    pbar = Opaque("pbar", methods={"update": lambda e, *a: None, "close": lambda e: None})
    keys = Seq(NPH, lambda j: SV(PHN(j), "name")) if with_phases else [""]
    phases = Opaque("phases", getitem=lambda e, k: SV(DUR(to_z(k)), "real"))
    g = HMap(lambda c: Opaque("comp", attrs={"_params": params})); g.attrs = {"attrs": HMap(lambda key: {"phases": phases}[key])}
    def thunk(e):
        params.clear(); params.update({"vo": SV(z3.Real("pv"), "real"), "rs": SV(z3.Real("pr"), "real")})
        n = NPH if with_phases else z3.IntVal(1)
        e.assume(z3.And(phidx >= 0, phidx < n))
        if with_phases:
            e.assume(NPH >= 2); jj = z3.Int("jj"); e.assume(z3.ForAll([jj], z3.And(PHN(jj) != name_const(""), DUR(PHN(jj)) > 0)))
        else:
            e.assume(z3.And(ISOL > 0, cap0 > 0))
        env = {"self": Opaque("self", cls="System", attrs={"_g": g}), "bstate": tuple(SV(t, "real") for t in bst), "pidx": SV(z3.Int("pidx"), "int"), "phase_list": keys,
               "phidx": SV(phidx, "int"), "cutoff": SV(cutoff, "real"), "mult": 1.0, "cdelta": SV(z3.Real("cdelta"), "real"), "pbar": pbar,
               "dfunc": Builtin("dfunc", lambda e_, dt, cur: tuple(SV(t, "real") for t in nb)),
               "t": AccList("t", last=SV(tlast, "real")), "cap": AccList("cap", last=SV(caplast, "real"), first=SV(cap0, "real")), "volt": AccList("volt", last=SV(z3.Real("v_last"), "real")), "rs": AccList("rs", last=SV(z3.Real("r_last"), "real"))}
        e.run_block("system", "System", loop.body, env, fn)
        return env
    try:
        paths = eng.explore(thunk)
    except (Unsupported, FunctionMissing) as u:
        run.undecide(qual + lab + "/iteration-tail", str(u)); return obls
    alive = z3.And(nb[0] > 0, nb[1] > cutoff)
    n = NPH if with_phases else z3.IntVal(1)
    for pi, p in enumerate(paths):
        def ob(cid, goal, kind="post"):
            obls.append({"id": "%s%s/iteration:%s@p%d" % (qual, lab, cid, pi), "hyps": p.pc, "goal": goal, "kind": kind, "tags": ["C18"], "meta": {}})
        if p.kind != "return":
            ob("body does not raise by itself", z3.BoolVal(False)); continue
        env = p.value
        ob("phase index advances cyclically", to_z(env["phidx"]) == (phidx + 1) % n)
        ob("next battery state is what the depletion callback returned", z3.And(*[to_z(env["bstate"][j], "real") == nb[j] for j in range(3)]) if isinstance(env["bstate"], tuple) else z3.BoolVal(False))
        t_items, c_items = env["t"].items, env["cap"].items
        app = len(t_items) == 1 and len(c_items) == 1 and len(env["volt"].items) == 1 and len(env["rs"].items) == 1
        none = not t_items and not c_items and not env["volt"].items and not env["rs"].items
        ob("state appended iff capacity > 0 and voltage > cutoff", z3.If(alive, z3.BoolVal(app), z3.BoolVal(none)))
        if app:
            ob("appended row = (previous time + step, new capacity, voltage, impedance)", z3.And(to_z(c_items[0], "real") == nb[0], to_z(env["volt"].items[0], "real") == nb[1], to_z(env["rs"].items[0], "real") == nb[2]))
            dt = DUR(PHN(phidx)) if with_phases else cap0 / ISOL * z3.RealVal("3.6")
            ob("time advances by the step duration, strictly increasing", z3.And(to_z(t_items[0], "real") == tlast + dt, to_z(t_items[0], "real") > tlast))
        ob("canary", to_z(env["phidx"]) == phidx, kind="canary")
    return obls
