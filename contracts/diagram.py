"""Contracts for the pure helpers of sysloss/diagram.py (C19): `_nice_float` (SI-prefixed label, >= 3 significant digits),
`_gcolor` (clamped linear cold->warm mix: zero fully cold, largest fully warm, ordered as the mix) and the nested
`_diag.add_node` (default -> component-kind -> component-name precedence, caller's configuration not written).

Everything that touches pydot / Graphviz / matplotlib / pandas is an assumed contract here (listed in `ASSUMED`) and is
decided bounded by `bounded/diagrams.py`; the obligations below are about the real bodies, re-read from the source on every run.
"""
import ast, z3, math
from pyvc import *
from pyvc import solver
from pyvc.values import NVec, Opaque, SV, to_z, is_sym, Builtin

ASSUMED = [
    "'{:e}'.format(f) yields '<mantissa>e<E>' with 1 <= |mantissa| < 10 after rounding to 6 decimals, E = decimal exponent of f (E = 0 for f = 0)",
    "round(x, n) keeps n >= 0 decimals of x; '{}'.format(float) prints the shortest repr of that float; '{:.2e}' prints 3 significant digits",
    "matplotlib.colors.to_rgb is a function of the colour name with channels in [0,1]; to_hex is injective on [0,1]^3 up to 1/255 quantisation",
    "numpy arrays of equal length: + - * act element-wise, python scalars broadcast",
    "copy.deepcopy returns a structure sharing no mutable object with its argument",
    "pydot.Node(name, **attrs) / Graph.add_node record exactly the attributes they are given (checked bounded through Graphviz' JSON output)",
]

PREFIX = {"p": -12, "n": -9, "u": -6, "m": -3, "": 0, "k": 3, "M": 6}


def _fmt_model(holder):
    """structured stand-in for str.format on the three templates of _nice_float ('{:e}', '{:.2e}', '{}<prefix>')"""
    def fmt(e, template, a, k):
        if template == "{:e}" and len(a) == 1:
            f = a[0]
            pwr = holder["pwr"]
            expo = Opaque("fmt-exponent", methods={"__int__": lambda e_: pwr})
            return Opaque("fmt-e", methods={"split": lambda e_, sep, _x=expo: ["<mantissa>", _x] if sep == "e" else (_ for _ in ()).throw(TypeError("split"))})
        return Opaque("fmt", attrs={"template": template, "args": list(a)})
    return fmt


def _round(e, x, nd=None):
    return Opaque("rounded", attrs={"x": x, "nd": nd})


def _pow10(k):
    return z3.RealVal(10) ** k if k >= 0 else 1 / (z3.RealVal(10) ** (-k))


def nice_float(run, src):
    obls = []
    base = "diagram._nice_float"
    f = z3.Real("nf.f")
    pwr = z3.Int("nf.pwr")
    holder = {"pwr": SV(pwr, "int")}
    def thunk(e):
        e.fmt_model = _fmt_model(holder)
        e.extra_globals["round"] = Builtin("round", _round)
        return e.call_function(base, [SV(f, "real")])
    eng = Engine(src)
    try:
        paths = eng.explore(thunk)
    except (Unsupported, FunctionMissing) as u:
        run.undecide(base + "/label", str(u)); return obls
    run.functions.update(eng.inlined)
    if not any(any(v.eq(pwr) for v in _consts(c)) for p in paths for c in p.pc):
        run.undecide(base + "/label", "the exponent of '{:e}'.format(f) is not used by any branch"); return obls
    # assumed link between f and its decimal exponent, as a finite table over the range the branches distinguish
    af = z3.If(f >= 0, f, -f)
    link = [z3.Implies(pwr == k, z3.And(af >= _pow10(k) * (1 - z3.RealVal("1/2000000")), af < _pow10(k + 1))) for k in range(-16, 11)]
    link.append(z3.Implies(f == 0, pwr == 0))
    def replay(model, zm):
        import sysloss.diagram as D
        try: val = float(solver.frac(zm.eval(f, model_completion=True)))
        except Exception: return None
        pw = zm.eval(pwr, model_completion=True).as_long()
        val = math.copysign(1.234567 * 10.0 ** pw, val if val != 0 else 1.0)
        try:
            s = D._nice_float(val)
        except Exception as ex:
            return {"confirmed": True, "call": "sysloss.diagram._nice_float(%r)" % val, "observed": {"raised": type(ex).__name__}}
        ok = isinstance(s, str) and _shown_ok(s, val)
        return {"confirmed": not ok, "call": "sysloss.diagram._nice_float(%r)" % val, "observed": s, "required": "SI-prefixed value equal to the argument to >= 3 significant digits"}
    dom = [pwr >= -40, pwr <= 40]
    for pi, p in enumerate(paths):
        hy = p.pc + dom
        if p.kind != "return":
            obls.append({"id": "%s/never-raises@p%d" % (base, pi), "hyps": hy, "goal": z3.BoolVal(False), "meta": {"replay": replay}}); continue
        v = p.value
        if v is None:
            obls.append({"id": "%s/returns-a-label@p%d" % (base, pi), "hyps": hy, "goal": z3.BoolVal(False), "meta": {"replay": replay}}); continue
        if not (isinstance(v, Opaque) and v.tag == "fmt"):
            run.undecide("%s/label@p%d" % (base, pi), "return value %r is outside the format model" % (v,)); continue
        t, args = v.attrs["template"], v.attrs["args"]
        obls.append({"id": "%s/returns-a-label@p%d" % (base, pi), "hyps": hy, "goal": z3.BoolVal(True), "meta": {}})
        if t == "{:.2e}":
            ok = len(args) == 1 and is_sym(args[0])
            obls.append({"id": "%s/scientific-shows-the-value@p%d" % (base, pi), "hyps": hy, "goal": (to_z(args[0], "real") == f) if ok else z3.BoolVal(False), "meta": {"replay": replay}})
            continue
        if not (t.startswith("{}") and t[2:] in PREFIX and len(args) == 1 and isinstance(args[0], Opaque) and args[0].tag == "rounded"):
            run.undecide("%s/label@p%d" % (base, pi), "template %r is outside the format model" % (t,)); continue
        es = PREFIX[t[2:]]
        x, nd = args[0].attrs["x"], args[0].attrs["nd"]
        if nd is None: nd = 0
        zx, znd = to_z(x, "real"), to_z(nd)
        # the number shown times the prefix is the argument
        obls.append({"id": "%s/prefix-scales-the-value[%s]@p%d" % (base, t[2:] or "-", pi), "hyps": hy, "goal": zx * _pow10(es) == f, "meta": {"replay": replay}})
        # digits kept: (exponent of the scaled value + 1) before the point + nd after it
        obls.append({"id": "%s/three-significant-digits[%s]@p%d" % (base, t[2:] or "-", pi), "hyps": hy, "goal": z3.And(znd >= 0, (pwr - es) + 1 + znd >= 3), "meta": {"replay": replay}})
        obls.append({"id": "%s/canary[%s]" % (base, t[2:] or "-"), "kind": "canary", "hyps": hy, "goal": (pwr - es) + 1 + znd >= 4})
    # totality over the decimal exponent: some path returns a label for every exponent (no fall-through)
    obls.append({"id": base + "/covers-every-exponent", "hyps": dom + link, "goal": z3.Or(*[z3.And(*p.pc) if p.pc else z3.BoolVal(True) for p in paths if p.kind == "return" and p.value is not None]), "meta": {"replay": replay}})
    return obls


def _consts(t):
    out, todo, seen = [], [t], set()
    while todo:
        x = todo.pop()
        if x.get_id() in seen: continue
        seen.add(x.get_id())
        if z3.is_const(x) and x.decl().kind() == z3.Z3_OP_UNINTERPRETED: out.append(x)
        todo.extend(x.children())
    return out


def _shown_ok(s, val):
    """does the label denote val to >= 3 significant digits?"""
    try:
        if s and s[-1] in "pnumkM":
            shown = float(s[:-1]) * 10.0 ** PREFIX[s[-1]]
        else:
            shown = float(s)
    except ValueError:
        return False
    if val == 0: return shown == 0
    return abs(shown - val) <= 0.5000001 * 10.0 ** (math.floor(math.log10(abs(val))) - 2)


# ------------------------------------------------------------------------------------------------------------ _gcolor
def _run_gcolor(src, mix, run=None):
    consts = src.modules["diagram"].consts
    cold, warm = consts.get("_COLD_RGB"), consts.get("_WARM_RGB")
    if cold is None or warm is None or cold == warm:
        raise Unsupported("_COLD_RGB / _WARM_RGB are not two distinct literal colours")
    vec = {cold: NVec([SV(z3.Real("cold.%s" % c), "real") for c in "rgb"]), warm: NVec([SV(z3.Real("warm.%s" % c), "real") for c in "rgb"])}
    def to_rgb(e, c):
        if isinstance(c, str) and c in vec: return vec[c]
        raise TypeError("to_rgb of an unmodelled colour")
    def to_hex(e, v):
        if not isinstance(v, NVec) or len(v.items) != 3: raise TypeError("to_hex of a non-vector")
        return Opaque("hex", attrs={"rgb": v})
    def array(e, x, **k):
        return x if isinstance(x, NVec) else NVec(e.iterate(x))
    mpl = Opaque("mpl", attrs={"colors": Opaque("mpl.colors", methods={"to_rgb": to_rgb, "to_hex": to_hex})})
    def thunk(e):
        e.extra_globals["mpl"] = mpl
        e.extra_globals["np"] = Opaque("np", methods={"array": array, "asarray": array})
        return e.call_function("diagram._gcolor", [SV(mix, "real")])
    eng = Engine(src)
    paths = eng.explore(thunk)
    if run is not None: run.functions.update(eng.inlined)
    return paths, vec[cold], vec[warm]


def _gterm(paths, i):
    """channel i of the result as one term over the argument (ite over the path conditions)"""
    rets = [p for p in paths if p.kind == "return" and isinstance(p.value, Opaque) and p.value.tag == "hex"]
    if len(rets) != len(paths) or not rets: raise Unsupported("_gcolor raises or returns something else than to_hex(vector)")
    t = to_z(rets[-1].value.attrs["rgb"].items[i], "real")
    for p in rets[:-1][::-1]:
        t = z3.If(z3.And(*p.pc) if p.pc else z3.BoolVal(True), to_z(p.value.attrs["rgb"].items[i], "real"), t)
    return t


def gcolor(run, src):
    obls = []
    base = "diagram._gcolor"
    a, b = z3.Real("gc.a"), z3.Real("gc.b")
    try:
        pa, cold, warm = _run_gcolor(src, a, run)
        pb, _, _ = _run_gcolor(src, b)
        ta = [_gterm(pa, i) for i in range(3)]; tb = [_gterm(pb, i) for i in range(3)]
    except (Unsupported, FunctionMissing) as u:
        run.undecide(base + "/mix", str(u)); return obls
    c1 = [to_z(x, "real") for x in cold.items]; c2 = [to_z(x, "real") for x in warm.items]
    rng = [z3.And(c >= 0, c <= 1) for c in c1 + c2]
    def replay(model, zm):
        import sysloss.diagram as D, matplotlib as mpl_
        va = float(solver.frac(zm.eval(a, model_completion=True))); vb = float(solver.frac(zm.eval(b, model_completion=True)))
        lo, hi = sorted((va, vb))
        k1 = mpl_.colors.to_rgb(D._COLD_RGB); k2 = mpl_.colors.to_rgb(D._WARM_RGB)
        def exp(m):
            m = min(max(m, 0.0), 1.0)
            return mpl_.colors.to_hex([(1 - m) * x + m * y for x, y in zip(k1, k2)])
        bad = [(m, D._gcolor(m), exp(m)) for m in (lo, hi, 0.0, 1.0, -0.5, 1.5, 0.25, 0.5) if D._gcolor(m) != exp(m)]
        return {"confirmed": bool(bad), "call": "sysloss.diagram._gcolor(m) for m in %r" % ([x[0] for x in bad] or [lo, hi],), "observed": [x[1] for x in bad], "required": [x[2] for x in bad]}
    for i, ch in enumerate("rgb"):
        obls.append({"id": "%s/zero-loss-fully-cold[%s]" % (base, ch), "hyps": rng + [a <= 0], "goal": ta[i] == c1[i], "meta": {"replay": replay}})
        obls.append({"id": "%s/largest-loss-fully-warm[%s]" % (base, ch), "hyps": rng + [a >= 1], "goal": ta[i] == c2[i], "meta": {"replay": replay}})
        obls.append({"id": "%s/linear-mix[%s]" % (base, ch), "hyps": rng + [a >= 0, a <= 1], "goal": ta[i] == (1 - a) * c1[i] + a * c2[i], "meta": {"replay": replay}})
        obls.append({"id": "%s/ordered-as-the-losses[%s]" % (base, ch), "hyps": rng + [a <= b], "goal": (tb[i] - ta[i]) * (c2[i] - c1[i]) >= 0, "meta": {"replay": replay}})
        obls.append({"id": "%s/distinct-losses-distinct-colours[%s]" % (base, ch), "hyps": rng + [0 <= a, a < b, b <= 1, c1[i] != c2[i]], "goal": ta[i] != tb[i], "meta": {"replay": replay}})
        obls.append({"id": "%s/within-the-two-colours[%s]" % (base, ch), "hyps": rng, "goal": z3.And(ta[i] >= z3.If(c1[i] < c2[i], c1[i], c2[i]), ta[i] <= z3.If(c1[i] < c2[i], c2[i], c1[i])), "meta": {"replay": replay}})
    obls.append({"id": base + "/canary", "kind": "canary", "hyps": rng + [a >= 0, a <= 1], "goal": ta[0] == c1[0]})
    return obls


# ------------------------------------------------------------------------------------------------------------ add_node
def _nested(src, outer, inner):
    fn = src.modules["diagram"].functions.get(outer)
    if fn is None: raise FunctionMissing("diagram." + outer)
    for n in ast.walk(fn):
        if isinstance(n, ast.FunctionDef) and n.name == inner and n is not fn:
            return n
    raise FunctionMissing("diagram.%s.<locals>.%s" % (outer, inner))


def add_node(run, src):
    """precedence of the attribute overrides for one attribute key: every presence pattern of the key in
    {default, kind entry, name entry} (the keys of a dict are independent of each other), values symbolic"""
    obls = []
    base = "diagram._diag.add_node"
    try:
        node = _nested(src, "_diag", "add_node")
    except FunctionMissing as u:
        run.undecide(base + "/precedence", str(u)); return obls
    import itertools
    n_ok = 0
    for has_kind, has_name, kind_has, name_has, other in itertools.product((0, 1), repeat=5):
        if (kind_has and not has_kind) or (name_has and not has_name): continue
        tag = "kind%d%d-name%d%d-other%d" % (has_kind, kind_has, has_name, name_has, other)
        d, k, nm, o = [z3.Real("an.%s" % s) for s in ("default", "kind", "name", "other")]
        def mk():
            default = {"attr": SV(d, "real")}
            if other: default["other"] = SV(o, "real")
            attrs = {"default": default}
            if has_kind: attrs["Converter"] = {"attr": SV(k, "real")} if kind_has else {"unrelated": SV(z3.Real("an.u1"), "real")}
            if has_name: attrs["Buck 1"] = {"attr": SV(nm, "real")} if name_has else {"unrelated2": SV(z3.Real("an.u2"), "real")}
            return attrs
        added = []
        def deepcopy(e, x):
            if isinstance(x, dict): return {kk: deepcopy(e, vv) for kk, vv in x.items()}
            if isinstance(x, list): return [deepcopy(e, vv) for vv in x]
            return x
        def Node(e, name, **conf):
            return Opaque("pydot.Node", attrs={"name": name, "conf": dict(conf)})
        gr = Opaque("graph", methods={"add_node": lambda e, n_: added.append(n_)})
        comp = PyObj("Converter", {}, "Buck 1")
        g = Opaque("_g", attrs={"attrs": {"nodes": {"Buck 1": 7}}}, getitem=lambda e, i: comp)
        sysobj = Opaque("sys", attrs={"_g": g})
        eng = Engine(src)
        def thunk(e):
            del added[:]
            attrs = mk()
            e.extra_globals.update({"sys": sysobj, "copy": Opaque("copy", methods={"deepcopy": deepcopy}), "pydot": Opaque("pydot", methods={"Node": Node})})
            e._invoke("diagram", None, node, base, None, [gr, "Buck 1", attrs, None], {})
            return (list(added), attrs, {kk: dict(vv) for kk, vv in mk().items()})
        try:
            paths = eng.explore(thunk)
        except (Unsupported, FunctionMissing) as u:
            run.undecide("%s/precedence[%s]" % (base, tag), str(u)); continue
        run.functions.update(eng.inlined)
        want = nm if name_has else (k if kind_has else d)
        def replay(model, zm, has_kind=has_kind, has_name=has_name, kind_has=kind_has, name_has=name_has, other=other):
            return _replay_add_node(has_kind, has_name, kind_has, name_has, other)
        for pi, p in enumerate(paths):
            oid = "%s/precedence[%s]@p%d" % (base, tag, pi)
            if p.kind != "return" or len(p.value[0]) != 1 or not isinstance(p.value[0][0], Opaque):
                obls.append({"id": oid, "hyps": p.pc, "goal": z3.BoolVal(False), "meta": {"replay": replay}}); continue
            (nd_,), attrs, caller = p.value
            conf = nd_.attrs["conf"]
            good = nd_.attrs["name"] == "Buck 1" and "attr" in conf and is_sym(conf["attr"]) and set(conf) == set(caller["default"]) | ({"unrelated"} if has_kind and not kind_has else set()) | ({"unrelated2"} if has_name and not name_has else set())
            goal = z3.And(to_z(conf["attr"], "real") == want, *([to_z(conf["other"], "real") == o] if other and is_sym(conf.get("other")) else [])) if good else z3.BoolVal(False)
            obls.append({"id": oid, "hyps": p.pc + [d != k, d != nm, k != nm], "goal": goal, "meta": {"replay": replay}})
            # frame: the caller's configuration is not written (deep copy first)
            same = set(attrs) == set(caller) and all(set(attrs[kk]) == set(caller[kk]) and all(is_sym(attrs[kk][x]) and attrs[kk][x].z.eq(caller[kk][x].z) for x in caller[kk]) for kk in caller)
            wr = [w for w in p.writes if any(w.get("obj") is t for t in [attrs] + list(attrs.values()))] if p.writes and isinstance(p.writes[0], dict) else []
            obls.append({"id": "%s/node-configuration-not-written[%s]@p%d" % (base, tag, pi), "hyps": p.pc, "goal": z3.BoolVal(bool(same and not wr)), "meta": {"replay": replay}})
            n_ok += 1
    if n_ok:
        d, k = z3.Real("an.default"), z3.Real("an.kind")
        obls.append({"id": base + "/canary", "kind": "canary", "hyps": [], "goal": d == k})
    return obls


def _replay_add_node(has_kind, has_name, kind_has, name_has, other):
    """concrete twin on the real code: render through pydot (no Graphviz needed) and read the node's attributes back"""
    import sysloss.diagram as D
    from sysloss.system import System
    from sysloss.components import Source as S_, Converter
    s = System("t", S_("V", vo=5.0)); s.add_comp("V", comp=Converter("Buck 1", vo=1.8, eff=0.9))
    conf = D.get_conf()
    conf["node"]["default"]["color"] = "c-default"
    if other: conf["node"]["default"]["peripheries"] = "2"
    if has_kind: conf["node"]["Converter"] = {"color": "c-kind"} if kind_has else {"style": "filled"}
    if has_name: conf["node"]["Buck 1"] = {"color": "c-name"} if name_has else {"fontsize": "9"}
    import copy as _c
    before = _c.deepcopy(conf)
    seen = {}
    real_node = D.pydot.Node
    def spy(name, **kw):
        seen[name] = kw
        return real_node(name, **kw)
    D.pydot.Node = spy
    try:
        try: D._diag(s, fname=None, group=True, config=conf, loss=None)
        except Exception: pass
    finally:
        D.pydot.Node = real_node
    got = seen.get("Buck 1", {}).get("color")
    want = "c-name" if name_has else ("c-kind" if kind_has else "c-default")
    bad = got != want or conf != before or (other and seen.get("Buck 1", {}).get("peripheries") != "2")
    return {"confirmed": bool(bad), "call": "sysloss.diagram._diag(System with Converter 'Buck 1', config=%r)" % (before["node"],), "observed": {"color": got, "config_after": conf["node"]}, "required": {"color": want, "config_after": before["node"]}}


def obligations(run, src):
    obls = []
    for f in (nice_float, gcolor, add_node):
        obls.extend(f(run, src) or [])
    run.trusted.update("assumed (diagram): " + a for a in ASSUMED)
    return obls
