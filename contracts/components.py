"""Side-car contracts for sysloss/components.py (layer P): per-kind class invariants, symbolic receivers, and the
obligations of _solv_outp_volt / _solv_inp_curr / _solv_pwr_loss / _get_state / _get_outp_voltage / _get_inp_current /
PMux._get_pri_inp / _solv_get_warns / _get_warns.  Every obligation is generated from the paths of the REAL method body
(re-read from the source on every run) and the spec functions of contracts/spec.py (taken from the property statements)."""
import z3, math, sys, os
from fractions import Fraction
from pyvc import *
from pyvc import solver
from . import spec as S

ZO = S.Z3Ops()
PHASE = SV(z3.Const("phase", NAME), "name")


def R(name):
    return z3.Real(name)


# ------------------------------------------------------------------------------------------------------- receivers
PARAMS = {   # kind -> (symbolic parameter names, invariant builder)
    "Source": ["vo", "rs", "rt"], "PLoad": ["pwr", "pwrs", "rt"], "ILoad": ["ii", "iis", "rt"], "RLoad": ["rs", "rt"],
    "RLoss": ["rs", "rt"], "VLoss": ["rt"], "Converter": ["vo", "iq", "iis", "rt"], "LinReg": ["vo", "vdrop", "iis", "rt"],
    "PSwitch": ["rs", "iis", "rt"], "PMux": ["rs", "iis", "rt"], "Rectifier:diode": ["rt"], "Rectifier:mosfet": ["rs", "iq", "rt"],
}


class Comp:
    """symbolic instance of one kind: z3 parameter terms, the PyObj handed to the engine, the class invariant"""

    def __init__(self, K, n_inputs=1, rs_list=None, tag="c"):
        self.K, self.n, self.rs_list, self.tag = K, n_inputs, rs_list, tag
        self.cls = K.split(":")[0]
        self.P = {p: R("%s.%s" % (tag, p)) for p in PARAMS[K]}
        self.G = z3.Function("ipr_" + tag, z3.RealSort(), z3.RealSort(), z3.RealSort())
        if K in S.LOADS:
            self.P["loss"] = z3.Bool(tag + ".loss")
        if K.startswith("Rectifier"):
            self.P["type"] = K.split(":")[1]
        if K == "PMux" and rs_list is not None:
            self.P["rs"] = [R("%s.rs%d" % (tag, j)) for j in range(rs_list)]
        self.inv = self._inv()

    def _inv(self):
        P, K = self.P, self.K
        c = []
        for k in ("rs", "rt", "pwr", "pwrs", "ii", "iis", "iq", "vdrop"):
            if k in P and not isinstance(P[k], list):
                c.append(P[k] >= 0)
        if K == "Source": c.append(P["rt"] == 0)
        if K == "RLoad": c.append(P["rs"] > 0)
        if K == "LinReg": c.append(P["vdrop"] < z3.If(P["vo"] >= 0, P["vo"], -P["vo"]))
        return c

    def g_range(self, g):
        if self.K == "Converter":
            return z3.And(g > 0, g <= 1)
        return g >= 0

    def has_ipr(self):
        return self.K in ("VLoss", "Converter", "LinReg", "PSwitch", "PMux", "Rectifier:diode", "Rectifier:mosfet")

    def build(self, e):
        """fresh mutable receiver for one path"""
        params = {"name": "X"}
        for k, v in self.P.items():
            if isinstance(v, list): params[k] = [SV(t, "real") for t in v]
            elif isinstance(v, str): params[k] = v
            elif z3.is_bool(v): params[k] = SV(v, "bool")
            else: params[k] = SV(v, "real")
        if self.K == "VLoss" or self.K == "Rectifier:diode":
            params["vdrop"] = SV(self.G(z3.RealVal(0), z3.RealVal(0)), "real")     # stored value is not read by the laws
        for c in self.inv:
            e.assume(c)
        ipr = None
        if self.has_ipr():
            def interp(en, x, y, _s=self):
                g = _s.G(to_z(x, "real"), to_z(y, "real"))
                en.assume(_s.g_range(g))
                en.event("ipr", x=to_z(x, "real"), y=to_z(y, "real"))
                return SV(g, "real")
            ipr = Opaque("ipr", methods={"_interp": interp})
        limits = dict(e.src.const("components", "LIMITS_DEFAULT"))
        return PyObj(self.cls, {"_params": params, "_ipr": ipr, "_limits": limits}, label="comp")

    # ---- concretisation of a counter-model on the REAL class (replay)
    def concretize(self, zm):
        import sysloss.components as C
        cls = getattr(C, self.cls)
        obj = object.__new__(cls)
        def val(t):
            v = solver.frac(zm.eval(t, model_completion=True))
            return bool(v) if isinstance(v, bool) else float(v)
        params = {"name": "X"}
        for k, v in self.P.items():
            if isinstance(v, list): params[k] = [val(t) for t in v]
            elif isinstance(v, str): params[k] = v
            else: params[k] = val(v)
        G = self.G
        class _ModelInterp:
            """interpolator whose value at each query is the counter-model's ipr(x, y)"""
            def _interp(self_, x, y):
                return val(G(z3.RealVal(repr(float(x))), z3.RealVal(repr(float(y)))))
        if self.K in ("VLoss", "Rectifier:diode"):
            params["vdrop"] = val(G(z3.RealVal(0), z3.RealVal(0)))
        obj._params = params
        obj._limits = C.LIMITS_DEFAULT
        obj._ipr = _ModelInterp() if self.has_ipr() else None
        return obj, params, val


class Args:
    """symbolic electrical arguments of the _solv_* methods"""

    def __init__(self, comp, tag="a"):
        n = comp.n
        self.vi = [R("%s.vi%d" % (tag, j)) for j in range(n)]
        self.off = [z3.Bool("%s.off%d" % (tag, j)) for j in range(n)]
        self.io, self.ii, self.vo, self.ta = R(tag + ".io"), R(tag + ".ii"), R(tag + ".vo"), R(tag + ".ta")
        self.K = comp.K
        self.pc = PhaseConf(tag, "dict" if comp.K in S.LOADS else "list")
        self.inactive = z3.And(self.pc.nonempty, z3.Not(self.pc.contains(PHASE)))

    def assume(self, e):
        e.assume(self.io >= 0)
        for a in self.pc.axioms(PHASE): e.assume(a)
        # C06 domain: the per-phase values of a load are magnitudes of the same kind as its nominal value
        # (a phase resistance of 0 is as unphysical as RLoad(rs=0), which the constructor rejects)
        if self.K == "RLoad": e.assume(z3.Implies(self.pc.contains(PHASE), self.pc.value(PHASE) > 0))
        if self.K == "PLoad": e.assume(z3.Implies(self.pc.contains(PHASE), self.pc.value(PHASE) >= 0))

    def vi_list(self): return [SV(t, "real") for t in self.vi]
    def pstate(self): return {"off": [SV(t, "bool") for t in self.off]}


def sel_terms(a, n):
    """first live input of a mux: (list of 'selected == j' conditions, none-live condition)"""
    live = [z3.And(z3.Not(a.off[j]), a.vi[j] != 0) for j in range(n)]
    sels = [z3.And(live[j], *[z3.Not(live[k]) for k in range(j)]) for j in range(n)]
    return sels, z3.Not(z3.Or(*live)) if n else z3.BoolVal(True)


def variants(K):
    """contract instances per kind: (label, Comp kwargs)"""
    if K == "PMux":
        out = []
        for n in (1, 2, 3, 4):
            out.append(("n%d,rs-scalar" % n, dict(n_inputs=n)))
            out.append(("n%d,rs-list" % n, dict(n_inputs=n, rs_list=n)))
        return out
    return [("", {})]


ALL_K = ["Source", "PLoad", "ILoad", "RLoad", "RLoss", "VLoss", "Converter", "LinReg", "PSwitch", "PMux", "Rectifier:diode", "Rectifier:mosfet"]


class Gen:
    """runs the real methods symbolically and turns paths into obligations"""

    def __init__(self, run, source=None):
        self.run = run
        self.src = source or Source()
        self.obls = []           # (ob dict)
        self.canaries = []

    def explore(self, qual, thunk):
        eng = Engine(self.src)
        try:
            paths = eng.explore(thunk)
        except Unsupported as u:
            return None, eng, "unsupported: %s" % u
        except FunctionMissing as m:
            return None, eng, "function missing: %s" % m
        self.run.functions.update(q for q in eng.inlined)
        return paths, eng, None

    def add(self, oid, path, goal, tags, extra_hyps=(), finding_key=None, replay=None, kind="post", margin_goal=None):
        self.obls.append({"id": oid, "hyps": list(path.pc) + list(extra_hyps) + distinct_names(), "goal": goal, "kind": kind, "tags": tags,
                          "meta": {"finding_key": finding_key, "replay": replay, "margin_goal": margin_goal}})

    def side(self, base, path, tags):
        for k, s in enumerate(path.side):
            if z3.is_true(z3.simplify(s["goal"])): continue
            self.obls.append({"id": "%s/safety:%s@[%s]" % (base, s["what"], s["at"]), "hyps": list(s["hyps"]) + distinct_names(), "goal": s["goal"],
                              "kind": "safety", "tags": tags, "meta": {}})

    # ------------------------------------------------------------------------------------------ _solv_outp_volt
    def outp_volt(self, K):
        for label, kw in variants(K):
            comp = Comp(K, **kw); a = Args(comp)
            qual = "components.%s._solv_outp_volt" % comp.cls
            base = "%s[%s]" % (qual, (K.split(":")[1] + "," if ":" in K else "") + label) if (label or ":" in K) else qual
            def thunk(e, comp=comp, a=a):
                obj = comp.build(e); a.assume(e)
                return e.call_method(obj, "_solv_outp_volt", [a.vi_list(), SV(a.ii, "real"), SV(a.io, "real"), PHASE, a.pc, a.pstate()])
            paths, eng, why = self.explore(qual, thunk)
            if paths is None:
                self.run.undecide(base + "/law", why); continue
            n = comp.n
            sels, none_live = (sel_terms(a, n) if K == "PMux" else ([z3.BoolVal(True)], z3.BoolVal(False)))
            cases = []       # (case hyps, spec dict, g term, vi term, label)
            if K == "PMux":
                for j in range(n):
                    r = comp.P["rs"]
                    r_sel = z3.If(r[j] >= 0, r[j], -r[j]) if isinstance(r, list) else r
                    g = comp.G(ZO.abs(a.io), ZO.abs(a.vi[j]))
                    sp = S.vo_law(ZO, K, comp.P, a.vi[j], a.io, g, z3.BoolVal(False), a.inactive, r_sel=r_sel)
                    cases.append(([sels[j]], sp, a.vi[j], "sel=%d" % j))
                dead_sp = dict(dead=z3.BoolVal(True), inactive=z3.BoolVal(False), vo=z3.RealVal(0), raises=z3.BoolVal(False), value=z3.RealVal(0), state_off=z3.BoolVal(True))
                cases.append(([none_live], dead_sp, z3.RealVal(0), "sel=-1"))
            else:
                g = comp.G(ZO.abs(a.io), ZO.abs(a.vi[0]))
                sp = S.vo_law(ZO, K, comp.P, a.vi[0], a.io, g, a.off[0], a.inactive)
                if K == "Source":
                    cases.append(([comp.P["vo"] >= 0], sp, comp.P["vo"], "vo>=0"))
                    cases.append(([comp.P["vo"] < 0, comp.P["rs"] == 0], sp, comp.P["vo"], "vo<0,rs=0"))
                    cases.append(([comp.P["vo"] < 0, comp.P["rs"] > 0], sp, comp.P["vo"], "vo<0,rs>0"))
                else:
                    cases.append(([], sp, a.vi[0], ""))
            for pi, p in enumerate(paths):
                self.side(base, p, ["C01", "C03"])
                for hy, sp, vin, clabel in cases:
                    cid = "[%s]" % clabel if clabel else ""
                    fk = "D2.source-negative-with-rs" if (K == "Source" and clabel == "vo<0,rs>0") else None
                    rep = self._replay_outp(comp, a, sp) if True else None
                    if p.kind == "return":
                        val, st = p.value
                        law = z3.And(z3.Not(sp["raises"]), to_z(val, "real") == sp["value"])
                        dv = to_z(val, "real") - sp["value"]
                        mlaw = z3.And(z3.Not(sp["raises"]), ZO.abs(dv) <= z3.RealVal("0.001") * (1 + ZO.abs(sp["value"])))
                        self.add("%s/law%s@p%d" % (base, cid, pi), p, law, ["C01", "LAW", "C05" if K == "PMux" else "C01"], hy, fk, rep, margin_goal=mlaw)
                        offv = st["off"][0] if isinstance(st, dict) else None
                        self.add("%s/state%s@p%d" % (base, cid, pi), p, to_z(offv) == sp["state_off"], ["C01", "C04"], hy, None, None)
                        # C04: dead / inactive => 0 V and OFF
                        self.add("%s/dead-or-inactive=>0V,OFF%s@p%d" % (base, cid, pi), p,
                                 z3.Implies(sp["state_off"], z3.And(to_z(val, "real") == 0, to_z(offv))), ["C04", "C06"], hy)
                        if K in S.SERIES or K == "Source":
                            # C03-P3: a passive series element never inverts or amplifies
                            zv = to_z(val, "real")
                            pol = z3.Or(zv == 0, z3.And(ZO.abs(zv) <= ZO.abs(vin), (zv > 0) == (vin > 0) if not K.startswith("Rectifier") else zv > 0))
                            self.add("%s/no-inversion-no-amplification%s@p%d" % (base, cid, pi), p, pol, ["C03", "C11"], hy, fk, rep)
                        if K == "Source" and clabel == "vo<0,rs>0":
                            pinned = z3.Implies(z3.Not(sp["state_off"]), to_z(val, "real") == comp.P["vo"] - comp.P["rs"] * a.io)
                            self.add("%s/pinned-D2%s@p%d" % (base, cid, pi), p, pinned, ["C01", "C02", "C03", "C11"], hy)
                        self.canaries.append({"id": "%s/canary%s@p%d" % (base, cid, pi), "hyps": list(p.pc) + list(hy), "goal": to_z(val, "real") == sp["value"] + 1, "fn": base})
                    elif p.kind == "raise":
                        e = p.value
                        if K == "Source" and clabel == "vo<0,rs>0":
                            # D2 region: the guard never fires there (pinned), the property clause would demand it
                            self.add("%s/pinned-D2-raise%s@p%d" % (base, cid, pi), p, z3.BoolVal(False), ["C01", "C03"], hy)
                            continue
                        if K == "PMux" and e.etype == "ValueError" and clabel.startswith("sel") and isinstance(comp.P["rs"], list) and len(comp.P["rs"]) < n:
                            continue
                        ok = z3.And(z3.BoolVal(e.etype == "ValueError" and not e.implicit), sp["raises"])
                        self.add("%s/raises-only-when-unstable%s@p%d" % (base, cid, pi), p, ok, ["C01", "C03", "LAW"], hy, fk, rep)
        return self

    def _replay_outp(self, comp, a, sp_unused):
        K = comp.K
        def replay(model, zm):
            if zm is None: return None
            obj, params, val = comp.concretize(zm)
            vi = [val(t) for t in a.vi]; off = [val(t) for t in a.off]; io = val(a.io); ii = val(a.ii)
            ne, ct, vl = val(a.pc.nonempty), val(a.pc.contains(PHASE)), val(a.pc.value(PHASE))
            pconf = _concrete_pc(a.pc.kind, ne, ct, vl)
            FO = S.FloatOps(1e-7, 1e-9)
            try:
                got = obj._solv_outp_volt(list(vi), ii, io, "ph", pconf, {"off": list(off)})
                outcome = {"returned": [float(got[0]), bool(got[1]["off"][0])]}
            except Exception as ex:
                got = None; outcome = {"raised": type(ex).__name__, "msg": str(ex)[:100]}
            inactive = bool(ne and not ct)
            if K == "PMux":
                sel = next((j for j in range(len(vi)) if (not off[j]) and vi[j] != 0.0), -1)
                if sel == -1:
                    sp = dict(value=0.0, raises=False, state_off=True)
                else:
                    r = params["rs"]; r_sel = abs(r[sel]) if isinstance(r, list) else r
                    sp = S.vo_law(FO, K, params, vi[sel], io, obj._ipr._interp(abs(io), abs(vi[sel])), False, inactive, r_sel=r_sel)
                vin = vi[sel] if sel >= 0 else 0.0
            else:
                g = obj._ipr._interp(abs(io), abs(vi[0])) if comp.has_ipr() else 0.0
                sp = S.vo_law(FO, K, params, vi[0], io, g, off[0], inactive)
                vin = params["vo"] if K == "Source" else vi[0]
            if got is None:
                bad = not (outcome["raised"] == "ValueError" and sp["raises"])
            else:
                bad = bool(sp["raises"]) or not FO.eq(float(got[0]), sp["value"]) or bool(got[1]["off"][0]) != bool(sp["state_off"])
                if (K in S.SERIES or K == "Source") and not bad:
                    v = float(got[0]); bad = not (v == 0 or (abs(v) <= abs(vin) * (1 + 1e-9) and ((v > 0) == (vin > 0) or K.startswith("Rectifier"))))
            return {"confirmed": bool(bad), "call": "%s(%r)._solv_outp_volt(vi=%r, ii=%r, io=%r, phase='ph', phase_conf=%r, pstate={'off': %r})" % (comp.cls, params, vi, ii, io, pconf, off),
                    "observed": outcome, "required": {"value": float(sp["value"]) if not sp["raises"] else "ValueError", "state_off": bool(sp["state_off"])}}
        return replay

    # ------------------------------------------------------------------------------------------ _solv_inp_curr
    def inp_curr(self, K):
        for label, kw in variants(K):
            comp = Comp(K, **kw); a = Args(comp)
            qual = "components.%s._solv_inp_curr" % comp.cls
            base = "%s[%s]" % (qual, (K.split(":")[1] + "," if ":" in K else "") + label) if (label or ":" in K) else qual
            def thunk(e, comp=comp, a=a):
                obj = comp.build(e); a.assume(e)
                return e.call_method(obj, "_solv_inp_curr", [a.vi_list(), SV(a.vo, "real"), SV(a.io, "real"), PHASE, a.pc, a.pstate()])
            paths, eng, why = self.explore(qual, thunk)
            if paths is None:
                self.run.undecide(base + "/law", why); continue
            n = comp.n
            cases = []
            pcv = dict(pc_nonempty=a.pc.nonempty, pc_contains=a.pc.contains(PHASE), pc_value=a.pc.value(PHASE))
            if K == "PMux":
                sels, none_live = sel_terms(a, n)
                for j in range(n):
                    g = comp.G(ZO.abs(a.io), ZO.abs(a.vi[j]))
                    cases.append(([sels[j]], S.ii_law(ZO, K, comp.P, a.vi[j], a.io, g, z3.BoolVal(False), a.inactive), "sel=%d" % j))
                cases.append(([none_live], z3.RealVal(0), "sel=-1"))
            else:
                g = comp.G(ZO.abs(a.io), ZO.abs(a.vi[0]))
                cases.append(([], S.ii_law(ZO, K, comp.P, a.vi[0], a.io, g, a.off[0], a.inactive, **pcv), ""))
            for pi, p in enumerate(paths):
                self.side(base, p, ["C01", "C03"])
                for hy, spv, clabel in cases:
                    cid = "[%s]" % clabel if clabel else ""
                    rep = self._replay_inp(comp, a)
                    if p.kind == "return":
                        zv = to_z(p.value, "real")
                        self.add("%s/law%s@p%d" % (base, cid, pi), p, zv == spv, ["C01", "LAW", "C06", "C05" if K == "PMux" else "C01"], hy, None, rep,
                                 margin_goal=ZO.abs(zv - spv) <= z3.RealVal("0.001") * (1 + ZO.abs(spv)))
                        self.add("%s/nonnegative%s@p%d" % (base, cid, pi), p, zv >= 0, ["C01"], hy)
                        if K == "PMux":
                            dead = hy[0] if clabel == "sel=-1" else z3.BoolVal(False)
                        elif K == "Source":
                            dead = z3.Or(comp.P["vo"] == 0, a.off[0])
                        else:
                            dead = z3.Or(a.vi[0] == 0, a.off[0])
                        self.add("%s/dead=>0A%s@p%d" % (base, cid, pi), p, z3.Implies(dead, zv == 0), ["C04"], hy)
                        if K in S.PHASED and K != "Source":
                            self.add("%s/inactive-live=>iis%s@p%d" % (base, cid, pi), p,
                                     z3.Implies(z3.And(z3.Not(dead), a.inactive, comp.P["vo"] != 0 if K == "Converter" else True), zv == comp.P["iis"]), ["C04", "C06"], hy)
                        self.canaries.append({"id": "%s/canary%s@p%d" % (base, cid, pi), "hyps": list(p.pc) + list(hy), "goal": zv == spv + 1, "fn": base})
                    else:
                        self.add("%s/never-raises%s@p%d" % (base, cid, pi), p, z3.BoolVal(False), ["C01"], hy, None, rep)

    def _replay_inp(self, comp, a):
        K = comp.K
        def replay(model, zm):
            if zm is None: return None
            obj, params, val = comp.concretize(zm)
            vi = [val(t) for t in a.vi]; off = [val(t) for t in a.off]; io = val(a.io); vo = val(a.vo)
            ne, ct, vl = val(a.pc.nonempty), val(a.pc.contains(PHASE)), val(a.pc.value(PHASE))
            pconf = _concrete_pc(a.pc.kind, ne, ct, vl)
            FO = S.FloatOps(1e-7, 1e-9)
            inactive = bool(ne and not ct)
            try:
                got = float(obj._solv_inp_curr(list(vi), vo, io, "ph", pconf, {"off": list(off)})); outcome = {"returned": got}
            except Exception as ex:
                got = None; outcome = {"raised": type(ex).__name__, "msg": str(ex)[:100]}
            if K == "PMux":
                sel = next((j for j in range(len(vi)) if (not off[j]) and vi[j] != 0.0), -1)
                req = 0.0 if sel == -1 else S.ii_law(FO, K, params, vi[sel], io, obj._ipr._interp(abs(io), abs(vi[sel])), False, inactive)
            else:
                g = obj._ipr._interp(abs(io), abs(vi[0])) if comp.has_ipr() else 0.0
                req = S.ii_law(FO, K, params, vi[0], io, g, off[0], inactive, pc_nonempty=ne, pc_contains=ct, pc_value=vl)
            bad = got is None or not FO.eq(got, req) or got < 0
            return {"confirmed": bool(bad), "call": "%s(%r)._solv_inp_curr(vi=%r, vo=%r, io=%r, 'ph', %r, {'off': %r})" % (comp.cls, params, vi, vo, io, pconf, off),
                    "observed": outcome, "required": req}
        return replay

    # ------------------------------------------------------------------------------------------ _solv_pwr_loss
    def pwr_loss(self, K):
        comp = Comp(K); a = Args(comp)
        qual = "components.%s._solv_pwr_loss" % comp.cls
        base = "%s[%s]" % (qual, K.split(":")[1]) if ":" in K else qual
        vi = a.vi[0]
        def thunk(e):
            obj = comp.build(e); a.assume(e)
            return e.call_method(obj, "_solv_pwr_loss", [SV(vi, "real"), SV(a.vo, "real"), SV(a.ii, "real"), SV(a.io, "real"), SV(a.ta, "real"), PHASE, a.pc])
        paths, eng, why = self.explore(qual, thunk)
        if paths is None:
            self.run.undecide(base + "/accounting", why); return
        g = comp.G(ZO.abs(a.io), ZO.abs(vi))
        A = ZO.abs(vi)
        # the row handed to _solv_pwr_loss by solve() at the fixed point: ii and vo follow the kind's laws from (vi, io)
        src_vi = comp.P["vo"] if K == "Source" else vi
        vol = S.vo_law(ZO, K, comp.P, src_vi, a.io, g, z3.BoolVal(False), a.inactive, r_sel=comp.P.get("rs") if K == "PMux" else None)
        iil = S.ii_law(ZO, K, comp.P, src_vi, a.io, g, z3.BoolVal(False), a.inactive, pc_nonempty=a.pc.nonempty, pc_contains=a.pc.contains(PHASE), pc_value=a.pc.value(PHASE))
        fixed = [a.vo == vol["value"], z3.Not(vol["raises"]), a.ii == iil]
        if K in S.LOADS:
            fixed = [a.ii >= 0]
        if K == "Converter":
            fixed.append(comp.P["vo"] != 0)       # quantifier of C01/C02: regulated outputs non-zero
        if K == "Source":
            # D2 (open): for vo < 0 with rs > 0 the code's own output is vo - rs*io
            pass
        acc = S.pwr_law(ZO, K, comp.P, vi, a.vo, a.ii, a.io, g, a.ta, a.inactive)
        rep = self._replay_pwr(comp, a)
        for pi, p in enumerate(paths):
            self.side(base, p, ["C02"])
            if p.kind != "return":
                self.add("%s/never-raises@p%d" % (base, pi), p, z3.BoolVal(False), ["C02"], [], None, rep); continue
            pw, ls, ef, tr, tp = [to_z(v, "real") for v in p.value]
            nonneg_io = []
            if K == "Source":
                splits = [("[vo>=0]", [comp.P["vo"] >= 0], None), ("[vo<0,rs=0]", [comp.P["vo"] < 0, comp.P["rs"] == 0], None),
                          ("[vo<0,rs>0]", [comp.P["vo"] < 0, comp.P["rs"] > 0], "D2.source-negative-with-rs")]
            else:
                splits = [("", [], None)]
            for cid, hy, fk in splits:
                H = hy + fixed
                if K == "Source" and fk:
                    # pinned D2: in that region the code's own law is vo - rs*io; balance is stated against the property's law
                    H = hy + [a.vo == comp.P["vo"] - comp.P["rs"] * a.io]
                if K in S.LOADS:
                    cons = A * ZO.abs(a.ii)
                    self.add("%s/consumption-as-power-xor-loss%s@p%d" % (base, cid, pi), p,
                             z3.And(z3.If(comp.P["loss"], z3.And(pw == 0, ls == cons), z3.And(pw == cons, ls == 0))), ["C02"], H, fk, rep)
                    self.add("%s/efficiency%s@p%d" % (base, cid, pi), p, ef == z3.If(comp.P["loss"], z3.RealVal(0), z3.RealVal(100)), ["C02"], H)
                    # D18 (open): temperature rise of a non-loss load follows its consumption although Loss = 0
                    self.add("%s/temp-rise=rt*loss%s@p%d" % (base, cid, pi), p, tr == comp.P["rt"] * ls, ["C02"], H, "D18.nonloss-load-temp-rise", rep)
                    self.add("%s/pinned-D18:temp-rise=rt*consumption%s@p%d" % (base, cid, pi), p, tr == comp.P["rt"] * cons, ["C02"], H)
                    self.add("%s/peak=ambient+rise%s@p%d" % (base, cid, pi), p, tp == a.ta + tr, ["C02"], H, None, rep)
                else:
                    handed = ZO.abs(a.vo) * a.io
                    self.add("%s/balance:Power-Loss=|Vout|*Iout%s@p%d" % (base, cid, pi), p, pw - ls == handed, ["C02"], H, fk, rep)
                    self.add("%s/0<=Loss<=Power%s@p%d" % (base, cid, pi), p, z3.And(ls >= 0, ls <= pw), ["C02", "C11"], H, fk, rep)
                    self.add("%s/efficiency=100*(P-L)/P-in-[0,100]%s@p%d" % (base, cid, pi), p,
                             z3.Implies(pw > 0, z3.And(ef * pw == 100 * (pw - ls), ef >= 0, ef <= 100)), ["C02", "C11"], H, fk, rep)
                    self.add("%s/accounting=documented-model%s@p%d" % (base, cid, pi), p, z3.And(pw == acc["pwr"], ls == acc["loss"]), ["C02"], H, fk, rep)
                    if K != "Source":
                        self.add("%s/temp-rise=rt*loss%s@p%d" % (base, cid, pi), p, tr == comp.P["rt"] * ls, ["C02"], H, None, rep)
                        self.add("%s/peak=ambient+rise%s@p%d" % (base, cid, pi), p, tp == a.ta + tr, ["C02"], H, None, rep)
                    if K == "Source" and fk:
                        self.add("%s/pinned-D2:Power=|vo|*io,Loss=rs*io^2%s@p%d" % (base, cid, pi), p,
                                 z3.Implies(z3.Not(acc["dead"]), z3.And(pw == ZO.abs(comp.P["vo"]) * a.io, ls == comp.P["rs"] * a.io * a.io)), ["C02"], hy)
                # C04: dead => zero power, zero loss;  inactive & live => exactly the sleep power
                self.add("%s/dead=>0W%s@p%d" % (base, cid, pi), p, z3.Implies(acc["dead"], z3.And(pw == 0, ls == 0)), ["C04"], hy)
                if K in S.PHASED and K != "Source":
                    self.add("%s/inactive-live=>sleep-power%s@p%d" % (base, cid, pi), p,
                             z3.Implies(z3.And(z3.Not(acc["dead"]), a.inactive), z3.And(pw == comp.P["iis"] * A, ls == comp.P["iis"] * A)), ["C04", "C06"], hy)
            self.canaries.append({"id": "%s/canary@p%d" % (base, pi), "hyps": list(p.pc) + fixed, "goal": pw == acc["pwr"] + 1, "fn": base})

    def _replay_pwr(self, comp, a):
        K = comp.K
        def replay(model, zm):
            if zm is None: return None
            obj, params, val = comp.concretize(zm)
            vi, vo, ii, io, ta = val(a.vi[0]), val(a.vo), val(a.ii), val(a.io), val(a.ta)
            ne, ct, vl = val(a.pc.nonempty), val(a.pc.contains(PHASE)), val(a.pc.value(PHASE))
            pconf = _concrete_pc(a.pc.kind, ne, ct, vl)
            FO = S.FloatOps(1e-7, 1e-9)
            try:
                got = [float(x) for x in obj._solv_pwr_loss(vi, vo, ii, io, ta, "ph", pconf)]; outcome = {"returned": got}
            except Exception as ex:
                return {"confirmed": True, "call": "%s._solv_pwr_loss" % comp.cls, "observed": {"raised": type(ex).__name__}}
            pw, ls, ef, tr, tp = got
            bad = []
            if K in S.LOADS:
                cons = abs(vi) * abs(ii)
                if params["loss"]:
                    if not (pw == 0 and FO.eq(ls, cons)): bad.append("loss-load accounting")
                else:
                    if not (FO.eq(pw, cons) and ls == 0): bad.append("load accounting")
                if not FO.eq(tp, ta + tr): bad.append("peak != ambient + rise")
            else:
                if not FO.eq(pw - ls, abs(vo) * io): bad.append("Power-Loss != |Vout|*Iout")
                if ls < -1e-9 or ls > pw * (1 + 1e-9) + 1e-12: bad.append("Loss outside [0, Power]")
                if pw > 0 and not (FO.eq(ef * pw, 100 * (pw - ls)) and -1e-9 <= ef <= 100 + 1e-7): bad.append("efficiency")
                if K != "Source":
                    if not FO.eq(tr, params["rt"] * ls): bad.append("rise != rt*Loss")
                    if not FO.eq(tp, ta + tr): bad.append("peak != ambient + rise")
            return {"confirmed": bool(bad), "call": "%s(%r)._solv_pwr_loss(vi=%r, vo=%r, ii=%r, io=%r, ta=%r, 'ph', %r)" % (comp.cls, params, vi, vo, ii, io, ta, pconf),
                    "observed": outcome, "violated": bad}
        return replay


def _concrete_pc(kind, nonempty, contains, value):
    if not nonempty:
        return {} if kind == "dict" else []
    if kind == "dict":
        return {"ph": value} if contains else {"other-phase": 1.0}
    return ["ph"] if contains else ["other-phase"]


# ============================================================================================ generation entry points
def variants_for(K, pmux_ns):
    if K != "PMux":
        return [("", {})]
    out = []
    for n in pmux_ns:
        out.append(("n%d,rs-scalar" % n, dict(n_inputs=n)))
        out.append(("n%d,rs-list" % n, dict(n_inputs=n, rs_list=n)))
    return out


def generate(run, src, methods=("outp", "inp", "pwr"), pmux_ns=(1, 2), kinds=None):
    """-> Gen with .obls / .canaries for the requested methods"""
    global variants
    variants = lambda K: variants_for(K, pmux_ns)
    g = Gen(run, src)
    for K in (kinds or ALL_K):
        if "outp" in methods: g.outp_volt(K)
        if "inp" in methods: g.inp_curr(K)
        if "pwr" in methods: g.pwr_loss(K)
    return g


def cross_check(src, seed, n_inputs, methods=("_solv_outp_volt", "_solv_inp_curr", "_solv_pwr_loss"), kinds=None):
    """CPython cross-check of the engine: random concrete inputs through the REAL method (CPython) and through the
    engine's path summary: exactly one path condition must hold and its result term must evaluate to the real result.
    -> (functions, inputs, mismatches list)"""
    import random
    rnd = random.Random(seed)
    nf = ni = 0; mism = []
    for K in (kinds or ALL_K):
        for meth in methods:
            comp = Comp(K, n_inputs=2 if K == "PMux" else 1); a = Args(comp)
            def thunk(e, comp=comp, a=a, meth=meth):
                obj = comp.build(e); a.assume(e)
                if meth == "_solv_pwr_loss":
                    return e.call_method(obj, meth, [SV(a.vi[0], "real"), SV(a.vo, "real"), SV(a.ii, "real"), SV(a.io, "real"), SV(a.ta, "real"), PHASE, a.pc])
                mid = SV(a.ii, "real") if meth == "_solv_outp_volt" else SV(a.vo, "real")
                return e.call_method(obj, meth, [a.vi_list(), mid, SV(a.io, "real"), PHASE, a.pc, a.pstate()])
            try:
                paths = Engine(src).explore(thunk)
            except (Unsupported, FunctionMissing):
                continue
            nf += 1
            for _ in range(n_inputs):
                val = {}
                def pick(t, lo=0.0, hi=1.0, zero=0.15):
                    val[t] = 0.0 if rnd.random() < zero else round(rnd.uniform(lo, hi), 3)
                for k, t in comp.P.items():
                    if isinstance(t, list):
                        for x in t: pick(x, -0.1, 0.1)
                    elif isinstance(t, str): pass
                    elif z3.is_bool(t): val[t] = rnd.random() < 0.5
                    elif k == "vo": val[t] = rnd.choice([0.0, 1.8, 3.3, -5.0, 12.0])
                    elif k == "vdrop" and K == "LinReg": val[t] = rnd.choice([0.0, 0.2])
                    elif k == "rs" and K == "RLoad": val[t] = rnd.choice([10.0, 470.0])
                    elif k == "rt" and K == "Source": val[t] = 0.0
                    else: pick(t, 0.0, 0.2)
                if K == "LinReg" and not (val[comp.P["vdrop"]] < abs(val[comp.P["vo"]])): val[comp.P["vo"]] = 3.3
                for t in a.vi: val[t] = rnd.choice([0.0, 5.0, -12.0, 3.3, 0.25])
                for t in a.off: val[t] = rnd.random() < 0.2
                val[a.io] = rnd.choice([0.0, 0.01, 0.5, 2.0]); val[a.ii] = rnd.choice([0.0, 0.02, 0.6]); val[a.vo] = rnd.choice([0.0, 3.3, -4.9]); val[a.ta] = rnd.choice([25.0, -10.0, 0.0])
                ne = rnd.random() < 0.6; ct = ne and rnd.random() < 0.5; pv = rnd.choice([0.01, 0.3, 100.0])
                gconst = rnd.choice([0.0, 0.001, 0.05]) if K != "Converter" else rnd.choice([0.5, 0.9, 1.0])
                subs = [(t, (z3.BoolVal(v) if isinstance(v, bool) else z3.RealVal(repr(float(v))))) for t, v in val.items()]
                subs += [(a.pc.nonempty, z3.BoolVal(ne))]
                def conc(term):
                    t2 = z3.substitute_funs(term, (comp.G, z3.RealVal(repr(gconst))), (a.pc._contains, z3.BoolVal(ct)), (a.pc._value, z3.RealVal(repr(pv))))
                    return z3.simplify(z3.substitute(t2, *subs))
                # real call
                import sysloss.components as C
                obj = object.__new__(getattr(C, comp.cls))
                params = {"name": "X"}
                for k, t in comp.P.items():
                    params[k] = [val[x] for x in t] if isinstance(t, list) else (t if isinstance(t, str) else val[t])
                if K in ("VLoss", "Rectifier:diode"): params["vdrop"] = gconst
                obj._params = params; obj._limits = C.LIMITS_DEFAULT
                obj._ipr = C._Interp0d(gconst) if comp.has_ipr() else None
                pconf = _concrete_pc(a.pc.kind, ne, ct, pv)
                vi = [val[t] for t in a.vi]; off = [val[t] for t in a.off]
                try:
                    if meth == "_solv_pwr_loss":
                        real = ("return", [float(x) for x in obj._solv_pwr_loss(vi[0], val[a.vo], val[a.ii], val[a.io], val[a.ta], "ph", pconf)])
                    elif meth == "_solv_outp_volt":
                        r_ = obj._solv_outp_volt(list(vi), val[a.ii], val[a.io], "ph", pconf, {"off": list(off)}); real = ("return", [float(r_[0]), float(bool(r_[1]["off"][0]))])
                    else:
                        real = ("return", [float(obj._solv_inp_curr(list(vi), val[a.vo], val[a.io], "ph", pconf, {"off": list(off)}))])
                except ZeroDivisionError:
                    continue
                except Exception as ex:
                    real = ("raise", type(ex).__name__)
                ni += 1
                hold = []
                undetermined = False
                def truthv(c):
                    """True / False / None for a concretised path-condition conjunct (names are compared under their distinctness axiom)"""
                    t = conc(z3.substitute(c, (PHASE.z, name_const("ph"))))
                    if z3.is_true(t): return True
                    if z3.is_false(t): return False
                    s_ = z3.Solver(); s_.set("timeout", 2000); s_.add(*distinct_names()); s_.add(z3.Not(t))
                    if s_.check() == z3.unsat: return True
                    s_ = z3.Solver(); s_.set("timeout", 2000); s_.add(*distinct_names()); s_.add(t)
                    if s_.check() == z3.unsat: return False
                    return None
                for p in paths:
                    vs = [truthv(c) for c in p.pc]
                    if any(v is None for v in vs) and not any(v is False for v in vs): undetermined = True
                    if all(v is True for v in vs): hold.append(p)
                if undetermined and len(hold) != 1:
                    ni -= 1; continue          # this sample does not decide every branch condition concretely (new symbolic guard): no verdict from it
                if len(hold) != 1:
                    mism.append((K, meth, "paths holding: %d" % len(hold), params, vi, off)); continue
                p = hold[0]
                if p.kind == "raise":
                    if real != ("raise", p.value.etype): mism.append((K, meth, "engine raises %s, CPython %r" % (p.value.etype, real), params, vi))
                    continue
                if real[0] != "return":
                    mism.append((K, meth, "engine returns, CPython raised %s" % real[1], params, vi)); continue
                if meth == "_solv_outp_volt":
                    sym = [float(solver.frac(conc(to_z(p.value[0], "real")))), float(bool(solver.frac(conc(to_z(p.value[1]["off"][0])))))]
                elif meth == "_solv_pwr_loss":
                    sym = [float(solver.frac(conc(to_z(x, "real")))) for x in p.value]
                else:
                    sym = [float(solver.frac(conc(to_z(p.value, "real"))))]
                if not all(math.isclose(x, y, rel_tol=1e-9, abs_tol=1e-12) for x, y in zip(sym, real[1])):
                    mism.append((K, meth, "engine %r != CPython %r" % (sym, real[1]), params, vi, val[a.io]))
    return nf, ni, mism
