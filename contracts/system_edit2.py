"""C15-P (frame on the exceptional paths) for the four graph-editing methods add_source, add_comp, change_comp, del_comp:
the real bodies are executed symbolically over registries modelled as z3 maps with a write log and an opaque graph whose
mutators are logged.  Obligations:
  * on every path that ends in an exception (explicit raise, a callee contract's raise, or an implicit KeyError / IndexError
    whose side condition is not discharged under WF) the write log is EMPTY;
  * every explicit rejection is a ValueError;
  * on normal return the documented registry updates happened (names, rails, groups, phase_conf keyed by the component's own
    name; rail '' for loads).
WF(S) of the registries is assumed at entry (its preservation is decided by the bounded C14 oracle)."""
import z3, itertools
from pyvc import *
from pyvc.engine import LoopSpec, Builtin
from .system_edit import Reg, wf_registry, EMPTY, _ob

I, Bo = z3.IntSort(), z3.BoolSort()


class World:
    def __init__(self, src, tag=""):
        self.writes = []
        W = self.writes
        self.nodes = Reg("nodes", I, W); self.rails = Reg("rails", NAME, W); self.pconf = Reg("phase_conf", I, W); self.groups = Reg("groups", NAME, W)
        self.TYPE = z3.Function("type_of_node", I, NAME)            # component type name of the object at a graph index
        self.CNAME = z3.Function("name_of", I, NAME)
        self.ALLOWS = z3.Function("child_types_allow", NAME, NAME, Bo)     # parent type allows child type (read from the classes: assumed pure)
        self.NKEYS = z3.Int("n_names"); self.KEY = z3.Function("key_at", I, NAME)
        self.PN = {}
        self.pnames = Opaque("pnames", getitem=lambda e, k: self._pn_get(e, k), setitem=lambda e, k, v: W.append(("pnames", "store", to_z(k), v)), label="pnames")
        attrs_d = {"nodes": self.nodes.obj, "rails": self.rails.obj, "phase_conf": self.pconf.obj, "groups": self.groups.obj, "pnames": self.pnames}
        def aget(key):
            if key not in attrs_d: raise Unsupported("self._g.attrs[%r] not modelled" % (key,))
            return attrs_d[key]
        self.attrs = HMap(aget, lambda k, v: W.append(("attrs", "store", k, v)), label="self._g.attrs")
        self.fresh_idx = z3.Int("fresh_node_index")
        def gmut(name):
            def f(e, *a, **k):
                W.append(("graph", name, a, None))
                return SV(self.fresh_idx, "int") if name in ("add_node", "add_child") else None
            return f
        def comp(c):
            return self.obj_at(to_z(c))
        self.g = Opaque("g", getitem=lambda e, c: comp(c), setitem=lambda e, k, v: W.append(("graph", "setitem", to_z(k), v)),
                        methods={"add_node": gmut("add_node"), "add_child": gmut("add_child"), "add_edge": gmut("add_edge"), "remove_node": gmut("remove_node"),
                                 "successor_indices": lambda e, n: Seq(z3.Int("n_succ"), lambda j: SV(z3.Function("succ", I, I)(j), "int"))}, label="self._g")
        self.g.attrs["attrs"] = self.attrs
        # iteration over the name registry: for key in nodes
        self.nodes.obj.seq = Seq(self.NKEYS, lambda j: SV(self.KEY(j), "name"))
        self.selfobj = Opaque("self", cls="System", attrs={"_g": self.g})

    def _pn_get(self, e, k):
        kz = to_z(k)
        return Seq(z3.Function("n_pnames", I, I)(kz), lambda j, kz=kz: SV(z3.Function("pname", I, I, NAME)(kz, j), "name"))

    def type_obj(self, t):
        """enum-like component type whose identity is the Name-sorted term t"""
        return Opaque("ctype", attrs={"name": SV(t, "name")}, methods={"eq": lambda e, other, t=t: (t == name_const(other.name)) if hasattr(other, "name") and not isinstance(other, Opaque) else (t == other.attrs["name"].z if isinstance(other, Opaque) else False)})

    def obj_at(self, cz):
        t = self.TYPE(cz)
        ct = Opaque("child_types", contains=lambda e, item, t=t: self.ALLOWS(t, item.attrs["name"].z) if isinstance(item, Opaque) else False)
        return Opaque("comp@", attrs={"_params": {"name": SV(self.CNAME(cz), "name")}, "_component_type": self.type_obj(t), "_child_types": ct},
                      methods={"isinstance": lambda e, cls, t=t: self._isa(t, cls)})

    def new_comp(self, tag):
        t = z3.Const("type_" + tag, NAME); nm = z3.Const("name_" + tag, NAME)
        ct = Opaque("child_types", contains=lambda e, item, t=t: self.ALLOWS(t, item.attrs["name"].z) if isinstance(item, Opaque) else False)
        o = Opaque("newcomp", attrs={"_params": {"name": SV(nm, "name")}, "_component_type": self.type_obj(t), "_child_types": ct}, methods={"isinstance": lambda e, cls, t=t: self._isa(t, cls)})
        o.t, o.nm = t, nm
        return o

    def _isa(self, t, cls):
        m = {"Source": "SOURCE", "PMux": "PMUX", "RLoss": "SLOSS", "VLoss": "SLOSS"}
        if cls in m: return t == name_const(m[cls])
        return z3.BoolVal(False)

    def wf(self):
        n1 = z3.Const("wn1", NAME)
        return wf_registry(dict(nodes=self.nodes, rails=self.rails, pconf=self.pconf, CNAME=self.CNAME)) + [
            z3.ForAll([n1], z3.Select(self.nodes.dom, n1) == z3.Select(self.groups.dom, n1)),
            z3.ForAll([z3.Int("kj")], z3.Implies(z3.And(z3.Int("kj") >= 0, z3.Int("kj") < self.NKEYS), z3.Select(self.nodes.dom, self.KEY(z3.Int("kj")))))]     # iterating a dict yields its keys


def _std_overrides(eng, W, fns=("_chk_name", "_chk_parent", "_chk_comp", "_get_index")):
    """callees under their own (proved) contracts: reject by ValueError without writing, or return"""
    RES = z3.Function("resolved_index", NAME, I)
    def chk(label):
        def f(e, recv, a, k):
            ok = z3.Bool("accepts:%s(%s)" % (label, ",".join(str(to_z(x)) if is_sym(x) or isinstance(x, str) else "?" for x in a)))
            e.event("call", fn=label, args=a, nwrites=len(W.writes))
            if not e.decide(ok): raise PyRaise("ValueError", label)
            if label == "_chk_comp": e.assume(W.nodes.has(a[0]))
            return True
        return f
    if "_chk_name" in fns: eng.overrides["system.System._chk_name"] = chk("_chk_name")
    if "_chk_parent" in fns: eng.overrides["system.System._chk_parent"] = chk("_chk_parent")
    if "_chk_comp" in fns: eng.overrides["system.System._chk_comp"] = chk("_chk_comp")
    def get_index(e, recv, a, k):
        nm = a[0]
        r = z3.If(W.nodes.has(nm), W.nodes.get(nm), RES(to_z(nm)))
        e.assume(RES(to_z(nm)) >= -1)
        return SV(r, "int")
    if "_get_index" in fns: eng.overrides["system.System._get_index"] = get_index
    return RES


def _distinct_count(vals):
    zs = [to_z(v) for v in vals]
    n = z3.IntVal(0)
    for j, a in enumerate(zs):
        dup = z3.Or(*[a == b for b in zs[:j]]) if j else z3.BoolVal(False)
        n = n + z3.If(dup, 0, 1)
    return n


def _builtins(eng):
    def set_(e, x=()):
        items = e.iterate(x)
        if any(is_sym(v) for v in items):
            return Opaque("symset", methods={"len": lambda e_, items=items: SV(_distinct_count(items), "int")})
        return set(items)
    eng.extra_globals["set"] = Builtin("set", set_)
    def warn_(e, *a, **k):
        # warnings.warn returns, or raises the warning when the user's filter turns warnings into errors (python -W error)
        if e.choose(2) == 1: raise PyRaise("UserWarning", "warnings filter 'error'")
        return None
    eng.extra_globals["warn"] = Builtin("warn", warn_)


def _explore(run, src, method, build_args, label, extra_overrides=None, abstract=("_chk_name", "_chk_parent", "_chk_comp", "_get_index"), loop_invs=None):
    eng = Engine(src)
    holder = {}
    def thunk(e):
        W = World(src)
        holder["W"] = W
        e.path_extra["W"] = W
        W.nodes0 = (W.nodes.dom, W.nodes.val); W.rails0 = (W.rails.dom, W.rails.val)
        for a in W.wf(): e.assume(a)
        RES = _std_overrides(eng, W, abstract)
        # contract of _get_pmux (proved in contracts/system_core.graph_helpers): -1 iff no registered component is a PMux
        kj = z3.Int("kq"); PM = z3.Int("pmux_index")
        nopm = z3.ForAll([kj], z3.Implies(z3.And(kj >= 0, kj < W.NKEYS), W.TYPE(z3.Select(W.nodes0[1], W.KEY(kj))) != name_const("PMUX")))
        e.assume(z3.And(PM >= -1, (PM == -1) == nopm))
        eng.overrides["system.System._get_pmux"] = lambda e_, r, a, k: SV(PM, "int")
        W.no_pmux_at_entry = nopm
        _builtins(eng)
        if extra_overrides: extra_overrides(eng, W, e)
        # for key in nodes: iteration over the registry keys
        args, kwargs = build_args(W, e)
        e.path_extra["args"] = (args, kwargs)
        r = e.call_method(W.selfobj, method, args, kwargs)
        return r
    orig_for = eng.st_For
    def st_For(s):
        it = eng.ev(s.iter)
        if isinstance(it, Opaque) and hasattr(it, "seq"):
            return eng._loop_with_spec(s, it.seq)
        if isinstance(it, Seq): return eng._loop_with_spec(s, it)
        return orig_for(s)
    eng.st_For = st_For
    qual = "system.System." + method
    for k in range(6):
        eng.loop_specs[(qual, "For", k)] = LoopSpec("%s/for#%d" % (qual, k), inv=lambda env, kk: z3.BoolVal(True))
    if loop_invs:
        import ast as _ast
        _, fn = src.method("System", method)
        fors = [n for n in _ast.walk(fn) if isinstance(n, _ast.For)]
        for k, n in enumerate(fors):
            txt = _ast.unparse(n.iter)
            for pat, mk in loop_invs.items():
                if pat in txt:
                    def hh(e, body=n):
                        # registries are heap objects: those the loop body deletes from / stores into are havoc'd at the loop head
                        W = holder["W"]
                        src_txt = _ast.unparse(body)
                        for r in (W.nodes, W.pconf, W.groups, W.rails):
                            if ("attrs['%s']" % r.label) in src_txt and ("del " in src_txt):
                                e.fresh_n += 1
                                r.dom = z3.Array("%s.dom!%d" % (r.label, e.fresh_n), NAME, Bo)
                    eng.loop_specs[(qual, "For", k)] = LoopSpec("%s/for#%d" % (qual, k), inv=(lambda env, kk, mk=mk: mk(holder["W"], kk)), heap_havoc=hh)
    try:
        paths = eng.explore(thunk)
    except (Unsupported, FunctionMissing) as u:
        run.undecide("%s%s/frame" % (qual, label), str(u)); return None, eng
    run.functions.update(eng.inlined)
    return paths, eng


def _frame_obls(paths, qual, label, tags=("C15",), exc_type_clause=True):
    obls = []
    # loops whose arbitrary iteration writes: after such a loop the write log is unknown-but-possibly-non-empty
    writing_loops = {p.extra.get("iterating") for p in paths if p.kind in ("end", "raise", "return") and p.extra.get("iterating") and len(p.extra["W"].writes) > 0}
    for pi, p in enumerate(paths):
        W = p.extra["W"]
        if p.kind == "raise":
            e = p.value
            how = "%s%s" % (e.etype, " (implicit)" if e.implicit else "")
            after = [l for l in p.extra.get("loop_exit_k", {}) if l in writing_loops]
            clean = len(W.writes) == 0 and not after
            obls.append({"id": "%s%s/frame:nothing written before the exception [%s]@p%d" % (qual, label, how, pi), "hyps": p.pc, "goal": z3.BoolVal(clean), "kind": "post", "tags": list(tags), "meta": {"detail": str([(w[0], w[1]) for w in W.writes][:6] + ["after writing loop %s" % l for l in after])}})
            if e.etype != "UserWarning" and exc_type_clause:      # a warning raised through the user's filter is not a rejection of the call, but the frame clause above still binds
                obls.append({"id": "%s%s/rejections are ValueError@p%d" % (qual, label, pi), "hyps": p.pc, "goal": z3.BoolVal(e.etype == "ValueError" and not e.implicit), "kind": "post", "tags": list(tags), "meta": {}})
    return obls


def obligations(run, src):
    obls = []
    # ------------------------------------------------------------------ add_source(source, group, rail)
    def args_add_source(W, e):
        c = W.new_comp("new"); W.newc = c
        return [c], {"group": SV(z3.Const("group_arg", NAME), "name"), "rail": SV(z3.Const("rail_arg", NAME), "name")}
    paths, eng = _explore(run, src, "add_source", args_add_source, "")
    if paths:
        qual = "system.System.add_source"
        obls += _frame_obls(paths, qual, "")
        for pi, p in enumerate(paths):
            if p.kind != "return": continue
            W = p.extra["W"]; c = W.newc
            kinds = [(w[0], w[1]) for w in W.writes]
            ok = kinds.count(("graph", "add_node")) == 1 and all(k in kinds for k in (("nodes", "store"), ("phase_conf", "store"), ("groups", "store"), ("rails", "store"), ("pnames", "store")))
            keys_ok = z3.And(*[w[2] == c.nm for w in W.writes if w[0] in ("nodes", "phase_conf", "groups", "rails")])
            obls.append(_ob(qual + "/post:accepted => one new root registered under its own name in every registry@p%d" % pi, p, z3.And(z3.BoolVal(bool(ok)), keys_ok, c.t == name_const("SOURCE")), ["C15", "C14"]))
            obls.append(_ob(qual + "/canary@p%d" % pi, p, c.t != name_const("SOURCE"), ["C15"], kind="canary"))
    # ------------------------------------------------------------------ add_comp(parent, comp, group, rail): single parent and 2-/3-input lists
    for npar in (0, 2, 3, -1):
        lab = "[single parent]" if npar == 0 else "[%d-input list]" % npar if npar > 0 else "[empty list]"
        def args_add_comp(W, e, npar=npar):
            c = W.new_comp("new"); W.newc = c
            par = SV(z3.Const("parent_arg", NAME), "name") if npar == 0 else [SV(z3.Const("parent_arg%d" % j, NAME), "name") for j in range(npar)]
            return [par], {"comp": c, "group": SV(z3.Const("group_arg", NAME), "name"), "rail": SV(z3.Const("rail_arg", NAME), "name")}
        def inv_nodes(W, k):
            j = z3.Int("vj")
            return z3.ForAll([j], z3.Implies(z3.And(j >= 0, j < k), W.TYPE(z3.Select(W.nodes0[1], W.KEY(j))) != name_const("PMUX")))
        paths, eng = _explore(run, src, "add_comp", args_add_comp, lab, loop_invs={"attrs['nodes']": inv_nodes})
        if not paths: continue
        qual = "system.System.add_comp"
        # (an empty parent list ends in an IndexError on the unchanged tree: the property fixes what a raising call leaves behind, not its type)
        obls += _frame_obls(paths, qual, lab, exc_type_clause=(npar != -1))
        obls += [dict(o, id=o["id"] + lab, tags=["C14"]) for o in eng.obligations]
        for pi, p in enumerate(paths):
            if p.kind == "return":
                W = p.extra["W"]
                obls.append(_ob("%s%s/post:a PMux is accepted only if the system has none yet@p%d" % (qual, lab, pi), p, z3.Implies(W.newc.t == name_const("PMUX"), W.no_pmux_at_entry), ["C14"]))
        for pi, p in enumerate(paths):
            if p.kind != "return": continue
            W = p.extra["W"]; c = W.newc
            kinds = [(w[0], w[1]) for w in W.writes]
            ok = npar != -1 and kinds.count(("graph", "add_child")) == 1 and kinds.count(("graph", "add_edge")) == max(0, npar - 1) and all(k in kinds for k in (("nodes", "store"), ("phase_conf", "store"), ("groups", "store"), ("rails", "store"), ("pnames", "store")))
            keys_ok = z3.And(*[w[2] == c.nm for w in W.writes if w[0] in ("nodes", "phase_conf", "groups", "rails")])
            rail_w = [w for w in W.writes if w[0] == "rails"]
            rail_ok = z3.Implies(c.t == name_const("LOAD"), to_z(rail_w[-1][3]) == EMPTY) if rail_w and (is_sym(rail_w[-1][3]) or isinstance(rail_w[-1][3], str)) else z3.BoolVal(False)
            obls.append(_ob("%s%s/post:accepted => one new node registered under its own name; a load gets no rail@p%d" % (qual, lab, pi), p, z3.And(z3.BoolVal(bool(ok)), keys_ok, rail_ok), ["C15", "C14"]))
            if npar > 0:
                obls.append(_ob("%s%s/post:a parent list is accepted only for a PMux@p%d" % (qual, lab, pi), p, c.t == name_const("PMUX"), ["C14", "C15"]))
            obls.append(_ob("%s%s/canary@p%d" % (qual, lab, pi), p, z3.BoolVal(False), ["C15"], kind="canary"))
    # ------------------------------------------------------------------ change_comp(name, comp, group, rail)
    def args_change(W, e):
        c = W.new_comp("new"); W.newc = c
        return [SV(z3.Const("name_arg", NAME), "name")], {"comp": c, "group": SV(z3.Const("group_arg", NAME), "name"), "rail": SV(z3.Const("rail_arg", NAME), "name")}
    def ov_change(eng, W, e):
        H = {}
        NCH, CH, LEAF = z3.Function("n_childs", I, I), z3.Function("child", I, I, I), z3.Function("is_leaf", I, Bo)
        NPA, PA, ROOT = z3.Function("n_parents", I, I), z3.Function("parent", I, I, I), z3.Function("is_root", I, Bo)
        eng.overrides["system.System._get_childs"] = lambda e_, r, a, k: HMap(lambda n: Opt(LEAF(to_z(n)), Seq(NCH(to_z(n)), lambda j, n=n: SV(CH(to_z(n), j), "int"))))
        eng.overrides["system.System._get_parents"] = lambda e_, r, a, k: HMap(lambda n: Opt(ROOT(to_z(n)), Seq(NPA(to_z(n)), lambda j, n=n: SV(PA(to_z(n), j), "int"))))
        eng.overrides["system.System._get_pmux"] = lambda e_, r, a, k: SV(z3.Int("pmux_index"), "int")
    paths, eng = _explore(run, src, "change_comp", args_change, "", ov_change, abstract=("_chk_parent", "_chk_comp", "_get_index"))
    if paths:
        qual = "system.System.change_comp"
        obls += _frame_obls(paths, qual, "")
        xk = z3.Const("xk2", NAME)
        for pi, p in enumerate(paths):
            if p.kind != "return": continue
            W = p.extra["W"]; c = W.newc; nm = z3.Const("name_arg", NAME); rl = z3.Const("rail_arg", NAME)
            d0, v0 = W.nodes0; rd0, rv0 = W.rails0
            is_rail = lambda t: z3.Exists([xk], z3.And(z3.Select(rd0, xk), z3.Select(rv0, xk) == t))
            fresh_name = z3.Implies(c.nm != nm, z3.And(z3.Not(z3.Select(d0, c.nm)), z3.Not(is_rail(c.nm))))
            rail_ok = z3.Implies(rl != EMPTY, z3.And(rl != c.nm, z3.Or(z3.And(c.nm == nm, rl == z3.Select(rv0, nm)), z3.And(z3.Not(z3.Select(d0, rl)), z3.Not(is_rail(rl))))))
            obls.append(_ob(qual + "/post:accepted => the new name is fresh (or unchanged) and not a rail; a new rail differs from the new name and from every other name and rail@p%d" % pi, p, z3.And(fresh_name, rail_ok), ["C14"]))
            obls.append(_ob(qual + "/post:a second PMux is never created@p%d" % pi, p, z3.Implies(z3.And(c.t == name_const("PMUX"), W.TYPE(z3.Select(v0, nm)) != name_const("PMUX")), W.no_pmux_at_entry), ["C14"]))
        for pi, p in enumerate(paths):
            if p.kind != "return": continue
            W = p.extra["W"]; c = W.newc; nm = z3.Const("name_arg", NAME)
            dels = [w for w in W.writes if w[1] == "del"]; stores = [w for w in W.writes if w[1] == "store" and w[0] in ("nodes", "phase_conf", "groups", "rails")]
            ok = sorted(w[0] for w in dels) == ["groups", "nodes", "phase_conf", "rails"] and sorted(w[0] for w in stores) == ["groups", "nodes", "phase_conf", "rails"]
            keys = z3.And(*([w[2] == nm for w in dels] + [w[2] == c.nm for w in stores]))
            pc_w = [w for w in stores if w[0] == "phase_conf"]
            obls.append(_ob(qual + "/post:accepted => old name removed from and new name entered into every registry, phase configuration reset@p%d" % pi, p,
                            z3.And(z3.BoolVal(bool(ok)), keys, z3.BoolVal(bool(pc_w) and pc_w[0][3] == {})), ["C15", "C14", "C16"]))
            obls.append(_ob(qual + "/canary@p%d" % pi, p, z3.BoolVal(False), ["C15"], kind="canary"))
    # ------------------------------------------------------------------ del_comp(name, del_childs=False)   (the keep-children variant: no loop over descendants)
    def args_del(W, e):
        return [SV(z3.Const("name_arg", NAME), "name")], {"del_childs": False}
    def ov_del(eng, W, e):
        NCH, CH, LEAF = z3.Function("n_childs", I, I), z3.Function("child", I, I, I), z3.Function("is_leaf", I, Bo)
        NPA, PA, ROOT = z3.Function("n_parents", I, I), z3.Function("parent", I, I, I), z3.Function("is_root", I, Bo)
        eng.overrides["system.System._get_childs"] = lambda e_, r, a, k: HMap(lambda n: Opt(LEAF(to_z(n)), Seq(NCH(to_z(n)), lambda j, n=n: SV(CH(to_z(n), j), "int"))))
        eng.overrides["system.System._get_parents"] = lambda e_, r, a, k: HMap(lambda n: Opt(ROOT(to_z(n)), Seq(NPA(to_z(n)), lambda j, n=n: SV(PA(to_z(n), j), "int"))))
        eng.overrides["system.System._get_sources"] = lambda e_, r, a, k: Opaque("sources", methods={"len": lambda e__: SV(z3.Int("n_sources"), "int")})
    paths, eng = _explore(run, src, "del_comp", args_del, "[del_childs=False]", ov_del)
    if paths:
        qual = "system.System.del_comp"
        obls += _frame_obls(paths, qual, "[del_childs=False]")
        for pi, p in enumerate(paths):
            if p.kind != "return": continue
            W = p.extra["W"]; nm = z3.Const("name_arg", NAME)
            dels = [w for w in W.writes if w[1] == "del"]
            ok = sorted(w[0] for w in dels) == ["groups", "nodes", "phase_conf", "rails"] and any(w[:2] == ("graph", "remove_node") for w in W.writes)
            obls.append(_ob(qual + "[del_childs=False]/post:accepted => the name leaves every registry and the node leaves the graph@p%d" % pi, p, z3.And(z3.BoolVal(bool(ok)), *[w[2] == nm for w in dels]), ["C15", "C14", "C16"]))
            obls.append(_ob(qual + "[del_childs=False]/canary@p%d" % pi, p, z3.BoolVal(False), ["C15"], kind="canary"))
    # ------------------------------------------------------------------ del_comp(name, del_childs=True): loop over the descendants with deletions
    NDESC = z3.Int("n_descendants"); DESC = z3.Function("descendant", I, I)
    def args_del_t(W, e):
        return [SV(z3.Const("name_arg", NAME), "name")], {"del_childs": True}
    def ov_del_t(eng, W, e):
        ov_del(eng, W, e)
        dseq = Seq(NDESC, lambda j: SV(DESC(j), "int"))
        o = Opaque("descendants"); o.seq = dseq
        eng.extra_globals["rx"] = Opaque("rx", methods={"descendants": lambda e_, g_, n_: o})
        nm = z3.Const("name_arg", NAME); a_, b_ = z3.Ints("da db")
        # assumed graph facts + WF: descendants are pairwise distinct live nodes other than the target; names are injective on live nodes
        e.assume(NDESC >= 0)
        e.assume(z3.ForAll([a_, b_], z3.Implies(z3.And(a_ >= 0, b_ >= 0, a_ < NDESC, b_ < NDESC, a_ != b_), W.CNAME(DESC(a_)) != W.CNAME(DESC(b_)))))
        e.assume(z3.ForAll([a_], z3.Implies(z3.And(a_ >= 0, a_ < NDESC), z3.And(W.CNAME(DESC(a_)) != nm, z3.Select(W.nodes0[0], W.CNAME(DESC(a_)))))))
    def inv_desc(W, k):
        j = z3.Int("dj"); nm = z3.Const("name_arg", NAME)
        regs = (W.nodes, W.pconf, W.groups, W.rails)
        return z3.And(*[z3.And(z3.Select(r.dom, nm), z3.ForAll([j], z3.Implies(z3.And(j >= k, j < NDESC), z3.Select(r.dom, W.CNAME(DESC(j)))))) for r in regs])
    paths, eng = _explore(run, src, "del_comp", args_del_t, "[del_childs=True]", ov_del_t, loop_invs={"descendants": inv_desc})
    if paths:
        qual = "system.System.del_comp"
        lab = "[del_childs=True]"
        obls += [dict(o, id=o["id"] + lab, tags=["C15", "C14"]) for o in eng.obligations]
        obls += _frame_obls(paths, qual, lab)
        for pi, p in enumerate(paths):
            if p.kind == "return":
                obls.append(_ob("%s%s/canary@p%d" % (qual, lab, pi), p, z3.BoolVal(False), ["C15"], kind="canary"))
    run.assumed.add("rustworkx graph mutators (add_node, add_child, add_edge, remove_node, item assignment) are the only graph writes; _child_types of a class is a pure constant of its type")
    run.notes.append("edit methods: frame on exceptional paths proved for add_source, add_comp (single parent, 2- and 3-input lists), change_comp, del_comp (both del_childs settings; the loop over the descendants with a registry invariant); full WF preservation is bounded only")
    return obls
