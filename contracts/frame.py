"""C17-P1: frame ('assigns') obligations of the analysis entry points from an interprocedural may-write analysis over the
real AST (re-read every run).  Every store / del / mutator call reachable from the entry points is classified by the root
of its target:

  fresh      object allocated during the call (literal, comprehension, constructor / library call, fresh-returning callee)
  scratch    self._parents / _childs / _topo_nodes / _phase_lkup and the key 'hidx' of self._g.attrs
  battery    _params['vo'|'rs'] stores of batt_life (own restoration obligation, contracts/battlife.py)
  param(p)   through a parameter: discharged at every call site (the argument must be fresh there)
  persistent anything else (self._g, registries, component attributes, module globals, caller-supplied arguments)

A write classified 'persistent' is an UNDISCHARGED frame obligation; it is reported as undecided (the bounded snapshot
oracle decides), never as a violation by itself: the analysis is conservative."""
import ast

ENTRY = [("system", "System", "solve"), ("system", "System", "rail_rep"), ("system", "System", "params"), ("system", "System", "limits"), ("system", "System", "phases"),
         ("system", "System", "tree"), ("system", "System", "save"), ("system", "System", "plot_interp"), ("system", "System", "batt_life"),
         ("diagram", None, "make_diag"), ("diagram", None, "make_hdiag")]
SCRATCH = {"_parents", "_childs", "_topo_nodes", "_phase_lkup"}
MUTATORS = {"append", "extend", "pop", "remove", "update", "clear", "insert", "sort", "setdefault", "popitem", "add_node", "add_child", "add_edge", "remove_node", "reverse", "add", "discard"}
EDITORS = {"__init__", "from_file", "add_comp", "add_source", "change_comp", "del_comp", "set_sys_phases", "set_comp_phases"}
FRESH_LIBS = {"np", "pd", "rx", "plt", "copy", "json", "toml", "pydot", "Image", "io", "mpl", "matplotlib", "version", "warnings"}
# side-car annotations for what the analysis cannot establish itself (each is an assumption listed in the evidence and checked at run time by B)
ANNOTATIONS = {
    ("system", "System", "_sys_init", "state[n]['off']"): "unaliased: in this branch state[n] is the fresh {} created by _sys_vars (the other branch stores the shared STATE_* constants, which are never written)",
    ("system", "System", "_child_curr", "pstate['off']"): "pstate is the fresh {} bound by the tuple assignment at the top of the function",
    ("system", "System", "batt_life", "pbar.total"): "progress bar object created by tqdm()",
    ("system", "System", "plot_interp", "Z[i, j]"): "Z is the fresh array returned by the interpolator call",
    ("diagram", None, "_diag", "gr"): "parameter of the nested helper add_node: always the pydot graph / subgraph created in this call",
}


def _funcs(src):
    out = {}
    for mname, mod in src.modules.items():
        for n in mod.tree.body:
            if isinstance(n, ast.FunctionDef): out.setdefault(n.name, []).append((mname, None, n))
            if isinstance(n, ast.ClassDef):
                for f in n.body:
                    if isinstance(f, ast.FunctionDef): out.setdefault(f.name, []).append((mname, n.name, f))
    return out


def _root(e):
    chain = []
    while isinstance(e, (ast.Attribute, ast.Subscript)):
        chain.append(e.attr if isinstance(e, ast.Attribute) else "[]"); e = e.value
    if isinstance(e, ast.Name): return e.id, list(reversed(chain))
    if isinstance(e, ast.Call): return "<call>", list(reversed(chain))
    return "<expr>", list(reversed(chain))


class FnInfo:
    def __init__(self, key, node):
        self.key, self.node = key, node
        a = node.args
        self.params = [p.arg for p in a.posonlyargs + a.args + a.kwonlyargs]
        self.kind = {}            # local name -> 'fresh' | 'alias' | 'self' | 'param:<p>'
        self.writes = []          # (lineno, text, root, chain, kind)
        self.param_writes = set() # parameters written through (summary)
        self.returns_fresh = None
        self.calls = []           # (callee name, [arg exprs], node)


def analyse(src):
    funcs = _funcs(src)
    infos = {}
    # reachable set
    todo = [k for k in ENTRY if any((m, c) == (k[0], k[1]) for (m, c, f) in funcs.get(k[2], []))]
    missing = [k for k in ENTRY if k not in todo]
    seen = set()
    while todo:
        k = todo.pop()
        if k in seen: continue
        seen.add(k)
        for (m, c, f) in funcs.get(k[2], []):
            if (m, c) != (k[0], k[1]): continue
            infos[k] = FnInfo(k, f)
            for n in ast.walk(f):
                if isinstance(n, ast.Call):
                    nm = n.func.attr if isinstance(n.func, ast.Attribute) else (n.func.id if isinstance(n.func, ast.Name) else None)
                    if nm in funcs and nm not in EDITORS:
                        for (m2, c2, f2) in funcs[nm]:
                            todo.append((m2, c2, nm))
    # fixpoint over 'returns fresh' and 'writes through parameter'
    ret_fresh = {k: True for k in infos}
    pwrites = {k: set() for k in infos}
    for _ in range(6):
        changed = False
        for k, fi in infos.items():
            rf, pw, writes, kinds = _classify(fi, infos, ret_fresh, pwrites, funcs)
            fi.writes, fi.kind = writes, kinds
            if rf != ret_fresh[k] or pw != pwrites[k]:
                ret_fresh[k], pwrites[k] = rf, pw; changed = True
        if not changed: break
    return infos, missing, ret_fresh, pwrites


def _expr_kind(v, kind, infos, ret_fresh, funcs):
    if isinstance(v, (ast.List, ast.Dict, ast.Set, ast.ListComp, ast.DictComp, ast.SetComp, ast.GeneratorExp, ast.Constant, ast.BinOp, ast.JoinedStr, ast.Compare, ast.BoolOp, ast.UnaryOp, ast.Tuple, ast.IfExp, ast.Lambda)):
        return "fresh"
    if isinstance(v, ast.Call):
        f = v.func
        nm = f.attr if isinstance(f, ast.Attribute) else (f.id if isinstance(f, ast.Name) else "")
        cands = [k for k in infos if k[2] == nm]
        if cands:
            return "fresh" if all(ret_fresh.get(k, False) for k in cands) else "alias"
        if isinstance(f, ast.Attribute):
            r, ch = _root(f.value)
            if r in FRESH_LIBS: return "fresh"
            rk = kind.get(r, "global")
            if nm in ("copy", "deepcopy", "tolist", "to_numpy", "astype", "keys", "values", "items", "unique", "sum", "max", "min", "format", "split", "strip", "to_dict", "to_frame", "to_string", "replace", "get_edge_endpoints_by_index", "node_indices", "edge_indices",
                      "successor_indices", "predecessor_indices", "in_degree", "out_degree", "tolist", "create_png", "to_list", "reshape", "index"): return "fresh"
            return "fresh" if rk == "fresh" else "alias"
        if nm in ("list", "dict", "set", "tuple", "sorted", "zip", "range", "len", "int", "float", "str", "abs", "min", "max", "sum", "any", "all", "enumerate", "reversed", "iter", "open", "isinstance", "type", "print") or nm[:1].isupper():
            return "fresh"
        if nm in ("tqdm", "_nice_float", "_gcolor"): return "fresh"
        return "alias"
    if isinstance(v, ast.Name):
        return kind.get(v.id, "global")
    if isinstance(v, (ast.Attribute, ast.Subscript)):
        r, ch = _root(v)
        rk = kind.get(r, "global")
        if rk == "fresh": return "fresh-elem"       # element of a fresh container: fresh unless something aliased was stored into it
        return "alias" if rk in ("self", "alias", "global") or rk.startswith("param") else rk
    return "alias"


def _classify(fi, infos, ret_fresh, pwrites, funcs):
    fn = fi.node
    kind = {}
    for p in fi.params:
        kind[p] = "self" if p == "self" else "param:" + p
    impure = set()      # fresh containers into which a possibly aliased value was stored
    # pass 1: local bindings (flow-insensitive join)
    def bind(name, k):
        prev = kind.get(name)
        if prev is None or prev == k: kind[name] = k
        elif "alias" in (prev, k) or prev.startswith("param") or k.startswith("param") or "self" in (prev, k) or "global" in (prev, k): kind[name] = "alias"
        else: kind[name] = "fresh" if (prev, k) in (("fresh", "fresh-elem"), ("fresh-elem", "fresh")) else k
    for _ in range(2):
        for n in ast.walk(fn):
            if isinstance(n, ast.Assign):
                for t in n.targets:
                    if isinstance(t, ast.Name): bind(t.id, _expr_kind(n.value, kind, infos, ret_fresh, funcs))
                    elif isinstance(t, (ast.Tuple, ast.List)):
                        vals = n.value.elts if isinstance(n.value, (ast.Tuple, ast.List)) and len(n.value.elts) == len(t.elts) else None
                        vk = _expr_kind(n.value, kind, infos, ret_fresh, funcs)
                        for j, tt in enumerate(t.elts):
                            if isinstance(tt, ast.Name): bind(tt.id, _expr_kind(vals[j], kind, infos, ret_fresh, funcs) if vals else ("fresh" if vk == "fresh" else "alias"))
            elif isinstance(n, ast.For):       # comprehension targets live in their own scope and do not rebind locals
                ik = _expr_kind(n.iter, kind, infos, ret_fresh, funcs)
                for tt in ast.walk(n.target):
                    if isinstance(tt, ast.Name): bind(tt.id, "fresh" if ik in ("fresh",) else ("fresh-elem" if ik == "fresh-elem" else "alias"))
            elif isinstance(n, ast.With):
                for it in n.items:
                    if isinstance(it.optional_vars, ast.Name): bind(it.optional_vars.id, "fresh")
            elif isinstance(n, ast.AugAssign) and isinstance(n.target, ast.Name):
                pass
    # stores of aliased values into fresh containers make their elements potentially aliased
    for n in ast.walk(fn):
        if isinstance(n, ast.Assign):
            for t in n.targets:
                for tt in (t.elts if isinstance(t, (ast.Tuple, ast.List)) else [t]):
                    if isinstance(tt, ast.Subscript):
                        r, ch = _root(tt)
                        if kind.get(r) == "fresh" and _expr_kind(n.value, kind, infos, ret_fresh, funcs) in ("alias", "self", "global") and len(ch) == 1:
                            impure.add(r)
    writes, pw = [], set()
    def note(node, target, how):
        r, ch = _root(target)
        k = kind.get(r, "global")
        text = ast.unparse(target)
        if k in ("fresh",) and not (r in impure and len(ch) >= 2): return
        if k == "fresh-elem": k = "fresh-elem"
        writes.append((node.lineno, how, text, r, ch, k))
        if k.startswith("param:"): pw.add(k.split(":", 1)[1])
    for n in ast.walk(fn):
        tg = []
        if isinstance(n, ast.Assign): tg = [x for t in n.targets for x in (t.elts if isinstance(t, (ast.Tuple, ast.List)) else [t])]
        elif isinstance(n, ast.AugAssign): tg = [n.target]
        elif isinstance(n, ast.Delete): tg = [x for t in n.targets for x in (t.elts if isinstance(t, (ast.List, ast.Tuple)) else [t])]
        for t in tg:
            if isinstance(t, ast.Name): continue
            note(n, t, "store" if not isinstance(n, ast.Delete) else "del")
        if isinstance(n, ast.Call) and isinstance(n.func, ast.Attribute):
            inplace = any(kw.arg == "inplace" and getattr(kw.value, "value", False) for kw in n.keywords)
            if n.func.attr in MUTATORS or inplace:
                note(n, n.func.value, "call ." + n.func.attr)
        if isinstance(n, ast.Call):
            nm = n.func.attr if isinstance(n.func, ast.Attribute) else (n.func.id if isinstance(n.func, ast.Name) else None)
            for ck in [k for k in infos if k[2] == nm]:
                callee = infos[ck]
                ps = [p for p in callee.params if p != "self"]
                binding = dict(zip(ps, n.args)); binding.update({kw.arg: kw.value for kw in n.keywords if kw.arg})
                for p in pwrites.get(ck, ()):
                    if p in binding:
                        ak = _expr_kind(binding[p], kind, infos, ret_fresh, funcs)
                        if ak not in ("fresh",):
                            r, ch = _root(binding[p]) if isinstance(binding[p], (ast.Name, ast.Attribute, ast.Subscript)) else ("<expr>", [])
                            writes.append((n.lineno, "passes %s to %s which writes through its parameter %s" % (ast.unparse(binding[p]), nm, p), ast.unparse(binding[p]), r, ch, kind.get(r, ak)))
                            if kind.get(r, "").startswith("param:"): pw.add(kind[r].split(":", 1)[1])
    rets = [r.value for r in ast.walk(fn) if isinstance(r, ast.Return) and r.value is not None]
    rf = all(_expr_kind(r, kind, infos, ret_fresh, funcs) in ("fresh",) for r in rets) if rets else True
    return rf, pw, writes, kind


def frame_obligations(run, src):
    infos, missing, ret_fresh, pwrites = analyse(src)
    for k in missing:
        run.undecide("frame/%s.%s" % (k[1] or k[0], k[2]), "entry point not found")
    n_sites = 0
    for k, fi in sorted(infos.items(), key=lambda kv: (kv[0][0], kv[0][1] or "", kv[0][2])):
        qn = "%s.%s%s" % (k[0], (k[1] + ".") if k[1] else "", k[2])
        for (ln, how, text, r, ch, kd) in fi.writes:
            n_sites += 1
            oid = "frame/%s:%s %s" % (qn, how.split(" ")[0] if how.startswith("call") or how in ("store", "del") else "arg", text)
            ok, why = False, ""
            if kd == "self" and ch and ch[0] in SCRATCH: ok, why = True, "scratch attribute of System"
            elif kd == "self" and ch[:3] == ["_g", "attrs", "[]"] and "hidx" in text: ok, why = True, "scratch key hidx"
            elif k[2] == "batt_life" and ("_params['vo']" in text or "_params['rs']" in text or '_params["vo"]' in text or '_params["rs"]' in text): ok, why = True, "battery vo/rs (restoration obligation)"
            elif kd.startswith("param:") and k not in [e for e in ENTRY]: ok, why = True, "through a parameter (discharged at the call sites)"
            elif (k[0], k[1], k[2], text) in ANNOTATIONS: ok, why = True, "annotation: " + ANNOTATIONS[(k[0], k[1], k[2], text)]; run.assumed.add("frame annotation %s %s: %s" % (qn, text, ANNOTATIONS[(k[0], k[1], k[2], text)]))
            elif kd == "fresh-elem": ok, why = True, "element of a container allocated in this call"
            if ok:
                run.record(oid + " [%s]" % why, True, backend="ast", kind="frame")
            else:
                run.undecide(oid, "write may reach persistent state (target rooted at %s '%s', line %d): not discharged by the may-write analysis" % (kd, r, ln))
    run.functions.update("%s.%s%s" % (k[0], (k[1] + ".") if k[1] else "", k[2]) + " (frame)" for k in infos)
    run.notes.append("frame analysis: %d functions reachable from the %d analysis entry points, %d write sites classified" % (len(infos), len(ENTRY), n_sites))
    run.trusted.add("library calls (numpy, pandas, rustworkx queries, pydot, matplotlib, json, copy) return fresh objects and do not write to their arguments")
    return n_sites
