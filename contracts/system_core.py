"""Side-car contracts for the solver core of sysloss/system.py (layer P): _child_curr, _fwd_prop, _back_prop, _sys_init,
_set_phase_lkup, _solve, _calc_energy, _find_domain, _get_parent_name and the mechanically located slices of solve().

The tree never appears concretely: nodes are symbolic integers, the graph is an abstract heap of uninterpreted functions
(parents / children / selected input), libraries enter through assumed contracts.  Loop specs are keyed by
(function, loop kind, ordinal)."""
import ast, z3
from pyvc import *
from pyvc.engine import PyRaise
from pyvc.engine import LoopSpec
from pyvc import solver

I, Rl, Bo = z3.IntSort(), z3.RealSort(), z3.BoolSort()


class Heap:
    """abstract graph: uninterpreted functions over node indices (assumed contract of rustworkx + _get_parents/_get_childs:
    '-1' for roots / leaves else index lists, mux parents in priority order)"""

    def __init__(self, tag=""):
        f = lambda n, *s: z3.Function(n + tag, *s)
        self.NCH, self.CH, self.LEAF = f("n_childs", I, I), f("child", I, I, I), f("is_leaf", I, Bo)
        self.NPA, self.PA, self.ROOT = f("n_parents", I, I), f("parent", I, I, I), f("is_root", I, Bo)
        self.SEL = f("pri_inp", I, I)                 # result of _get_pri_inp of node c on its parents' (off, v)
        self.NAME, self.KINDSRC, self.KINDMUX = f("name_of", I, NAME), f("is_source", I, Bo), f("is_pmux", I, Bo)
        self.RAIL, self.GROUP = f("rail_of", NAME, NAME), f("group_of", NAME, NAME)
        self.RS = f("rs_of", I, Rl)
        self.LK = f("phase_conf_of", I, I)            # identity of the phase configuration object of node n
        self.TOPO, self.NTOPO = f("topo", I, I), z3.Int("n_topo" + tag)
        self.HIDX = z3.Int("hidx" + tag)

    def childs(self, n):
        n = to_z(n)
        return Opt(self.LEAF(n), Seq(self.NCH(n), lambda j, n=n: SV(self.CH(n, j), "int")))

    def parents(self, n):
        n = to_z(n)
        return Opt(self.ROOT(n), Seq(self.NPA(n), lambda j, n=n: SV(self.PA(n, j), "int")))

    def facts(self, n):
        """graph facts for a node (from _get_parents/_get_childs): non-root <=> at least one parent, etc."""
        n = to_z(n)
        return [self.ROOT(n) == (self.NPA(n) < 1), self.NPA(n) >= 0, self.LEAF(n) == (self.NCH(n) < 1), self.NCH(n) >= 0,
                self.SEL(n) >= -1, self.SEL(n) < z3.If(self.NPA(n) > 0, self.NPA(n), 1)]


class ArrVal:
    """mutable array value (numpy vector / list indexed by node): z3 Array + store log"""

    def __init__(self, arr, label):
        self.arr, self.label, self.stores = arr, label, []


def arr_hmap(av, sort="real", on_store=None):
    def get(idx): return SV(z3.Select(av.arr, to_z(idx)), sort)
    def set_(idx, v):
        av.stores.append((to_z(idx), v))
        if on_store: on_store(idx, v)
        av.arr = z3.Store(av.arr, to_z(idx), to_z(v, "real") if sort == "real" else to_z(v))
    h = HMap(get, set_, label=av.label)
    h.av = av
    return h


def state_hmap(OFF):
    """state[n]['off'][0] -> OFF[n]"""
    return HMap(lambda n: {"off": Seq(z3.IntVal(1), lambda j, n=n: SV(z3.Select(OFF, to_z(n)), "bool"))}, label="state")


def method_node(src, name):
    _, node = src.method("System", name)
    return node


# =================================================================================================== _child_curr
def child_curr(run, src):
    qual = "system.System._child_curr"
    H = Heap()
    node = z3.Int("node")
    iv, vv, OFF = z3.Array("i", I, Rl), z3.Array("v", I, Rl), z3.Array("state_off", I, Bo)
    SUM = z3.Function("S", I, Rl)
    kk = z3.Int("kk")
    def term(c):
        sel, npa = H.SEL(c), H.NPA(c)
        return z3.If(z3.And(sel != -1, npa > 1), z3.If(H.PA(c, sel) == node, z3.Select(iv, c), z3.RealVal(0)), z3.Select(iv, c))
    axioms = [SUM(0) == 0, z3.ForAll([kk], z3.Implies(kk >= 0, SUM(kk + 1) == SUM(kk) + term(H.CH(node, kk)))),
              z3.Not(H.LEAF(node)), H.NCH(node) >= 0,
              z3.ForAll([kk], z3.And(z3.Not(H.ROOT(H.CH(node, kk))), H.NPA(H.CH(node, kk)) >= 1))]      # children have a parent (graph fact)
    eng = Engine(src)
    def comp(c):
        def pri(e, pstate, vc, c=c):
            cz = to_z(c)
            j = e.fresh("j", "int").z
            offs, vcs = pstate["off"], vc
            if not isinstance(offs, Seq) or not isinstance(vcs, Seq):
                e.oblige(qual + "/call:_get_pri_inp(args are the child's parents' flags and voltages)", z3.BoolVal(False), kind="callsite")
                return SV(H.SEL(cz), "int")
            goal = z3.And(offs.ln == H.NPA(cz), vcs.ln == H.NPA(cz),
                          z3.Implies(z3.And(j >= 0, j < H.NPA(cz)),
                                     z3.And(to_z(offs.elem(j)) == z3.Select(OFF, H.PA(cz, j)), to_z(vcs.elem(j), "real") == z3.Select(vv, H.PA(cz, j)))))
            e.oblige(qual + "/call:_get_pri_inp(args are the child's parents' flags and voltages)", goal, kind="callsite")
            return SV(H.SEL(cz), "int")
        return Opaque("comp", methods={"_get_pri_inp": pri})
    selfobj = Opaque("self", attrs={"_childs": HMap(H.childs, label="self._childs"), "_parents": HMap(H.parents, label="self._parents"), "_g": HMap(comp, label="self._g")})
    eng.loop_specs[(qual, "For", 0)] = LoopSpec(qual + "/for-children", inv=lambda env, k: to_z(env["io"], "real") == SUM(k))
    def thunk(e):
        for a in axioms: e.assume(a)
        return e.call_method(selfobj, "_child_curr", [SV(node, "int"), arr_hmap(ArrVal(iv, "i")), arr_hmap(ArrVal(vv, "v")), state_hmap(OFF)])
    selfobj.cls = "System"
    try:
        paths = eng.explore(thunk)
    except (Unsupported, FunctionMissing) as u:
        run.undecide(qual + "/post", str(u)); return None
    run.functions.update(eng.inlined)
    obls = list(eng.obligations)
    for pi, p in enumerate(paths):
        if p.kind == "return":
            obls.append({"id": qual + "/post:result==sum of the currents of the children this node feeds@p%d" % pi, "hyps": p.pc, "goal": to_z(p.value, "real") == SUM(H.NCH(node)), "kind": "post", "meta": {}})
            obls.append({"id": qual + "/canary@p%d" % pi, "hyps": p.pc, "goal": to_z(p.value, "real") == SUM(H.NCH(node)) + 1, "kind": "canary", "meta": {}})
        elif p.kind == "raise":
            obls.append({"id": qual + "/never-raises@p%d" % pi, "hyps": p.pc, "goal": z3.BoolVal(False), "kind": "post", "meta": {}})
        for s in p.side:
            if s["what"].startswith("index"):       # indices come from the graph's own lists
                continue
            obls.append({"id": qual + "/safety:%s@[%s]" % (s["what"], s["at"]), "hyps": s["hyps"], "goal": s["goal"], "kind": "safety", "meta": {}})
    run.assumed.add("rustworkx / System._get_parents/_get_childs: '-1' for roots/leaves, else index lists; children of a node have at least one parent")
    return obls


# =================================================================================================== _fwd_prop / _back_prop
def propagation(run, src, which):
    """which: '_fwd_prop' | '_back_prop'.  Contract: for every node n of the topological order the kind's law is invoked
    with exactly (parents' voltages | own voltage for a root, i[n] | 0, attributed child current | 0 for a leaf,
    the phase being solved, the node's own phase configuration, the parents' off flags) and its result lands at index n."""
    qual = "system.System." + which
    H = Heap()
    iv, vv, OFF = z3.Array("i", I, Rl), z3.Array("v", I, Rl), z3.Array("state_off", I, Bo)
    CC = z3.Function("child_curr", I, Rl)                    # contract of _child_curr (proved separately): a function of the node (and i, v, state)
    LAW = z3.Function("law_" + which, I, Rl)                 # the callee's result for node n given the arguments demanded below
    LAWS = z3.Function("lawstate_" + which, I, Bo)
    phase = SV(z3.Const("phase", NAME), "name")
    eng = Engine(src)
    nvar = {}
    def comp(n):
        nz = to_z(n)
        def law(e, vi, mid, io, ph, pconf, pstate, nz=nz):
            j = e.fresh("j", "int").z
            root = H.ROOT(nz)
            conds = []
            # vi
            if isinstance(vi, Seq):
                conds.append(z3.And(z3.Not(root), vi.ln == H.NPA(nz), z3.Implies(z3.And(j >= 0, j < H.NPA(nz)), to_z(vi.elem(j), "real") == z3.Select(vv, H.PA(nz, j)))))
            elif isinstance(vi, list) and len(vi) == 1:
                conds.append(z3.And(root, to_z(vi[0], "real") == z3.Select(vv, nz)))
            else:
                conds.append(z3.BoolVal(False))
            # ii (fwd) / vo (back)
            if which == "_fwd_prop":
                conds.append(to_z(mid, "real") == z3.If(root, z3.RealVal(0), z3.Select(iv, nz)))
            else:
                conds.append(to_z(mid, "real") == z3.If(H.LEAF(nz), z3.RealVal(0), z3.Select(vv, nz)))
            conds.append(to_z(io, "real") == z3.If(H.LEAF(nz), z3.RealVal(0), CC(nz)))
            conds.append(e.equal(ph, phase) if not isinstance(e.equal(ph, phase), bool) else z3.BoolVal(e.equal(ph, phase)))
            conds.append(to_z(pconf) == H.LK(nz) if is_sym(pconf) else z3.BoolVal(False))
            offs = pstate.get("off") if isinstance(pstate, dict) else None
            if isinstance(offs, Seq):
                conds.append(z3.If(root, z3.And(offs.ln == 1, to_z(offs.elem(z3.IntVal(0))) == z3.Select(OFF, nz)),
                                   z3.And(offs.ln == H.NPA(nz), z3.Implies(z3.And(j >= 0, j < H.NPA(nz)), to_z(offs.elem(j)) == z3.Select(OFF, H.PA(nz, j))))))
            else:
                conds.append(z3.BoolVal(False))
            names = ["vi=parents' voltages (root: own)", "ii/vo argument", "io=attributed child current (leaf: 0)", "phase being solved", "node's own phase configuration", "pstate=parents' off flags (root: own)"]
            for nm, c in zip(names, conds):
                e.oblige("%s/call:%s(%s)" % (qual, "_solv_outp_volt" if which == "_fwd_prop" else "_solv_inp_curr", nm), c, kind="callsite")
            if which == "_fwd_prop":
                return (SV(LAW(nz), "real"), {"off": [SV(LAWS(nz), "bool")]})
            return SV(LAW(nz), "real")
        return Opaque("comp", methods={"_solv_outp_volt": law, "_solv_inp_curr": law})
    def cc(e, recv, args, kwargs):
        n, i_, v_, st = args
        ok = z3.And(*[z3.BoolVal(isinstance(x, HMap)) for x in (i_, v_, st)])
        e.oblige(qual + "/call:_child_curr(node, i, v, state)", z3.And(ok, z3.BoolVal(getattr(i_, "label", "") == "i" and getattr(v_, "label", "") == "v" and getattr(st, "label", "") == "state")), kind="callsite")
        return SV(CC(to_z(n)), "real")
    eng.overrides["system.System._child_curr"] = cc
    gattrs = HMap(lambda key: {"hidx": SV(H.HIDX, "int")}[key], label="self._g.attrs")
    g = HMap(comp, label="self._g"); g.attrs = {"attrs": gattrs}
    topo = Seq(H.NTOPO, lambda j: SV(H.TOPO(j), "int"), "self._topo_nodes")
    selfobj = Opaque("self", cls="System", attrs={"_childs": HMap(H.childs), "_parents": HMap(H.parents), "_g": g, "_topo_nodes": topo,
                                                  "_phase_lkup": HMap(lambda n: SV(H.LK(to_z(n)), "int"), label="self._phase_lkup")})
    out_name = "vo" if which == "_fwd_prop" else "ii"
    jj = z3.Int("jj")
    def order(k):       # position in the iteration -> node
        return H.TOPO(k) if which == "_fwd_prop" else H.TOPO(H.NTOPO - 1 - k)
    def inv(env, k):
        # stated over positions q of the topological order (syntactic instantiation; the reversed loop fills from the end)
        arr = env[out_name].av.arr
        rng = z3.And(jj >= 0, jj < k) if which == "_fwd_prop" else z3.And(jj >= H.NTOPO - k, jj < H.NTOPO)
        return z3.ForAll([jj], z3.Implies(rng, z3.Select(arr, H.TOPO(jj)) == LAW(H.TOPO(jj))))
    def fresh_arr(e, old):
        e.fresh_n += 1
        return arr_hmap(ArrVal(z3.Array("%s!%d" % (out_name, e.fresh_n), I, Rl), out_name))
    hv = {out_name: fresh_arr}
    if which == "_fwd_prop":
        hv["ostate"] = lambda e, old: HMap(lambda n: {"off": [SV(LAWS(to_z(n)), "bool")]}, set_=lambda idx, v: None, label="ostate")
    eng.loop_specs[(qual, "For", 0)] = LoopSpec(qual + "/for-topo", inv=inv, havoc=hv)
    eng.np.methods["zeros"] = lambda e, n, **k: arr_hmap(ArrVal(z3.K(I, z3.RealVal(0)), out_name))
    from pyvc.engine import BUILTINS, Builtin
    eng.extra_globals["range"] = Builtin("range", lambda e, *a: Seq(to_z(a[0]), lambda j: SV(j, "int")) if (len(a) == 1 and is_sym(a[0])) else range(*a))
    distinct = z3.ForAll([jj, z3.Int("j2")], z3.Implies(z3.And(jj >= 0, z3.Int("j2") >= 0, jj < H.NTOPO, z3.Int("j2") < H.NTOPO, jj != z3.Int("j2")), H.TOPO(jj) != H.TOPO(z3.Int("j2"))))
    nn = z3.Int("nn")
    facts = z3.ForAll([nn], z3.And(*H.facts(nn)))
    def thunk(e):
        e.assume(H.NTOPO >= 0); e.assume(distinct); e.assume(facts)
        return e.call_method(selfobj, which, [arr_hmap(ArrVal(vv, "v")), arr_hmap(ArrVal(iv, "i")), phase, state_hmap(OFF)])
    try:
        paths = eng.explore(thunk)
    except (Unsupported, FunctionMissing) as u:
        run.undecide(qual + "/post", str(u)); return None
    run.functions.update(eng.inlined)
    obls = list(eng.obligations)
    m = z3.Int("m")
    for pi, p in enumerate(paths):
        if p.kind == "return":
            res = p.value[0] if which == "_fwd_prop" else p.value
            arr = res.av.arr if hasattr(res, "av") else None
            if arr is None:
                obls.append({"id": qual + "/post@p%d" % pi, "hyps": p.pc, "goal": z3.BoolVal(False), "kind": "post", "meta": {}}); continue
            goal = z3.Implies(z3.And(m >= 0, m < H.NTOPO), z3.Select(arr, H.TOPO(m)) == LAW(H.TOPO(m)))
            obls.append({"id": qual + "/post:every node of the topological order holds its law's result@p%d" % pi, "hyps": p.pc, "goal": goal, "kind": "post", "meta": {}})
            obls.append({"id": qual + "/canary@p%d" % pi, "hyps": p.pc + [m >= 0, m < H.NTOPO], "goal": z3.Select(arr, H.TOPO(m)) == LAW(H.TOPO(m)) + 1, "kind": "canary", "meta": {}})
        elif p.kind == "raise":
            obls.append({"id": qual + "/raises-only-what-the-law-raises@p%d" % pi, "hyps": p.pc, "goal": z3.BoolVal(False), "kind": "post", "meta": {}})
    run.assumed.add("rustworkx.topological_sort: each live node exactly once (no repetition)")
    run.assumed.add("numpy: np.zeros(n) is a fresh vector of n zeros; vector element store/load")
    return obls


def e_fresh_int(eng):
    return eng.fresh("attr", "int")


# =================================================================================================== _solve
def solve_loop(run, src):
    """while-loop with break/else; _sys_init/_fwd_prop/_back_prop/np.allclose through their contracts (uninterpreted).
    post: 1 <= iters <= maxiter+1; iters <= maxiter => the RETURNED (v, i) reproduce themselves within tolerance under one
    more evaluation; at most maxiter sweeps; termination (variant)."""
    qual = "system.System._solve"
    Vec, State = z3.DeclareSort("Vec"), z3.DeclareSort("State")
    FV = z3.Function("F_v", Vec, Vec, State, Vec); FS = z3.Function("F_state", Vec, Vec, State, State); BI = z3.Function("F_i", Vec, Vec, State, Vec)
    CLOSE = z3.Function("allclose", Vec, Vec, Rl, Bo)
    v0, i0 = z3.Consts("v0 i0", Vec); s0 = z3.Const("s0", State)
    maxiter = z3.Int("maxiter"); vtol, itol = z3.Reals("vtol itol")
    phase = SV(z3.Const("phase", NAME), "name")
    eng = Engine(src)
    def ghost_inc(e):
        loc = e.frames[-1].locals
        loc["__sweeps"] = SV(to_z(loc.get("__sweeps", 0)) + 1, "int")
    def sys_init(e, recv, args, kw):
        e.oblige(qual + "/call:_sys_init(phase)", e.equal(args[0], phase) if not isinstance(e.equal(args[0], phase), bool) else z3.BoolVal(e.equal(args[0], phase)), kind="callsite")
        e.frames[-1].locals["__sweeps"] = SV(z3.IntVal(0), "int")
        return (SV(v0), SV(i0), SV(s0))
    def fwd(e, recv, args, kw):
        v, i, ph, st = args
        ghost_inc(e)
        return (SV(FV(v.z, i.z, st.z)), SV(FS(v.z, i.z, st.z)))
    def back(e, recv, args, kw):
        v, i, ph, st = args
        return SV(BI(v.z, i.z, st.z))
    eng.overrides["system.System._sys_init"] = sys_init
    eng.overrides["system.System._fwd_prop"] = fwd
    eng.overrides["system.System._back_prop"] = back
    CLOSE_A = z3.Function("allclose_atol", Vec, Vec, Rl, Rl, Bo)
    def allclose(e, a, b, rtol=None, atol=None, **k):
        if k: raise Unsupported("np.allclose with %s" % sorted(k))
        if rtol is None: raise Unsupported("np.allclose without rtol")
        if atol is None or (not is_sym(atol) and float(atol) == 1e-8):
            return SV(CLOSE(a.z, b.z, to_z(rtol, "real")), "bool")           # numpy's default absolute tolerance
        return SV(CLOSE_A(a.z, b.z, to_z(rtol, "real"), to_z(atol, "real")), "bool")     # another absolute tolerance is another predicate
    eng.np.methods["allclose"] = allclose
    SLICE = z3.Function("vec_slice", Vec, I, I, Vec)     # a part of a vector is not the vector: agreement on a slice does not give convergence
    eng.opaque_slice = lambda e, b, lo, hi, st: SV(SLICE(b.z, to_z(lo) if lo is not None else z3.IntVal(0), to_z(hi) if hi is not None else z3.IntVal(-1)))
    from pyvc.engine import Builtin
    eng.extra_globals["len"] = Builtin("len", lambda e, x: e.fresh("len", "int") if (is_sym(x) or isinstance(x, (Opaque, HMap, Seq))) else len(x))
    selfattrs = {"_topo_nodes": Opaque("topo"), "_g": Opaque("g", attrs={"attrs": HMap(lambda k: e_fresh_int(eng))})}
    eng.assumed_used.add("np.allclose")
    def inv(env, k):
        it = to_z(env["iters"])
        return z3.And(it >= 0, it <= maxiter, to_z(env["__sweeps"]) == it)
    eng.loop_specs[(qual, "While", 0)] = LoopSpec(qual + "/while", inv=inv, variant=lambda env: maxiter - to_z(env["iters"]), ghost=["__sweeps"])
    selfobj = Opaque("self", cls="System", attrs=selfattrs)
    def thunk(e):
        e.assume(maxiter >= 0)
        r = e.call_method(selfobj, "_solve", [SV(vtol, "real"), SV(itol, "real"), SV(maxiter, "int"), SV(z3.Bool("quiet"), "bool"), phase])
        e.path_extra["sweeps"] = None
        return r
    # the ghost counter lives in _solve's frame; expose it at return through a wrapper of st_Return
    orig_ret = eng.st_Return
    def st_Return(s):
        loc = eng.frames[-1].locals
        if "__sweeps" in loc and eng.frames[-1].fn is not None and eng.frames[-1].fn.name == "_solve":
            eng.path_extra["sweeps_at_return"] = loc["__sweeps"]
        return orig_ret(s)
    eng.st_Return = st_Return
    try:
        paths = eng.explore(thunk)
    except (Unsupported, FunctionMissing) as u:
        run.undecide(qual + "/post", str(u)); return None
    run.functions.update(eng.inlined)
    obls = list(eng.obligations)
    for pi, p in enumerate(paths):
        if p.kind == "return":
            try:
                v, i, iters, state = p.value
                it = to_z(iters)
                fv = FV(v.z, i.z, state.z)
                conv = z3.And(CLOSE(v.z, fv, vtol), CLOSE(i.z, BI(fv, i.z, state.z), itol))
            except Exception as ex:
                obls.append({"id": qual + "/post@p%d" % pi, "hyps": p.pc, "goal": z3.BoolVal(False), "kind": "post", "meta": {"detail": str(ex)}}); continue
            obls.append({"id": qual + "/post:1<=iters<=maxiter+1@p%d" % pi, "hyps": p.pc, "goal": z3.And(it >= 1, it <= maxiter + 1), "kind": "post", "meta": {}})
            obls.append({"id": qual + "/post:iters<=maxiter=>returned iterate reproduces itself within tolerance@p%d" % pi, "hyps": p.pc, "goal": z3.Implies(it <= maxiter, conv), "kind": "post", "meta": {}})
            sw = p.extra.get("sweeps_at_return")
            obls.append({"id": qual + "/post:at most maxiter sweeps@p%d" % pi, "hyps": p.pc, "goal": (to_z(sw) <= maxiter) if sw is not None else z3.BoolVal(False), "kind": "post", "meta": {"finding_key": "D19"}})
            obls.append({"id": qual + "/canary@p%d" % pi, "hyps": p.pc, "goal": z3.Implies(it <= maxiter, z3.And(conv, CLOSE(v.z, v.z, vtol))), "kind": "canary", "meta": {}})
        elif p.kind == "raise":
            obls.append({"id": qual + "/never-raises-itself@p%d" % pi, "hyps": p.pc, "goal": z3.BoolVal(False), "kind": "post", "meta": {}})
    run.assumed.add("np.allclose(a, b, rtol=t): a deterministic predicate of (a, b, t) (numpy; default atol 1e-8)")
    return obls


# =================================================================================================== _calc_energy
def calc_energy(run, src):
    qual = "system.System._calc_energy"
    DUR = z3.Function("dur", NAME, Rl)
    NPH = z3.Int("n_phases"); PHN = z3.Function("phase_name", I, NAME)
    SUMD = z3.Function("Sdur", I, Rl); kk = z3.Int("kk")
    pwr = z3.Real("pwr"); ph = z3.Const("ph", NAME)
    keys = Seq(NPH, lambda j: SV(PHN(j), "name"), "phases.keys()")
    phases = Opaque("phases", methods={"keys": lambda e: keys}, getitem=lambda e, k: SV(DUR(to_z(k)), "real"))
    gattrs = HMap(lambda key: {"phases": phases}[key], label="self._g.attrs")
    g = HMap(lambda n: None); g.attrs = {"attrs": gattrs}
    selfobj = Opaque("self", cls="System", attrs={"_g": g})
    axioms = [SUMD(0) == 0, z3.ForAll([kk], z3.Implies(kk >= 0, SUMD(kk + 1) == SUMD(kk) + DUR(PHN(kk)))), NPH >= 0]
    eng = Engine(src)
    eng.loop_specs[(qual, "For", 0)] = LoopSpec(qual + "/for-phases", inv=lambda env, k: to_z(env["tot_time"], "real") == SUMD(k))
    obls = []
    for case, phv, hyp in (("phase==''", "", []), ("phase!=''", SV(ph, "name"), [ph != name_const(""), SUMD(NPH) > 0])):
        def thunk(e, phv=phv, hyp=hyp):
            for a in axioms + hyp: e.assume(a)
            return e.call_method(selfobj, "_calc_energy", [phv, SV(pwr, "real")])
        try:
            paths = eng.explore(thunk)
        except (Unsupported, FunctionMissing) as u:
            run.undecide(qual + "/post[%s]" % case, str(u)); continue
        for pi, p in enumerate(paths):
            if p.kind == "return":
                exp = pwr * 24 if isinstance(phv, str) else (DUR(ph) / 3600) * pwr * (86400 / SUMD(NPH))
                obls.append({"id": "%s/post[%s]:energy = power x share of 24 h@p%d" % (qual, case, pi), "hyps": p.pc, "goal": to_z(p.value, "real") == exp, "kind": "post", "meta": {}})
                obls.append({"id": "%s/canary[%s]@p%d" % (qual, case, pi), "hyps": p.pc, "goal": to_z(p.value, "real") == exp + 1, "kind": "canary", "meta": {}})
            elif p.kind == "raise":
                obls.append({"id": "%s/never-raises[%s]@p%d" % (qual, case, pi), "hyps": p.pc, "goal": z3.BoolVal(False), "kind": "post", "meta": {}})
            for s in p.side:
                if z3.is_true(z3.simplify(s["goal"])) or s["what"].startswith("index"): continue
                obls.append({"id": "%s/safety[%s]:%s@[%s]" % (qual, case, s["what"], s["at"]), "hyps": s["hyps"], "goal": s["goal"], "kind": "safety", "meta": {}})
    run.functions.update(eng.inlined)
    obls = list(eng.obligations) + obls
    run.notes.append("_calc_energy requires sum of phase durations > 0 when phases are defined (input assumption: durations are positive)")
    return obls


# =================================================================================================== solve(): slices
def locate_solve(src):
    """mechanical location (structural, not by line number) of the units of System.solve"""
    fn = method_node(src, "solve")
    outer = next((n for n in fn.body if isinstance(n, ast.For) and isinstance(n.iter, ast.Name) and n.iter.id == "phase_list"), None)
    if outer is None: raise FunctionMissing("solve: 'for ... in phase_list' not found")
    prelude = fn.body[:fn.body.index(outer)]
    inner = next((n for n in outer.body if isinstance(n, ast.For) and ast.unparse(n.iter) == "self._topo_nodes"), None)
    if inner is None: raise FunctionMissing("solve: 'for n in self._topo_nodes' not found")
    k = outer.body.index(inner)
    phase_prelude = outer.body[:k]
    # column-map block: from 'res = {}' to the statement before 'df = pd.DataFrame(res)'
    a = next((j for j, s in enumerate(outer.body) if isinstance(s, ast.Assign) and ast.unparse(s.targets[0]) == "res"), None)
    b = next((j for j, s in enumerate(outer.body) if isinstance(s, ast.Assign) and "DataFrame" in ast.unparse(s.value)), None)
    if a is None or b is None: raise FunctionMissing("solve: column-map block not found")
    dropped = ["aggregation rows / pandas post-processing of solve() (decided by the bounded table oracle)"]
    return fn, prelude, outer, phase_prelude, inner, outer.body[a:b], dropped


def solve_slices(run, src):
    """obligations for: prelude (phase selection), per-phase prelude (_solve call, RuntimeError), per-node slice + column map."""
    qual = "system.System.solve"
    try:
        fn, prelude, outer, phase_prelude, inner, colblock, dropped = locate_solve(src)
    except FunctionMissing as m:
        run.undecide(qual + "/slices", str(m)); return None
    run.notes.append("solve() is verified as mechanically located slices; dropped by extraction: %s" % dropped)
    obls = []
    obls += _solve_prelude(run, src, fn, prelude, outer, phase_prelude)
    obls += _solve_node_slice(run, src, fn, inner, colblock)
    run.functions.add("system.System.solve (slices: prelude, per-phase prelude, per-node body, column map)")
    return obls


def _param_defaults(fn):
    """parameters of a function that have a literal default -> {name: value}: a contract that calls the function without
    naming a (new) optional parameter sees it at its default, like every caller that does not use the new feature"""
    a = fn.args
    out = {}
    pos = a.posonlyargs + a.args
    for p_, d_ in zip(pos[len(pos) - len(a.defaults):], a.defaults):
        try: out[p_.arg] = ast.literal_eval(d_)
        except Exception: pass
    for p_, d_ in zip(a.kwonlyargs, a.kw_defaults):
        if d_ is None: continue
        try: out[p_.arg] = ast.literal_eval(d_)
        except Exception: pass
    return out


def _solve_prelude(run, src, fn, prelude, outer, phase_prelude):
    qual = "system.System.solve/prelude"
    obls = []
    PHDEF = z3.Function("phase_defined", NAME, Bo); NPH = z3.Int("n_phases")
    phase = z3.Const("phase_arg", NAME)
    keysobj = Opaque("phases.keys", contains=lambda e, item: PHDEF(to_z(item)),
                     methods={"len": lambda e: SV(NPH, "int"), "eq": lambda e, other: (NPH <= 0) if (isinstance(other, (list, tuple)) and len(other) == 0) else (_ for _ in ()).throw(Unsupported("phase names compared with a non-empty literal"))},
                     truth=lambda e: NPH > 0)
    phases = Opaque("phases", methods={"keys": lambda e: keysobj})
    gattrs = HMap(lambda key: {"phases": phases}[key], label="self._g.attrs")
    g = HMap(lambda n: None); g.attrs = {"attrs": gattrs}
    eng = Engine(src)
    from pyvc.engine import Builtin
    eng.extra_globals["list"] = Builtin("list", lambda e, x=(): x if isinstance(x, Opaque) else list(e.iterate(x)))
    eng.overrides["system.System._rel_update"] = lambda e, recv, a, k: e.event("rel_update")
    selfobj = Opaque("self", cls="System", attrs={"_g": g})
    def thunk(e):
        e.assume(NPH >= 0)
        env = _param_defaults(fn)
        env.update({"self": selfobj, "phase": SV(phase, "name"), "vtol": SV(z3.Real("vtol")), "itol": SV(z3.Real("itol")), "maxiter": SV(z3.Int("maxiter")),
               "quiet": SV(z3.Bool("quiet")), "energy": SV(z3.Bool("energy")), "ta": SV(z3.Real("ta")), "tags": {}})
        e.run_block("system", "System", prelude, env, fn)
        return env.get("phase_list")
    try:
        paths = eng.explore(thunk)
    except (Unsupported, FunctionMissing) as u:
        run.undecide(qual, str(u)); return obls
    empty = name_const("")
    for pi, p in enumerate(paths):
        unknown = z3.And(phase != empty, z3.Not(PHDEF(phase)))
        if p.kind == "raise":
            obls.append({"id": qual + ":ValueError only for an unknown phase@p%d" % pi, "hyps": p.pc, "goal": z3.And(z3.BoolVal(p.value.etype == "ValueError"), unknown), "kind": "post", "tags": ["C06"], "meta": {}})
        else:
            pl = p.value
            if isinstance(pl, list) and len(pl) == 1:
                want = z3.And(z3.Not(unknown), z3.If(phase != empty, to_z(pl[0]) == phase, z3.And(NPH <= 0, to_z(pl[0]) == empty)))
            elif pl is keysobj:
                want = z3.And(phase == empty, NPH > 0)
            else:
                want = z3.BoolVal(False)
            obls.append({"id": qual + ":phase_list is [phase] | all declared phases | ['']@p%d" % pi, "hyps": p.pc, "goal": want, "kind": "post", "tags": ["C06"], "meta": {}})
            obls.append({"id": qual + ":relationships rebuilt before solving@p%d" % pi, "hyps": p.pc, "goal": z3.BoolVal(any(ev[0] == "rel_update" for ev in p.events)), "kind": "post", "tags": ["C06", "C16", "C01"], "meta": {}})
    # per-phase prelude: _solve(vtol, itol, maxiter, quiet, ph) and RuntimeError before any row
    eng2 = Engine(src)
    ITERS = z3.Int("iters_ret")
    def solve_override(e, recv, args, kw):
        names = ["vtol", "itol", "maxiter", "quiet", "ph"]
        loc = e.frames[-1].locals
        full = list(args[:5]) + [None] * (5 - len(args[:5]))
        pn = ["vtol", "itol", "maxiter", "quiet", "phase"]
        for j, nm in enumerate(pn):
            if full[j] is None and nm in kw: full[j] = kw[nm]
        # further (newer, optional) solver arguments: allowed when they carry the solver's own default (a call that does not use the feature)
        _, sfn = src.method("System", "_solve")
        sdef = _param_defaults(sfn); snames = [a_.arg for a_ in sfn.args.args[1:]]
        extra = dict(zip(snames[5:], args[5:])); extra.update({k_: v_ for k_, v_ in kw.items() if k_ not in pn})
        ok = z3.BoolVal(all(full[j] is not None for j in range(5)) and all((k_ in sdef) and (not is_sym(v_)) and v_ == sdef[k_] for k_, v_ in extra.items()))
        conds = []
        for j, nm in enumerate(names):
            a_ = full[j]
            conds.append(z3.BoolVal(a_ is loc.get(nm)) if not (is_sym(a_) and is_sym(loc.get(nm))) else (to_z(a_) == to_z(loc[nm])))
        e.oblige("system.System.solve/phase-prelude:_solve(vtol, itol, maxiter, quiet, ph) in that order", z3.And(ok, *conds), kind="callsite")
        return (Opaque("v"), Opaque("i"), SV(ITERS, "int"), Opaque("state"))
    eng2.overrides["system.System._solve"] = solve_override
    def thunk2(e):
        env = _param_defaults(fn)
        env.update({"self": Opaque("self", cls="System"), "ph": SV(z3.Const("ph", NAME), "name"), "vtol": SV(z3.Real("vtol")), "itol": SV(z3.Real("itol")),
               "maxiter": SV(z3.Int("maxiter")), "quiet": SV(z3.Bool("quiet")), "phase_list": [SV(z3.Const("ph", NAME), "name")]})
        e.run_block("system", "System", phase_prelude, env, fn)
        return None
    try:
        paths2 = eng2.explore(thunk2)
        obls += [dict(o, tags=["C03", "C06"]) for o in eng2.obligations]
        mi = z3.Int("maxiter")
        for pi, p in enumerate(paths2):
            if p.kind == "raise":
                obls.append({"id": "system.System.solve/phase-prelude:RuntimeError iff not converged within maxiter@p%d" % pi, "hyps": p.pc, "goal": z3.And(z3.BoolVal(p.value.etype == "RuntimeError"), ITERS > mi), "kind": "post", "tags": ["C03"], "meta": {}})
            else:
                obls.append({"id": "system.System.solve/phase-prelude:rows only from a converged iterate@p%d" % pi, "hyps": p.pc, "goal": ITERS <= mi, "kind": "post", "tags": ["C03"], "meta": {}})
    except (Unsupported, FunctionMissing) as u:
        run.undecide("system.System.solve/phase-prelude", str(u))
    return obls


def _solve_node_slice(run, src, fn, inner, colblock):
    qual = "system.System.solve/node"
    H = Heap()
    n = z3.Int("n"); ta = z3.Real("ta"); ph = z3.Const("ph", NAME)
    vv, iv, OFF = z3.Array("v", I, Rl), z3.Array("i", I, Rl), z3.Array("state_off", I, Bo)
    CC = z3.Function("child_curr", I, Rl)
    TYPE = z3.Function("type_name", I, NAME)
    DOM = z3.Function("find_domain", I, NAME)
    PWR = [z3.Function("pwrloss_%s" % x, I, Rl) for x in ("P", "L", "E", "TR", "TP")]
    WARN = z3.Function("warns", I, NAME); ENER = z3.Function("energy", NAME, Rl, Rl)
    EMPTY, SOURCE = name_const(""), name_const("SOURCE")
    eng = Engine(src)
    def comp(c):
        cz = to_z(c)
        def pwr(e, vi, vo, ii, io, ta_, ph_, pc_, *extra, **kw):
            e.event("pwr", args=(vi, vo, ii, io, ta_, ph_, pc_), extra=extra, kw=kw, node=cz)
            return tuple(SV(f(cz), "real") for f in PWR)
        def warns(e, vi, vo, ii, io, ta_, ph_, pc_, *extra, **kw):
            e.event("warn", args=(vi, vo, ii, io, ta_, ph_, pc_), extra=extra, kw=kw, node=cz)
            return SV(WARN(cz), "name")
        def pri(e, pstate, vc):
            e.event("pri", pstate=pstate, vc=vc, node=cz)
            return SV(H.SEL(cz), "int")
        ctype = enum_like(TYPE(cz))
        return Opaque("comp", attrs={"_params": {"name": SV(H.NAME(cz), "name"), "rs": SV(H.RS(cz), "real")}, "_component_type": ctype},
                      methods={"_get_pri_inp": pri, "_solv_pwr_loss": pwr, "_solv_get_warns": warns})
    gattrs = HMap(lambda key: {"groups": HMap(lambda nm: SV(H.GROUP(to_z(nm)), "name")), "rails": HMap(lambda nm: SV(H.RAIL(to_z(nm)), "name"))}[key], label="self._g.attrs")
    g = HMap(comp, label="self._g"); g.attrs = {"attrs": gattrs}
    def find_domain(e, recv, args, kw):
        e.event("find_domain", args=args)
        return SV(DOM(to_z(args[0])), "name")
    def parent_name(e, recv, args, kw):
        m = to_z(args[0])
        return SV(z3.If(H.ROOT(m), EMPTY, H.NAME(H.PA(m, 0))), "name")
    def child_curr_o(e, recv, args, kw):
        e.event("child_curr", args=args)
        return SV(CC(to_z(args[0])), "real")
    def calc_energy_o(e, recv, args, kw):
        return SV(ENER(to_z(args[0]), to_z(args[1], "real")), "real")
    eng.overrides["system.System._find_domain"] = find_domain
    eng.overrides["system.System._get_parent_name"] = parent_name
    eng.overrides["system.System._child_curr"] = child_curr_o
    eng.overrides["system.System._calc_energy"] = calc_energy_o
    selfobj = Opaque("self", cls="System", attrs={"_g": g, "_phase_lkup": HMap(lambda m: SV(H.LK(to_z(m)), "int")),
                                                  "_parents": HMap(H.parents), "_childs": HMap(H.childs)})
    # loop-carried / free variables of the slice are havoc'd mechanically
    stored = {x.id for b in inner.body for x in ast.walk(b) if isinstance(x, ast.Name) and isinstance(x.ctx, ast.Store)}
    loaded = [x.id for b in inner.body + colblock for x in ast.walk(b) if isinstance(x, ast.Name) and isinstance(x.ctx, ast.Load)]
    aug_lists = {s_.target.id for b in inner.body for s_ in ast.walk(b) if isinstance(s_, ast.AugAssign) and isinstance(s_.target, ast.Name) and isinstance(s_.value, ast.List)}
    sub_stores = {s_.value.id for b in inner.body for s_ in ast.walk(b) if isinstance(s_, ast.Subscript) and isinstance(s_.ctx, ast.Store) and isinstance(s_.value, ast.Name)}
    class LogDict(Opaque):
        pass
    def mk_env(e):
        env = {"self": selfobj, inner.target.id: SV(n, "int"), "v": arr_hmap(ArrVal(vv, "v")), "i": arr_hmap(ArrVal(iv, "i")), "state": state_hmap(OFF),
               "ph": SV(ph, "name"), "ta": SV(ta, "real"), "energy": SV(z3.Bool("energy"), "bool"), "tags": {}}
        for nm in aug_lists: env[nm] = AccList(nm)
        for nm in sub_stores:
            if nm in env or nm == "res": continue
            if nm == "pstate": env[nm] = HavocDict(); continue
            log = []
            PREV = z3.Function("carried_" + nm, I, NAME)        # loop-carried content from earlier iterations / phases: arbitrary
            env[nm] = Opaque("dict:" + nm, setitem=(lambda e_, k, v, log=log, nm=nm: (log.append((k, v)), e_.event("dictstore", dname=nm, key=k, val=v))[0]),
                             contains=(lambda e_, item, nm=nm: z3.Bool("carried_has_%s" % nm)),
                             getitem=(lambda e_, k, PREV=PREV: SV(PREV(to_z(k)), "name") if (is_sym(k) and k.sort == "int") else (_ for _ in ()).throw(Unsupported("read of loop-carried dict"))), label=nm)
        for nm in loaded:
            if nm in env or nm in stored or nm in ("len", "print", "any", "list", "range", "sum", "abs", "pd", "np", "_get_eff"): continue
            if nm == "show_trise": env[nm] = e.fresh("show_trise", "bool")
            elif nm == "dname": env[nm] = e.fresh("dname_prev", "name")
            elif nm in _param_defaults(fn): env[nm] = _param_defaults(fn)[nm]       # an optional parameter this contract does not name: at its default
            else: env[nm] = HavocDict()
        return env
    boolflags = {t.id for s_ in ast.walk(fn) if isinstance(s_, ast.Assign) and isinstance(s_.value, ast.Constant) and isinstance(s_.value.value, bool)
                 for t in s_.targets if isinstance(t, ast.Name)}
    def thunk(e):
        for f in H.facts(n): e.assume(f)
        e.assume((TYPE(n) == SOURCE) == H.ROOT(n))          # roots are exactly the Sources (C14 well-formedness, precondition of every report)
        for m_ in (n, H.PA(n, 0), H.PA(n, H.SEL(n))): e.assume(H.NAME(m_) != EMPTY)      # component names are non-empty
        env = mk_env(e)
        for bf in boolflags: env[bf] = SV(z3.Bool(bf + "_before"), "bool")
        e.run_block("system", "System", inner.body, env, fn)
        return {k: v for k, v in env.items()}
    def thunk_cols(e):
        env = mk_env(e)
        for bf in boolflags: env[bf] = SV(z3.Bool(bf + "_after"), "bool")
        e.run_block("system", "System", colblock, env, fn)
        return env.get("res")
    try:
        node_paths = eng.explore(thunk)
        col_paths = Engine(src).explore(thunk_cols)
    except (Unsupported, FunctionMissing) as u:
        run.undecide(qual, str(u)); return []
    # ---- column map (backend 'ast': finite evaluation of the real column block): column -> the list variable it shows
    colmap, colobls = {}, []
    energy_flag, phz = z3.Bool("energy"), ph
    for ci, cp in enumerate(col_paths):
        if cp.kind != "return" or not isinstance(cp.value, dict):
            colobls.append({"id": "system.System.solve/columns:never-raises@p%d" % ci, "hyps": cp.pc, "goal": z3.BoolVal(False), "kind": "post", "tags": ["C01"], "meta": {}}); continue
        res = cp.value
        for cname, lst in res.items():
            var = lst.name if isinstance(lst, AccList) else None
            if cname in colmap and colmap[cname] != var: colmap[cname] = "<inconsistent>"
            colmap.setdefault(cname, var)
        pres = lambda c: z3.BoolVal(c in res)
        goal = z3.And(z3.BoolVal(("Parent" in res) != ("Rail in" in res)), z3.BoolVal(("Rail in" in res) == ("Rail out" in res)),
                      pres("Phase") == (phz != EMPTY), pres("Temp. rise (°C)") == z3.Bool("show_trise_after"), pres("Peak temp. (°C)") == z3.Bool("show_trise_after"),
                      pres("24h energy (Wh)") == energy_flag,
                      *[pres(c) for c in ("Component", "Type", "Domain", "Vin (V)", "Vout (V)", "Iin (A)", "Iout (A)", "Power (W)", "Loss (W)", "Efficiency (%)", "Warnings")])
        colobls.append({"id": "system.System.solve/columns:presence of conditional columns@p%d" % ci, "hyps": cp.pc, "goal": goal, "kind": "post", "tags": ["C01", "C02", "C06", "C07", "C08"], "meta": {}})
    paths = []
    for p in node_paths:
        if p.kind == "return":
            env_ = p.value
            res = {c: env_.get(v) for c, v in colmap.items() if v not in (None, "<inconsistent>")}
            p.value = res; p.extra["show_trise"] = env_.get("show_trise")
        paths.append(p)
    sel = H.SEL(n); multi = z3.And(sel != -1, H.NPA(n) > 1)
    selpar = z3.If(multi, H.PA(n, sel), H.PA(n, 0))
    root, leaf = H.ROOT(n), H.LEAF(n)
    spec_vin = z3.If(root, z3.Select(vv, n) + H.RS(n) * z3.Select(iv, n), z3.Select(vv, selpar))
    spec_iout = z3.If(root, z3.Select(iv, n), z3.If(leaf, z3.RealVal(0), CC(n)))
    spec_parent = z3.If(root, EMPTY, H.NAME(selpar))
    spec_railin = z3.If(root, EMPTY, H.RAIL(H.NAME(selpar)))
    obls = []
    def col(res, name):
        v = res.get(name) if isinstance(res, dict) else None
        return v.items if isinstance(v, AccList) else None
    def one(res, name):
        it = col(res, name)
        return it[0] if (it is not None and len(it) == 1) else None
    def add(cid, p, pi, goal, tags):
        obls.append({"id": "%s:%s@p%d" % (qual, cid, pi), "hyps": p.pc, "goal": goal, "kind": "post", "tags": tags, "meta": {}})
    def eqr(x, spec): return (to_z(x, "real") == spec) if x is not None and (is_sym(x) or isinstance(x, (int, float))) else z3.BoolVal(False)
    def eqn(x, spec): return (to_z(x) == spec) if x is not None and (is_sym(x) or isinstance(x, str)) else z3.BoolVal(False)
    for pi, p in enumerate(paths):
        if p.kind != "return":
            add("never-raises", p, pi, z3.BoolVal(False), ["C01"]); continue
        res = p.value
        add("Vin column = voltage of the selected feeding input (source: v + rs*i)", p, pi, eqr(one(res, "Vin (V)"), spec_vin), ["C01", "C05"])
        add("Vout column = v[n]", p, pi, eqr(one(res, "Vout (V)"), z3.Select(vv, n)), ["C01"])
        add("Iin column = i[n]", p, pi, eqr(one(res, "Iin (A)"), z3.Select(iv, n)), ["C01"])
        add("Iout column = attributed child current (leaf 0, source i[n])", p, pi, eqr(one(res, "Iout (A)"), spec_iout), ["C01"])
        add("Component column = name", p, pi, eqn(one(res, "Component"), H.NAME(n)), ["C01", "C16"])
        add("Type column = component type", p, pi, eqn(one(res, "Type"), TYPE(n)), ["C16"])
        if "Parent" in res:
            add("Parent column = name of the selected feeding input", p, pi, eqn(one(res, "Parent"), spec_parent), ["C01", "C05"])
        if "Rail in" in res:
            add("Rail in column = rail of the selected feeding input", p, pi, eqn(one(res, "Rail in"), spec_railin), ["C05", "C08"])
            add("Rail out column = own rail", p, pi, eqn(one(res, "Rail out"), H.RAIL(H.NAME(n))), ["C08"])
        if "Parent" not in res and "Rail in" not in res:
            add("Parent/Rail-in column present", p, pi, z3.BoolVal(False), ["C01", "C08"])
        add("Domain column = _find_domain(n)", p, pi, eqn(one(res, "Domain"), DOM(n)), ["C07", "C05"])
        if "Group" in res: add("Group column = group of the component", p, pi, eqn(one(res, "Group"), H.GROUP(H.NAME(n))), ["C16"])
        if "Phase" in res: add("Phase column = phase being solved", p, pi, eqn(one(res, "Phase"), ph), ["C06"])
        pw = [ev for ev in p.events if ev[0] == "pwr"]; wn = [ev for ev in p.events if ev[0] == "warn"]
        okp = len(pw) == 1 and not pw[0][1]["extra"] and not pw[0][1]["kw"] and len(wn) == 1 and not wn[0][1]["extra"] and not wn[0][1]["kw"]
        if not okp:
            add("_solv_pwr_loss/_solv_get_warns called once with 7 arguments", p, pi, z3.BoolVal(False), ["C02", "C09"]); continue
        a = pw[0][1]["args"]; w = wn[0][1]["args"]
        def args_ok(a_):
            return z3.And(eqr(a_[0], spec_vin), eqr(a_[1], z3.Select(vv, n)), eqr(a_[2], z3.Select(iv, n)), eqr(a_[3], spec_iout), eqr(a_[4], ta),
                          eqn(a_[5], ph), (to_z(a_[6]) == H.LK(n)) if is_sym(a_[6]) else z3.BoolVal(False))
        add("_solv_pwr_loss(Vin, v[n], i[n], Iout, ta, ph, own phase config) on this node", p, pi, z3.And(args_ok(a), pw[0][1]["node"] == n), ["C02", "C01"])
        add("_solv_get_warns with the same row quantities on this node", p, pi, z3.And(args_ok(w), wn[0][1]["node"] == n), ["C09"])
        add("Power/Loss/Efficiency columns = results of _solv_pwr_loss", p, pi,
            z3.And(eqr(one(res, "Power (W)"), PWR[0](n)), eqr(one(res, "Loss (W)"), PWR[1](n)), eqr(one(res, "Efficiency (%)"), PWR[2](n))), ["C02"])
        tr_items = p.extra.get("env_after_node", {})
        if "Temp. rise (°C)" in res:
            tr1, tp1 = one(res, "Temp. rise (°C)"), one(res, "Peak temp. (°C)")
            issrc = TYPE(n) == SOURCE
            def cell(x, f): return z3.If(issrc, z3.BoolVal(isinstance(x, str) and x == ""), eqr(x, f(n)) if not isinstance(x, str) else z3.BoolVal(False))
            add("temperature cells: blank for sources, else (rise, peak) of _solv_pwr_loss", p, pi, z3.And(cell(tr1, PWR[3]), cell(tp1, PWR[4])), ["C02"])
        st = p.extra.get("show_trise")
        if st is not None:
            # the temperature columns are shown iff some non-source component has a positive rise (flag is monotone)
            add("temperature-columns flag = previous flag or (non-source with positive rise)", p, pi,
                to_z(st) == z3.Or(z3.Bool("show_trise_before"), z3.And(TYPE(n) != SOURCE, PWR[3](n) > 0)), ["C02"])
        if "24h energy (Wh)" in res:
            add("energy column = _calc_energy(ph, Power)", p, pi, eqr(one(res, "24h energy (Wh)"), ENER(ph, PWR[0](n))), ["C07"])
        add("Warnings column = result of _solv_get_warns", p, pi, eqn(one(res, "Warnings"), WARN(n)), ["C09"])
        # roll-up bookkeeping (C09-P3 / C07): dwarns[domain] set iff the cell is non-empty; sources[domain] = Vin for a source
        ds = [ev[1] for ev in p.events if ev[0] == "dictstore"]
        dw1 = [d for d in ds if d["dname"] == "dwarns" and not is_sym(d["val"]) and d["val"] == 1]
        add("subsystem warning flag raised iff the Warnings cell is non-empty, under this node's domain", p, pi,
            z3.If(WARN(n) != EMPTY, z3.And(z3.BoolVal(len(dw1) == 1), eqn(dw1[0]["key"], DOM(n)) if dw1 else z3.BoolVal(False)), z3.BoolVal(len(dw1) == 0)), ["C09"])
        srcs = [d for d in ds if d["dname"] == "sources"]
        add("subsystem voltage registered for sources only, under their own domain", p, pi,
            z3.If(TYPE(n) == SOURCE, z3.And(z3.BoolVal(len(srcs) == 1), z3.And(eqn(srcs[0]["key"], DOM(n)), eqr(srcs[0]["val"], spec_vin)) if srcs else z3.BoolVal(False)), z3.BoolVal(len(srcs) == 0)), ["C07"])
        fd = [ev for ev in p.events if ev[0] == "find_domain"]
        nd = [d for d in ds if d["dname"] not in ("dwarns", "sources")]
        add("domain of this node recorded for its children (loop-carried map)", p, pi,
            z3.BoolVal(len(fd) == 1) if not nd else z3.And(z3.BoolVal(len(fd) == 1), *[z3.And(to_z(d["key"]) == n, eqn(d["val"], DOM(n))) for d in nd]), ["C07"])
        pr = [ev[1] for ev in p.events if ev[0] == "pri"]
        if pr:
            j = z3.Int("jq")
            offs, vc = pr[0]["pstate"].get("off") if isinstance(pr[0]["pstate"], dict) else None, pr[0]["vc"]
            if isinstance(offs, Seq) and isinstance(vc, Seq):
                goal = z3.And(pr[0]["node"] == n, offs.ln == H.NPA(n), vc.ln == H.NPA(n),
                              z3.Implies(z3.And(j >= 0, j < H.NPA(n)), z3.And(to_z(offs.elem(j)) == z3.Select(OFF, H.PA(n, j)), to_z(vc.elem(j), "real") == z3.Select(vv, H.PA(n, j)))))
            else:
                goal = z3.BoolVal(False)
            add("_get_pri_inp called with the node's parents' off flags and voltages", p, pi, goal, ["C05"])
        obls.append({"id": "%s:canary@p%d" % (qual, pi), "hyps": p.pc, "goal": eqr(one(res, "Vin (V)"), spec_vin + 1), "kind": "canary", "tags": ["C01"], "meta": {}})
    obls += colobls
    run.assumed.add("contracts used modularly inside the solve() slice: _find_domain, _get_parent_name, _child_curr, _calc_energy, _solv_pwr_loss, _solv_get_warns, _get_pri_inp (each under its own contract)")
    return obls


# =================================================================================================== PMux._get_pri_inp
def pri_inp(run, src):
    """result r is the least index with not off[r] and |vi[r]| != 0, or -1 if none (1..4 inputs unrolled + arbitrary length)"""
    qual = "components.PMux._get_pri_inp"
    obls = []
    for nin in (1, 2, 3, 4):
        vi = [z3.Real("vi%d" % j) for j in range(nin)]; off = [z3.Bool("off%d" % j) for j in range(nin)]
        live = [z3.And(z3.Not(off[j]), vi[j] != 0) for j in range(nin)]
        eng = Engine(src)
        def thunk(e, vi=vi, off=off):
            obj = PyObj("PMux", {"_params": {"name": "M"}})
            return e.call_method(obj, "_get_pri_inp", [{"off": [SV(t, "bool") for t in off]}, [SV(t, "real") for t in vi]])
        try:
            paths = eng.explore(thunk)
        except (Unsupported, FunctionMissing) as u:
            run.undecide("%s[n%d]/post" % (qual, nin), str(u)); continue
        run.functions.update(eng.inlined)
        for pi, p in enumerate(paths):
            if p.kind != "return":
                obls.append({"id": "%s[n%d]/never-raises@p%d" % (qual, nin, pi), "hyps": p.pc, "goal": z3.BoolVal(False), "kind": "post", "meta": {}}); continue
            r = to_z(p.value)
            spec = z3.Or(z3.And(r == -1, *[z3.Not(l) for l in live]), *[z3.And(r == j, live[j], *[z3.Not(live[k]) for k in range(j)]) for j in range(nin)])
            obls.append({"id": "%s[n%d]/post:first live input or -1@p%d" % (qual, nin, pi), "hyps": p.pc, "goal": spec, "kind": "post", "meta": {}})
            obls.append({"id": "%s[n%d]/canary@p%d" % (qual, nin, pi), "hyps": p.pc, "goal": r == -1, "kind": "canary", "meta": {}})
    # arbitrary number of inputs: loop invariant 'no live input among the first k'
    N = z3.Int("n_inputs"); VI = z3.Function("vi_", I, Rl); OFFf = z3.Function("off_", I, Bo); jj = z3.Int("jj")
    livef = lambda j: z3.And(z3.Not(OFFf(j)), VI(j) != 0)
    eng = Engine(src)
    from pyvc.engine import Builtin
    eng.extra_globals["range"] = Builtin("range", lambda e, *a: Seq(to_z(a[0]), lambda j: SV(j, "int")) if (len(a) == 1 and is_sym(a[0])) else range(*a))
    eng.loop_specs[(qual, "For", 0)] = LoopSpec(qual + "[any n]/for", inv=lambda env, k: z3.And(to_z(env["inp"]) == -1, z3.ForAll([jj], z3.Implies(z3.And(jj >= 0, jj < k), z3.Not(livef(jj))))))
    def thunk(e):
        e.assume(N >= 0)
        obj = PyObj("PMux", {"_params": {"name": "M"}})
        offs = Seq(N, lambda j: SV(OFFf(j), "bool")); vis = Seq(N, lambda j: SV(VI(j), "real"))
        return e.call_method(obj, "_get_pri_inp", [{"off": offs}, vis])
    try:
        paths = eng.explore(thunk)
        obls += list(eng.obligations)
        for pi, p in enumerate(paths):
            if p.kind == "end": continue
            if p.kind != "return":
                obls.append({"id": qual + "[any n]/never-raises@p%d" % pi, "hyps": p.pc, "goal": z3.BoolVal(False), "kind": "post", "meta": {}}); continue
            r = to_z(p.value); m = z3.Int("m")
            spec = z3.And(z3.Or(r == -1, z3.And(r >= 0, r < N, livef(r))), z3.Implies(z3.And(m >= 0, m < z3.If(r == -1, N, r)), z3.Not(livef(m))))
            obls.append({"id": qual + "[any n]/post:first live input or -1@p%d" % pi, "hyps": p.pc, "goal": spec, "kind": "post", "meta": {}})
    except (Unsupported, FunctionMissing) as u:
        run.undecide(qual + "[any n]/post", str(u))
    # base class: single-input components always use input 0
    try:
        eng = Engine(src)
        paths = eng.explore(lambda e: e.call_method(PyObj("Converter", {}), "_get_pri_inp", [{"off": [SV(z3.Bool("o"), "bool")]}, [SV(z3.Real("x"), "real")]]))
        for pi, p in enumerate(paths):
            obls.append({"id": "components._Component._get_pri_inp/post:0@p%d" % pi, "hyps": p.pc, "goal": z3.BoolVal(p.kind == "return" and p.value == 0), "kind": "post", "meta": {}})
        run.functions.update(eng.inlined)
    except (Unsupported, FunctionMissing) as u:
        run.undecide("components._Component._get_pri_inp/post", str(u))
    return obls


# =================================================================================================== _find_domain
def find_domain(run, src):
    """Source -> own name; PMux -> the root source above its first input with non-zero voltage (input 0 if none);
    any other component -> the domain recorded for its (first) parent."""
    qual = "system.System._find_domain"
    H = Heap(); n = z3.Int("n"); vv = z3.Array("v", I, Rl)
    TYPE = z3.Function("type_name", I, NAME); ROOTOF = z3.Function("root_source_of", I, I); INDEG = z3.Function("in_degree", I, I)
    NANC = z3.Function("n_ancestors", I, I); ANC = z3.Function("ancestor", I, I, I); DOMOF = z3.Function("domain_recorded", I, NAME)
    SOURCE, PMUX = name_const("SOURCE"), name_const("PMUX")
    obls = []
    for nin in (0, 1, 2, 3, 4):        # 0: the node is not a mux (generic)
        eng = Engine(src)
        def comp(c):
            cz = to_z(c)
            return Opaque("comp", attrs={"_params": {"name": SV(H.NAME(cz), "name")}, "_component_type": enum_like(TYPE(cz))})
        g = HMap(comp, label="self._g")
        g_in = lambda e, i_: SV(INDEG(to_z(i_)), "int")
        gobj = Opaque("g", getitem=lambda e, c: comp(c), methods={"in_degree": g_in})
        def ancestors(e, graph, x):
            xz = to_z(x)
            seq = Seq(NANC(xz), lambda j, xz=xz: SV(ANC(xz, j), "int"))
            o = Opaque("ancestors", methods={"eq": lambda e_, other, xz=xz: NANC(xz) == 0})
            o.seq = seq
            return o
        eng.extra_globals["rx"] = Opaque("rx", methods={"ancestors": ancestors})
        eng.extra_globals["set"] = Builtin_set
        jj = z3.Int("jj")
        def parents(m):
            if nin == 0: return H.parents(m)
            return [SV(H.PA(to_z(m), j), "int") for j in range(nin)]
        selfobj = Opaque("self", cls="System", attrs={"_g": gobj, "_parents": HMap(parents)})
        eng.loop_specs[(qual, "For", 1)] = LoopSpec(qual + "/for-ancestors", inv=lambda env, k: z3.BoolVal(True))
        def thunk(e, nin=nin):
            if nin == 0: e.assume(TYPE(n) != PMUX)
            else: e.assume(TYPE(n) == PMUX)
            # assumed graph facts (rustworkx + well-formedness): the ancestors of x contain exactly one in-degree-0 node, ROOTOF(x), unless x is itself a root
            x = z3.Int("x")
            e.assume(z3.ForAll([x, jj], z3.Implies(z3.And(jj >= 0, jj < NANC(x), INDEG(ANC(x, jj)) == 0), ANC(x, jj) == ROOTOF(x))))
            e.assume(z3.ForAll([x], z3.Implies(NANC(x) == 0, ROOTOF(x) == x)))
            e.assume(z3.ForAll([x], NANC(x) >= 0))
            dom = HMap(lambda m: SV(DOMOF(to_z(m)), "name"), label="domain")
            return e.call_method(selfobj, "_find_domain", [SV(n, "int"), dom, arr_hmap(ArrVal(vv, "v"))])
        # iteration over the ancestor set: Opaque -> its Seq
        orig_for = eng.st_For
        def st_For(s, eng=eng, orig_for=orig_for):
            it = eng.ev(s.iter)
            if isinstance(it, Opaque) and hasattr(it, "seq"):
                return eng._loop_with_spec(s, it.seq)
            return orig_for(s)
        eng.st_For = st_For
        try:
            paths = eng.explore(thunk)
        except (Unsupported, FunctionMissing) as u:
            run.undecide("%s[%s]/post" % (qual, "non-mux" if nin == 0 else "mux,n%d" % nin), str(u)); continue
        run.functions.update(eng.inlined)
        lab = "non-mux" if nin == 0 else "mux,n%d" % nin
        obls += [dict(o, id=o["id"] + "[%s]" % lab) for o in eng.obligations]
        for pi, p in enumerate(paths):
            if p.kind == "end": continue
            if p.kind != "return":
                # falling off the ancestor loop without a root cannot happen: some ancestor is the root (assumed graph fact)
                obls.append({"id": "%s[%s]/never-raises@p%d" % (qual, lab, pi), "hyps": p.pc, "goal": z3.BoolVal(False), "kind": "post", "meta": {}}); continue
            r = to_z(p.value)
            if nin == 0:
                spec = z3.If(TYPE(n) == SOURCE, H.NAME(n), DOMOF(H.PA(n, 0)))
                exits = []
            else:
                first = z3.IntVal(0)
                for j in reversed(range(nin)):
                    first = z3.If(z3.Select(vv, H.PA(n, j)) != 0, z3.IntVal(j), first)
                # first input with non-zero voltage, else input 0
                idx_terms = [z3.And(first == j) for j in range(nin)]
                spec = H.NAME(ROOTOF(z3.Sum([z3.If(first == j, H.PA(n, j), 0) for j in range(nin)])))
                exits = [v for v in p.extra.get("loop_exit_k", {}).values()]
            hyps = list(p.pc)
            if exits:
                # the loop over the ancestors ended without finding a root: excluded by the assumed graph fact 'a non-root has a root ancestor'
                continue
            obls.append({"id": "%s[%s]/post:domain = source that powers the node@p%d" % (qual, lab, pi), "hyps": hyps, "goal": r == spec, "kind": "post", "meta": {}})
            obls.append({"id": "%s[%s]/canary@p%d" % (qual, lab, pi), "hyps": hyps, "goal": r == name_const("no-such-domain"), "kind": "canary", "meta": {}})
    run.assumed.add("rustworkx.ancestors / in_degree: the ancestors of a non-root contain exactly one in-degree-0 node (its root source); a node with no ancestors is a root")
    return obls


from pyvc.engine import Builtin as _B
Builtin_set = _B("set", lambda e, x=(): set(e.iterate(x)))


# =================================================================================================== _set_phase_lkup
def phase_lkup(run, src):
    """forall components c: _phase_lkup[index(c)] = phase_conf[c]  (registry keys are exactly the component names: WF)"""
    qual = "system.System._set_phase_lkup"
    NPC = z3.Int("n_phase_conf"); PCN = z3.Function("pc_key", I, NAME); PCV = z3.Function("pc_val", I, I); IDX = z3.Function("index_of", NAME, I)
    jj, j2 = z3.Int("jj"), z3.Int("j2")
    items = Seq(NPC, lambda j: (SV(PCN(j), "name"), SV(PCV(j), "int")))
    pconf = Opaque("phase_conf", methods={"items": lambda e: items})
    gattrs = HMap(lambda key: {"phase_conf": pconf}[key], label="self._g.attrs")
    g = HMap(lambda n: None); g.attrs = {"attrs": gattrs}
    selfobj = Opaque("self", cls="System", attrs={"_g": g})
    eng = Engine(src)
    eng.overrides["system.System._get_index"] = lambda e, recv, a, k: SV(IDX(to_z(a[0])), "int")
    def lk_arr(e):
        e.fresh_n += 1
        return arr_hmap(ArrVal(z3.Array("lk!%d" % e.fresh_n, I, I), "self._phase_lkup"), sort="int")
    def heap_havoc(e):
        selfobj.attrs["_phase_lkup"] = lk_arr(e)
    def inv(env, k):
        lk = selfobj.attrs["_phase_lkup"]
        if not hasattr(lk, "av"):       # the freshly assigned {} before the loop
            return z3.BoolVal(True) if True else None
        return z3.ForAll([jj], z3.Implies(z3.And(jj >= 0, jj < k), z3.Select(lk.av.arr, IDX(PCN(jj))) == PCV(jj)))
    eng.loop_specs[(qual, "For", 0)] = LoopSpec(qual + "/for-items", inv=inv, heap_havoc=heap_havoc)
    def thunk(e):
        e.assume(NPC >= 0)
        e.assume(z3.ForAll([jj, j2], z3.Implies(z3.And(jj >= 0, j2 >= 0, jj < NPC, j2 < NPC, jj != j2), IDX(PCN(jj)) != IDX(PCN(j2)))))   # WF: distinct names, distinct indices
        selfobj.attrs.pop("_phase_lkup", None)
        e.call_method(selfobj, "_set_phase_lkup", [])
        return selfobj.attrs.get("_phase_lkup")
    try:
        paths = eng.explore(thunk)
    except (Unsupported, FunctionMissing) as u:
        run.undecide(qual + "/post", str(u)); return None
    run.functions.update(eng.inlined)
    obls = [o for o in eng.obligations if not o["id"].endswith("inv-init")]    # inv-init is about the empty dict: trivially true (k = 0)
    m = z3.Int("m")
    for pi, p in enumerate(paths):
        if p.kind == "end": continue
        if p.kind != "return" or not hasattr(p.value, "av"):
            obls.append({"id": qual + "/never-raises@p%d" % pi, "hyps": p.pc, "goal": z3.BoolVal(False), "kind": "post", "meta": {}}); continue
        goal = z3.Implies(z3.And(m >= 0, m < NPC), z3.Select(p.value.av.arr, IDX(PCN(m))) == PCV(m))
        obls.append({"id": qual + "/post:each component index maps to that component's own phase configuration@p%d" % pi, "hyps": p.pc, "goal": goal, "kind": "post", "meta": {}})
        obls.append({"id": qual + "/canary@p%d" % pi, "hyps": p.pc + [m >= 0, m < NPC], "goal": z3.Select(p.value.av.arr, IDX(PCN(m))) == PCV(m) + 1, "kind": "canary", "meta": {}})
    return obls


# =================================================================================================== warnings (C09)
def warnings_contracts(run, src):
    from contracts import spec as S
    from contracts.components import Comp, Args, PHASE, ALL_K
    obls = []
    ZO = S.Z3Ops()
    DEF = src.const("components", "LIMITS_DEFAULT")
    # ---- _get_opt (3-line helper): d[k] if present else default
    try:
        has = z3.Bool("has_key")
        d = Opaque("dict", contains=lambda e, item: has, getitem=lambda e, k: SV(z3.Real("d_k"), "real"))
        eng = Engine(src)
        paths = eng.explore(lambda e: e.call_function("components._get_opt", [d, "k", SV(z3.Real("dflt"), "real")]))
        for pi, p in enumerate(paths):
            obls.append({"id": "components._get_opt/post:d[k] if present else default@p%d" % pi, "hyps": p.pc,
                         "goal": (to_z(p.value, "real") == z3.If(has, z3.Real("d_k"), z3.Real("dflt"))) if p.kind == "return" else z3.BoolVal(False), "kind": "post", "meta": {}})
        run.functions.update(eng.inlined)
    except (Unsupported, FunctionMissing) as u:
        run.undecide("components._get_opt/post", str(u))
    # ---- _get_warns: token k present <=> limit exceeded (default limits when absent), for every key list of the 11 kinds
    keysets = {tuple(S.limit_keys(K)) for K in ALL_K}
    for keys in sorted(keysets):
        qual = "components._get_warns[%s]" % ",".join(keys)
        x = {k: z3.Real("x_" + k) for k in keys}
        hask = {k: z3.Bool("has_" + k) for k in keys}; lo = {k: z3.Real("lo_" + k) for k in keys}; hi = {k: z3.Real("hi_" + k) for k in keys}
        eng = Engine(src); eng.merge_ifs = True
        def get_opt(e, recv, a, kw, hask=hask, lo=lo, hi=hi):
            params, key, default = a
            if getattr(params, "tag", "") == "limits" and key in hask:
                return [SV(z3.If(hask[key], lo[key], to_z(default[0], "real")), "real"), SV(z3.If(hask[key], hi[key], to_z(default[1], "real")), "real")]
            raise Unsupported("_get_opt outside its contract use")
        eng.overrides["components._get_opt"] = get_opt
        # the limits dictionary of a component: any subset of the applicable keys, each holding a [min, max] pair
        def lim_contains(e, key, hask=hask):
            if key in hask: return hask[key]
            raise Unsupported("limits membership test for a key outside the kind's list")
        def lim_getitem(e, key, hask=hask, lo=lo, hi=hi):
            if key not in hask: raise Unsupported("limits[%r]" % (key,))
            if e.decide(hask[key]): return [SV(lo[key], "real"), SV(hi[key], "real")]
            raise PyRaise("KeyError", repr(key), implicit=True)
        limits = Opaque("limits", contains=lim_contains, getitem=lim_getitem)
        try:
            paths = eng.explore(lambda e: e.call_function("components._get_warns", [limits, {k: SV(x[k], "real") for k in keys}]))
        except (Unsupported, FunctionMissing) as u:
            run.undecide(qual + "/post", str(u)); continue
        run.functions.update(eng.inlined)
        for pi, p in enumerate(paths):
            if p.kind != "return" or not isinstance(p.value, (CondStr, str)):
                obls.append({"id": qual + "/never-raises@p%d" % pi, "hyps": p.pc, "goal": z3.BoolVal(False), "kind": "post", "meta": {}}); continue
            toks = CondStr.of(p.value).tokens()
            for k in keys:
                present = z3.Or(*[g for g, t in toks if t == k]) if any(t == k for g, t in toks) else z3.BoolVal(False)
                l_ = z3.If(hask[k], lo[k], z3.RealVal(repr(float(DEF[k][0])))); h_ = z3.If(hask[k], hi[k], z3.RealVal(repr(float(DEF[k][1]))))
                def replay(model, zm, keys=keys, k=k, x=x, hask=hask, lo=lo, hi=hi):
                    import sysloss.components as C
                    fv = lambda t: float(solver.frac(zm.eval(t, model_completion=True)))
                    lim = {kk: [fv(lo[kk]), fv(hi[kk])] for kk in keys if z3.is_true(zm.eval(hask[kk], model_completion=True))}
                    chk = {kk: fv(x[kk]) for kk in keys}
                    d_lo, d_hi = lim.get(k, C.LIMITS_DEFAULT[k])
                    want = (chk[k] > d_hi or chk[k] < d_lo) if k == "tp" else (abs(chk[k]) > abs(d_hi) or abs(chk[k]) < abs(d_lo))
                    try: got = k in C._get_warns(dict(lim), dict(chk)).split()
                    except Exception as ex: return {"confirmed": True, "call": "_get_warns(%r, %r)" % (lim, chk), "observed": {"raised": type(ex).__name__}}
                    return {"confirmed": got != want, "call": "sysloss.components._get_warns(%r, %r)" % (lim, chk), "observed": {"token %s present" % k: got}, "required": {"token %s present" % k: want}}
                obls.append({"id": "%s/post:token %s <=> limit exceeded@p%d" % (qual, k, pi), "hyps": p.pc, "goal": present == S.exceeded(ZO, k, x[k], l_, h_), "kind": "post", "meta": {"replay": replay}})
            stray = [t for g, t in toks if t not in keys]
            obls.append({"id": qual + "/post:no other tokens@p%d" % pi, "hyps": p.pc, "goal": z3.BoolVal(not stray), "kind": "post", "meta": {}})
            k0 = keys[0]
            obls.append({"id": qual + "/canary@p%d" % pi, "hyps": p.pc, "goal": (z3.Or(*[g for g, t in toks if t == k0]) if any(t == k0 for g, t in toks) else z3.BoolVal(False)) == (x[k0] > 0), "kind": "canary", "meta": {}})
    # ---- _solv_get_warns per kind: quantities, applicable keys, phase gate
    for K in ALL_K:
        comp = Comp(K); a = Args(comp)
        qual = "components.%s._solv_get_warns" % comp.cls + ("[%s]" % K.split(":")[1] if ":" in K else "")
        PW = [z3.Real("pl_" + n_) for n_ in ("pi", "pl", "eff", "tr", "tp")]
        eng = Engine(src)
        def pwr_override(e, recv, args_, kw, PW=PW):
            e.event("pwr", args=args_)
            return tuple(SV(t, "real") for t in PW)
        for cls in ("_Component", "Source", "PLoad", "ILoad", "RLoad", "RLoss", "VLoss", "Converter", "LinReg", "PSwitch", "PMux", "Rectifier"):
            eng.overrides["components.%s._solv_pwr_loss" % cls] = pwr_override
        def gw(e, recv, args_, kw):
            e.event("get_warns", limits=args_[0], lims=args_[1])
            return SV(z3.Const("warn_result", NAME), "name")
        eng.overrides["components._get_warns"] = gw
        def thunk(e, comp=comp, a=a):
            obj = comp.build(e); a.assume(e)
            e.path_extra["limits_obj"] = obj.attrs["_limits"]
            return e.call_method(obj, "_solv_get_warns", [SV(a.vi[0], "real"), SV(a.vo, "real"), SV(a.ii, "real"), SV(a.io, "real"), SV(a.ta, "real"), PHASE, a.pc])
        try:
            paths = eng.explore(thunk)
        except (Unsupported, FunctionMissing) as u:
            run.undecide(qual + "/post", str(u)); continue
        run.functions.update(q for q in eng.inlined)
        gated = z3.And(z3.BoolVal(comp.cls not in ("Source", "RLoss", "VLoss", "Rectifier")), a.pc.nonempty, z3.Not(a.pc.contains(PHASE)))
        q = S.quantities(ZO, a.vi[0], a.vo, a.ii, a.io, PW[0], PW[1], PW[3], PW[4])
        for pi, p in enumerate(paths):
            if p.kind != "return":
                obls.append({"id": qual + "/never-raises@p%d" % pi, "hyps": p.pc, "goal": z3.BoolVal(False), "kind": "post", "meta": {}}); continue
            gws = [ev[1] for ev in p.events if ev[0] == "get_warns"]; pws = [ev[1] for ev in p.events if ev[0] == "pwr"]
            if not gws:
                obls.append({"id": qual + "/post:empty exactly when the phase is not in the configuration of a phase-gated kind@p%d" % pi, "hyps": p.pc, "goal": z3.And(gated, z3.BoolVal(p.value == "")), "kind": "post", "meta": {}}); continue
            obls.append({"id": qual + "/post:evaluated unless phase-gated@p%d" % pi, "hyps": p.pc, "goal": z3.Not(gated), "kind": "post", "meta": {}})
            lims = gws[0]["lims"]
            keys_ok = isinstance(lims, dict) and list(lims.keys()) == S.limit_keys(K)
            obls.append({"id": qual + "/post:applicable limits of the kind %s@p%d" % (S.limit_keys(K), pi), "hyps": p.pc, "goal": z3.BoolVal(bool(keys_ok)), "kind": "post", "meta": {}})
            if keys_ok:
                obls.append({"id": qual + "/post:quantities vi vo vd ii io pi po pl tr tp@p%d" % pi, "hyps": p.pc,
                             "goal": z3.And(*[to_z(lims[k], "real") == q[k] for k in lims]), "kind": "post", "meta": {}})
                obls.append({"id": qual + "/canary@p%d" % pi, "hyps": p.pc, "goal": z3.And(*[to_z(lims[k], "real") == q[k] + 1 for k in lims]), "kind": "canary", "meta": {}})
            obls.append({"id": qual + "/post:component's own limits are used@p%d" % pi, "hyps": p.pc, "goal": z3.BoolVal(gws[0]["limits"] is p.extra.get("limits_obj")), "kind": "post", "meta": {}})
            ok_args = len(pws) == 1 and len(pws[0]["args"]) >= 7
            if ok_args:
                aa = pws[0]["args"]
                obls.append({"id": qual + "/call:_solv_pwr_loss with the same row quantities@p%d" % pi, "hyps": p.pc,
                             "goal": z3.And(to_z(aa[0], "real") == a.vi[0], to_z(aa[1], "real") == a.vo, to_z(aa[2], "real") == a.ii, to_z(aa[3], "real") == a.io, to_z(aa[4], "real") == a.ta,
                                            to_z(aa[5]) == PHASE.z, z3.BoolVal(aa[6] is a.pc)), "kind": "callsite", "meta": {}})
            else:
                obls.append({"id": qual + "/call:_solv_pwr_loss once@p%d" % pi, "hyps": p.pc, "goal": z3.BoolVal(False), "kind": "callsite", "meta": {}})
    # ---- _get_limits per kind == documented applicable keys (evaluated from the real AST)
    for K in ALL_K:
        cls = K.split(":")[0]
        try:
            eng = Engine(src)
            paths = eng.explore(lambda e: e.call_method(PyObj(cls, {}), "_get_limits", []))
            ok = len(paths) == 1 and paths[0].kind == "return" and list(paths[0].value) == S.limit_keys(K)
            obls.append({"id": "components.%s._get_limits/post:%s" % (cls, S.limit_keys(K)), "hyps": [], "goal": z3.BoolVal(bool(ok)), "kind": "post", "meta": {}})
            run.functions.update(eng.inlined)
        except (Unsupported, FunctionMissing) as u:
            run.undecide("components.%s._get_limits/post" % cls, str(u))
    return obls


# =================================================================================================== graph helper wrappers
def graph_helpers(run, src):
    """_get_pmux: index of the PMux, -1 iff the system has none; _get_sources: the live Source nodes;
    _get_topo_sort/_get_nodes pass rustworkx' answer through; _rel_update stores the three relationship tables;
    _get_parent_name: '' for a root else the name of the first parent."""
    obls = []
    H = Heap()
    ISMUX = z3.Function("isinstance_PMux", I, Bo); ISSRC = z3.Function("isinstance_Source", I, Bo)
    jj = z3.Int("jj")
    def mk_engine():
        eng = Engine(src)
        topo = Seq(H.NTOPO, lambda j: SV(H.TOPO(j), "int"), "topological_sort")
        eng.extra_globals["rx"] = Opaque("rx", methods={"topological_sort": lambda e, g_: topo})
        def comp(c):
            cz = to_z(c)
            return Opaque("comp", attrs={"_params": {"name": SV(H.NAME(cz), "name")}}, methods={"isinstance": lambda e, cls, cz=cz: ISMUX(cz) if cls == "PMux" else (ISSRC(cz) if cls == "Source" else z3.BoolVal(False))})
        g = Opaque("g", getitem=lambda e, c: comp(c), methods={"node_indices": lambda e: topo})
        selfobj = Opaque("self", cls="System", attrs={"_g": g, "_parents": HMap(H.parents)})
        return eng, selfobj, topo
    # ---- _get_pmux
    try:
        eng, selfobj, topo = mk_engine()
        def thunk(e):
            e.assume(H.NTOPO >= 0); e.assume(z3.ForAll([jj], H.TOPO(jj) >= 0))      # node indices are non-negative (rustworkx)
            return e.call_method(selfobj, "_get_pmux", [])
        paths = eng.explore(thunk)
        run.functions.update(eng.inlined)
        exists = z3.Exists([jj], z3.And(jj >= 0, jj < H.NTOPO, ISMUX(H.TOPO(jj))))
        for pi, p in enumerate(paths):
            if p.kind != "return":
                obls.append({"id": "system.System._get_pmux/never-raises@p%d" % pi, "hyps": p.pc, "goal": z3.BoolVal(False), "kind": "post", "tags": ["C14", "C12"], "meta": {}}); continue
            r = to_z(p.value)
            k = z3.Int("kk")
            spec = z3.If(exists, z3.Exists([k], z3.And(k >= 0, k < H.NTOPO, ISMUX(H.TOPO(k)), r == H.TOPO(k))), r == -1)
            obls.append({"id": "system.System._get_pmux/post:index of a PMux node, -1 iff there is none@p%d" % pi, "hyps": p.pc, "goal": spec, "kind": "post", "tags": ["C14", "C12", "C16"], "meta": {}})
            obls.append({"id": "system.System._get_pmux/canary@p%d" % pi, "hyps": p.pc, "goal": r == -1, "kind": "canary", "tags": ["C14"], "meta": {}})
    except (Unsupported, FunctionMissing) as u:
        run.undecide("system.System._get_pmux/post", str(u))
    # ---- _get_sources
    try:
        eng, selfobj, topo = mk_engine()
        paths = eng.explore(lambda e: (e.assume(H.NTOPO >= 0), e.call_method(selfobj, "_get_sources", []))[1])
        run.functions.update(eng.inlined)
        m = z3.Int("m")
        for pi, p in enumerate(paths):
            ok = p.kind == "return" and isinstance(p.value, FiltSeq)
            goal = z3.And(p.value.seq.ln == H.NTOPO, to_z(p.value.seq.elem(m)) == H.TOPO(m), p.value.pred(m) == ISSRC(H.TOPO(m))) if ok else z3.BoolVal(False)
            obls.append({"id": "system.System._get_sources/post:exactly the Source nodes, in topological order@p%d" % pi, "hyps": p.pc + [m >= 0, m < H.NTOPO], "goal": goal, "kind": "post", "tags": ["C14", "C12", "C15"], "meta": {}})
    except (Unsupported, FunctionMissing) as u:
        run.undecide("system.System._get_sources/post", str(u))
    # ---- _get_parent_name
    try:
        eng, selfobj, topo = mk_engine()
        n = z3.Int("n")
        paths = eng.explore(lambda e: ([e.assume(f) for f in H.facts(n)], e.call_method(selfobj, "_get_parent_name", [SV(n, "int")]))[1])
        run.functions.update(eng.inlined)
        for pi, p in enumerate(paths):
            goal = (eng.equal(p.value, SV(z3.If(H.ROOT(n), name_const(""), H.NAME(H.PA(n, 0))), "name"))) if p.kind == "return" else z3.BoolVal(False)
            obls.append({"id": "system.System._get_parent_name/post:'' for a root, else the first parent's name@p%d" % pi, "hyps": p.pc, "goal": z3.BoolVal(goal) if isinstance(goal, bool) else goal, "kind": "post", "tags": ["C01", "C08", "C16"], "meta": {}})
    except (Unsupported, FunctionMissing) as u:
        run.undecide("system.System._get_parent_name/post", str(u))
    # ---- _rel_update: called twice on the same object while the graph's answers change in between (an edit that keeps the
    #      node / edge counts): the second call must store the NEW answers (no stale cache)
    try:
        eng = Engine(src)
        calls = {"n": 0}
        marks = {}
        def mk(nm):
            def f(e, r, a, k):
                calls["n"] += 1
                m_ = Opaque("result:%s#%d" % (nm, calls["n"])); marks.setdefault(nm, []).append(m_); return m_
            return f
        for nm in ("_get_parents", "_get_childs", "_get_topo_sort"):
            eng.overrides["system.System." + nm] = mk(nm)
        from pyvc.engine import Builtin
        eng.extra_globals["getattr"] = Builtin("getattr", lambda e, o, name, *d: (o.attrs[name] if name in o.attrs else (d[0] if d else (_ for _ in ()).throw(PyRaise("AttributeError", name)))))
        eng.extra_globals["hasattr"] = Builtin("hasattr", lambda e, o, name: name in o.attrs)
        NN, NE = z3.Int("num_nodes"), z3.Int("num_edges")
        gq = Opaque("g", methods={"num_nodes": lambda e: SV(NN, "int"), "num_edges": lambda e: SV(NE, "int"), "node_indices": lambda e: [SV(z3.Int("live0"), "int"), SV(z3.Int("live1"), "int")], "edge_list": lambda e: [(SV(z3.Int("e0a"), "int"), SV(z3.Int("e0b"), "int"))],
                                "node_indexes": lambda e: [SV(z3.Int("live0"), "int"), SV(z3.Int("live1"), "int")]})
        def thunk(e):
            calls["n"] = 0; marks.clear()
            selfobj = Opaque("self", cls="System", attrs={"_g": gq})
            e.call_method(selfobj, "_rel_update", [])
            e.call_method(selfobj, "_rel_update", [])
            return dict(selfobj.attrs), {k: list(v) for k, v in marks.items()}
        paths = eng.explore(thunk)
        run.functions.update(eng.inlined)
        for pi, p in enumerate(paths):
            ok = False
            if p.kind == "return":
                attrs, mk_ = p.value
                ok = all(len(mk_.get(nm, [])) == 2 for nm in ("_get_parents", "_get_childs", "_get_topo_sort")) and \
                    attrs.get("_parents") is mk_["_get_parents"][1] and attrs.get("_childs") is mk_["_get_childs"][1] and attrs.get("_topo_nodes") is mk_["_get_topo_sort"][1]
            obls.append({"id": "system.System._rel_update/post:relationship tables rebuilt from the graph on every call (no stale cache)@p%d" % pi, "hyps": p.pc, "goal": z3.BoolVal(bool(ok)), "kind": "post", "tags": ["C01", "C16", "C14", "TABLE"], "meta": {}})
    except (Unsupported, FunctionMissing) as u:
        run.undecide("system.System._rel_update/post", str(u))
    run.assumed.add("rustworkx.topological_sort / node_indices: every live node exactly once, indices >= 0")
    return obls


# =================================================================================================== _get_parents / _get_childs
def parents_childs(run, src):
    """_get_parents: for every live node n the entry is -1 iff n has no predecessor; a single predecessor is listed as such; for a
    node with several predecessors (the PMux) entry i is the node that its i-th stored parent name resolves to (priority order).
    _get_childs: -1 iff no successor, else rustworkx' successor list.  Stated per iteration of the node loop (store events)."""
    obls = []
    NN = z3.Int("n_nodes"); NODE = z3.Function("node_at", I, I); INDEG = z3.Function("in_degree", I, I); OUTDEG = z3.Function("out_degree", I, I)
    PRED = z3.Function("pred", I, I, I); SUCC = z3.Function("succ", I, I, I); PNAME = z3.Function("pname", I, I, NAME); IDX = z3.Function("get_index", NAME, I)
    for which in ("_get_parents", "_get_childs"):
        qual = "system.System." + which
        eng = Engine(src)
        nodes = Seq(NN, lambda j: SV(NODE(j), "int"), "nodes")
        eng.overrides["system.System._get_nodes"] = lambda e, r, a, k: nodes
        eng.overrides["system.System._get_index"] = lambda e, r, a, k: SV(IDX(to_z(a[0])), "int")
        stores = []
        ps = HMap(lambda n: None, lambda idx, v: stores.append((to_z(idx), v)), label="ps")
        eng.np.methods["ones"] = lambda e, n, **k: Opaque("ones")
        eng.np.attrs["int32"] = "int32"
        from pyvc.engine import Builtin
        eng.extra_globals["list"] = Builtin("list", lambda e, x=(): ps if isinstance(x, Opaque) and x.tag in ("ones", "negones") else list(e.iterate(x)))
        eng.extra_globals["max"] = Builtin("max", lambda e, *a: e.fresh("maxnode", "int") if (len(a) == 1 and isinstance(a[0], Seq)) else max(*a))
        orig_unary = eng.ev_UnaryOp
        def ev_UnaryOp(x, orig=orig_unary, eng=eng):
            v = eng.ev(x.operand)
            if isinstance(x.op, ast.USub) and isinstance(v, Opaque) and v.tag == "ones": return Opaque("negones")
            return orig(x)
        eng.ev_UnaryOp = ev_UnaryOp
        def gpred(e, n):
            nz = to_z(n); return Seq(INDEG(nz), lambda j, nz=nz: SV(PRED(nz, j), "int"))
        def gsucc(e, n):
            nz = to_z(n); return Seq(OUTDEG(nz), lambda j, nz=nz: SV(SUCC(nz, j), "int"))
        pn = HMap(lambda n: Seq(z3.Int("n_pnames"), lambda j, n=n: SV(PNAME(to_z(n), j), "name")), label="pnames")
        g = Opaque("g", methods={"in_degree": lambda e, n: SV(INDEG(to_z(n)), "int"), "out_degree": lambda e, n: SV(OUTDEG(to_z(n)), "int"),
                                 "predecessor_indices": gpred, "successor_indices": gsucc})
        g.attrs["attrs"] = HMap(lambda key: {"pnames": pn}[key], label="self._g.attrs")
        selfobj = Opaque("self", cls="System", attrs={"_g": g})
        # the comprehension [i for i in <Seq of ints>] builds a fresh MUTABLE list
        orig_comp = eng._comp
        def comp(xn, kind, eng=eng, orig=orig_comp):
            r = orig(xn, kind)
            if isinstance(r, Seq) and not isinstance(r, MSeq) and not xn.generators[0].ifs and isinstance(xn.elt, ast.Name):
                eng.fresh_n += 1
                arr = z3.Array("list!%d" % eng.fresh_n, I, I); j = z3.Int("lj!%d" % eng.fresh_n)
                eng.assume(z3.ForAll([j], z3.Implies(z3.And(j >= 0, j < r.ln), z3.Select(arr, j) == to_z(r.elem(j)))))
                return MSeq(r.ln, arr)
            return r
        eng._comp = comp
        jj = z3.Int("jj")
        def inv_inner(env, k):
            ind, n = env["ind"], to_z(env["n"])
            return z3.ForAll([jj], z3.Implies(z3.And(jj >= 0, jj < k), z3.Select(ind.arr, jj) == IDX(PNAME(n, jj)))) if isinstance(ind, MSeq) else z3.BoolVal(False)
        eng.loop_specs[(qual, "For", 0)] = LoopSpec(qual + "/for-nodes", inv=lambda env, k: z3.BoolVal(True))
        eng.loop_specs[(qual, "For", 1)] = LoopSpec(qual + "/for-inputs", inv=inv_inner)
        eng.extra_globals["range"] = Builtin("range", lambda e, *a: Seq(to_z(a[0]), lambda j: SV(j, "int")) if (len(a) == 1 and is_sym(a[0])) else range(*a))
        def thunk(e):
            del stores[:]
            e.assume(NN >= 0); e.assume(z3.ForAll([jj], z3.And(INDEG(jj) >= 0, OUTDEG(jj) >= 0)))
            r = e.call_method(selfobj, which, [])
            return r
        # record the store events of the arbitrary iteration
        try:
            paths = eng.explore(thunk)
        except (Unsupported, FunctionMissing) as u:
            run.undecide(qual + "/post", str(u)); continue
        run.functions.update(eng.inlined)
        obls += [dict(o, tags=["C05", "C14", "C01"]) for o in eng.obligations]
        # the explore() thunk clears `stores` per path; capture per-path copies through a second pass
        per_path = []
        def thunk2(e):
            r = thunk(e)
            return r
        eng2_paths = paths
        # (stores list is shared; re-run each path deterministically to read its stores)
        for pi, p in enumerate(paths):
            eng._reset_path(p.decisions); eng._stack = []
            try:
                thunk(eng); kind = "return"
            except PathEnd:
                kind = "end"
            except PyRaise:
                kind = "raise"
            st = list(stores); pc = list(eng.pc); loc_n = None
            it = p.extra.get("iterating")
            if kind == "raise":
                obls.append({"id": qual + "/never-raises@p%d" % pi, "hyps": pc, "goal": z3.BoolVal(False), "kind": "post", "tags": ["C05", "C14"], "meta": {}}); continue
            if it != qual + "/for-nodes" or kind != "end": continue
            # this path is one arbitrary iteration of the node loop: n = NODE(k)
            k = [c for c in pc]
            nvar = None
            for (idx, v) in st: nvar = idx
            deg = INDEG if which == "_get_parents" else OUTDEG
            if not st:
                # no store: allowed only for a node without predecessors / successors (entry stays -1)
                obls.append({"id": qual + "/post:entry left at -1 only for a node without %s@p%d" % ("predecessors" if which == "_get_parents" else "successors", pi), "hyps": pc,
                             "goal": z3.Exists([jj], z3.And(jj >= 0, jj < NN, deg(NODE(jj)) <= 0)), "kind": "post", "tags": ["C05", "C14", "C01"], "meta": {}})
                continue
            idx, v = st[-1]
            m = z3.Int("m")
            if which == "_get_parents":
                ok = isinstance(v, Seq)
                content = z3.And(v.ln == INDEG(idx), z3.Implies(z3.And(m >= 0, m < INDEG(idx)),
                                 to_z(v.elem(m)) == z3.If(INDEG(idx) > 1, IDX(PNAME(idx, m)), PRED(idx, m)))) if ok else z3.BoolVal(False)
                obls.append({"id": qual + "/post:a node's entry = its predecessor (one parent) or the nodes its stored parent names resolve to, in priority order (several)@p%d" % pi,
                             "hyps": pc + [z3.Int("n_pnames") >= INDEG(idx)], "goal": z3.And(INDEG(idx) > 0, content), "kind": "post", "tags": ["C05", "C14", "C01"], "meta": {}})
            else:
                ok = isinstance(v, Seq)
                content = z3.And(v.ln == OUTDEG(idx), z3.Implies(z3.And(m >= 0, m < OUTDEG(idx)), to_z(v.elem(m)) == SUCC(idx, m))) if ok else z3.BoolVal(False)
                obls.append({"id": qual + "/post:a node's entry = its successors@p%d" % pi, "hyps": pc, "goal": z3.And(OUTDEG(idx) > 0, content), "kind": "post", "tags": ["C01", "C14"], "meta": {}})
            obls.append({"id": qual + "/canary@p%d" % pi, "hyps": pc, "goal": z3.BoolVal(False), "kind": "canary", "tags": ["C05"], "meta": {}})
    run.assumed.add("rustworkx in_degree / out_degree / predecessor_indices / successor_indices; numpy -ones(n) as a list of -1")
    return obls


# =================================================================================================== initial vectors: _get_state / _get_outp_voltage / _get_inp_current, _sys_init
def init_contracts(run, src):
    from contracts import spec as S
    from contracts.components import Comp, Args, PHASE, ALL_K
    obls = []
    for K in ALL_K:
        comp = Comp(K); a = Args(comp)
        P = comp.P
        inactive = a.inactive
        for meth in ("_get_state", "_get_outp_voltage", "_get_inp_current"):
            qual = "components.%s.%s" % (comp.cls, meth) + ("[%s]" % K.split(":")[1] if ":" in K else "")
            eng = Engine(src)
            def thunk(e, comp=comp, a=a, meth=meth):
                obj = comp.build(e); a.assume(e)
                return e.call_method(obj, meth, [PHASE, a.pc])
            try:
                paths = eng.explore(thunk)
            except (Unsupported, FunctionMissing) as u:
                run.undecide(qual + "/post", str(u)); continue
            run.functions.update(eng.inlined)
            for pi, p in enumerate(paths):
                if p.kind != "return":
                    obls.append({"id": qual + "/never-raises@p%d" % pi, "hyps": p.pc, "goal": z3.BoolVal(False), "kind": "post", "tags": ["C04", "C06"], "meta": {}}); continue
                v = p.value
                if meth == "_get_state":
                    want = z3.Or(P["vo"] == 0, inactive) if K == "Source" else z3.BoolVal(False)
                    goal = (to_z(v["off"][0]) == want) if isinstance(v, dict) and "off" in v else z3.BoolVal(False)
                    txt = "OFF iff 0 V source or inactive in the phase (other kinds: never off by themselves)"
                elif meth == "_get_outp_voltage":
                    want = z3.If(inactive, z3.RealVal(0), P["vo"]) if K in ("Source", "Converter", "LinReg") else z3.RealVal(0)
                    goal = to_z(v, "real") == want; txt = "initial voltage = configured vo, 0 when inactive (non-regulating kinds: 0)"
                else:
                    if K == "Converter": want = z3.If(inactive, P["iis"], P["iq"])
                    elif K == "LinReg": want = z3.If(inactive, P["iis"], comp.G(z3.RealVal(0), z3.RealVal(0)))
                    elif K == "ILoad": want = z3.If(z3.Not(a.pc.nonempty), P["ii"], z3.If(z3.Not(a.pc.contains(PHASE)), P["iis"], ZABS(a.pc.value(PHASE))))
                    else: want = z3.RealVal(0)
                    goal = to_z(v, "real") == want; txt = "initial current follows the phase (sleep current when inactive / phase value for a current load)"
                obls.append({"id": "%s/post:%s@p%d" % (qual, txt, pi), "hyps": p.pc, "goal": goal, "kind": "post", "tags": ["C04", "C06", "C03"], "meta": {}})
    # ---- _sys_init: every node gets ITS OWN initial values for the phase being solved; a non-root's off flags are its parents' states
    qual = "system.System._sys_init"
    H = Heap()
    NN = z3.Int("n_nodes"); NODE = z3.Function("node_at", I, I)
    V0 = z3.Function("init_v", I, Rl); I0 = z3.Function("init_i", I, Rl); ST0 = z3.Function("init_off", I, Bo)
    phase = SV(z3.Const("phase", NAME), "name")
    eng = Engine(src)
    def comp(c):
        cz = to_z(c)
        def chk(e, ph, pconf, what, cz=cz):
            g1 = e.equal(ph, phase); g1 = z3.BoolVal(g1) if isinstance(g1, bool) else g1
            e.oblige("%s/call:%s(phase being solved, the node's own phase configuration)" % (qual, what), z3.And(g1, (to_z(pconf) == H.LK(cz)) if is_sym(pconf) else z3.BoolVal(False)), kind="callsite")
        def gv(e, ph, pconf): chk(e, ph, pconf, "_get_outp_voltage"); return SV(V0(cz), "real")
        def gi(e, ph, pconf): chk(e, ph, pconf, "_get_inp_current"); return SV(I0(cz), "real")
        def gs(e, ph, pconf): chk(e, ph, pconf, "_get_state"); return {"off": [SV(ST0(cz), "bool")]}
        return Opaque("comp", methods={"_get_outp_voltage": gv, "_get_inp_current": gi, "_get_state": gs})
    g = HMap(comp, label="self._g")
    stores = []
    def mk(label):
        return HMap(lambda n: {"__slot__": (label, to_z(n))}, lambda idx, v, label=label: stores.append((label, to_z(idx), v)), label=label)
    class StateMap(HMap): pass
    def state_get(n):
        nz = to_z(n)
        return Opaque("state-slot", setitem=lambda e, k, v, nz=nz: stores.append(("state[%s]" % k, nz, v)))
    st = HMap(state_get, lambda idx, v: stores.append(("state", to_z(idx), v)), label="state")
    eng.overrides["system.System._sys_vars"] = lambda e, r, a, k: (mk("v"), mk("i"), st)
    eng.overrides["system.System._set_phase_lkup"] = lambda e, r, a, k: e.event("set_phase_lkup")
    eng.overrides["system.System._get_nodes"] = lambda e, r, a, k: Seq(NN, lambda j: SV(NODE(j), "int"))
    selfobj = Opaque("self", cls="System", attrs={"_g": g, "_parents": HMap(H.parents), "_phase_lkup": HMap(lambda m: SV(H.LK(to_z(m)), "int"))})
    eng.loop_specs[(qual, "For", 0)] = LoopSpec(qual + "/for-nodes", inv=lambda env, k: z3.BoolVal(True))
    def thunk(e):
        del stores[:]
        e.assume(NN >= 0)
        return e.call_method(selfobj, "_sys_init", [phase])
    try:
        paths = eng.explore(thunk)
        run.functions.update(eng.inlined)
        obls += [dict(o, tags=["C04", "C06", "C03"]) for o in eng.obligations]
        for pi, p in enumerate(paths):
            eng._reset_path(p.decisions); eng._stack = []
            try: thunk(eng); kind = "return"
            except PathEnd: kind = "end"
            except PyRaise: kind = "raise"
            pc, stl = list(eng.pc), list(stores)
            if kind == "raise":
                obls.append({"id": qual + "/never-raises@p%d" % pi, "hyps": pc, "goal": z3.BoolVal(False), "kind": "post", "tags": ["C04", "C06"], "meta": {}}); continue
            if kind != "end": 
                obls.append({"id": qual + "/post:phase look-up rebuilt before the initial vectors@p%d" % pi, "hyps": pc, "goal": z3.BoolVal(any(ev[0] == "set_phase_lkup" for ev in eng.events)), "kind": "post", "tags": ["C06"], "meta": {}}); continue
            byl = {}
            for (label, idx, v) in stl: byl.setdefault(label, []).append((idx, v))
            nv = byl.get("v", [(None, None)])[-1][0]
            if nv is None:
                obls.append({"id": qual + "/post:v[n] stored@p%d" % pi, "hyps": pc, "goal": z3.BoolVal(False), "kind": "post", "tags": ["C04", "C06"], "meta": {}}); continue
            n = nv
            goal_vi = z3.And(to_z(byl["v"][-1][1], "real") == V0(n), z3.BoolVal("i" in byl) if True else None)
            if "i" in byl: goal_vi = z3.And(goal_vi, byl["i"][-1][0] == n, to_z(byl["i"][-1][1], "real") == I0(n))
            obls.append({"id": qual + "/post:v[n], i[n] = the node's own initial voltage / current@p%d" % pi, "hyps": pc, "goal": goal_vi, "kind": "post", "tags": ["C04", "C06", "C03"], "meta": {}})
            j = z3.Int("sj")
            if "state" in byl:        # root: its own state
                idx, v = byl["state"][-1]
                ok = isinstance(v, dict) and "off" in v
                obls.append({"id": qual + "/post:a root's state is its own state@p%d" % pi, "hyps": pc, "goal": z3.And(H.ROOT(n), idx == n, to_z(v["off"][0]) == ST0(n)) if ok else z3.BoolVal(False), "kind": "post", "tags": ["C04", "C06"], "meta": {}})
            elif "state[off]" in byl:
                idx, v = byl["state[off]"][-1]
                ok = isinstance(v, Seq)
                goal = z3.And(z3.Not(H.ROOT(n)), idx == n, v.ln == H.NPA(n), z3.Implies(z3.And(j >= 0, j < H.NPA(n)), to_z(v.elem(j)) == ST0(H.PA(n, j)))) if ok else z3.BoolVal(False)
                obls.append({"id": qual + "/post:a non-root's off flags are the initial states of its parents, in order@p%d" % pi, "hyps": pc, "goal": goal, "kind": "post", "tags": ["C04", "C06", "C05"], "meta": {}})
            else:
                obls.append({"id": qual + "/post:state[n] stored@p%d" % pi, "hyps": pc, "goal": z3.BoolVal(False), "kind": "post", "tags": ["C04", "C06"], "meta": {}})
            obls.append({"id": qual + "/canary@p%d" % pi, "hyps": pc, "goal": to_z(byl["v"][-1][1], "real") == V0(n) + 1, "kind": "canary", "tags": ["C04"], "meta": {}})
    except (Unsupported, FunctionMissing) as u:
        run.undecide(qual + "/post", str(u))
    return obls


def ZABS(t):
    return z3.If(t >= 0, t, -t)
