import Mathlib

/-!
Composition lemmas over the *contracts* (not over code), layer L of /verif/DESIGN.md.

* `energy_additive` (C07): with per-phase 24 h energy  E p = (d p / 3600) * P p * (24*3600 / Σ d)  (the contract of
  `System._calc_energy`, proved on the real source by pyvc), the per-phase energies of a row add up to the 24 h energy
  `24 * (Σ P p * d p / Σ d)` of its duration-weighted average, for ANY finite phase set.
* `power_balance` (C02): from the per-node contracts (non-load: Power - Loss = handed-on power; load: Power + Loss = what it
  takes in, hands on nothing; what a node hands on is what the children it feeds take in) the system balance
  Σ_sources Power = Σ_loads Power + Σ_all Loss follows for ANY finite forest (parent = the selected feeding input).
-/

open Finset BigOperators

theorem energy_additive {ι : Type} (s : Finset ι) (d P : ι → ℝ)
    (hT : (∑ p ∈ s, d p) ≠ 0) :
    ∑ p ∈ s, (d p / 3600) * P p * (24 * 3600 / ∑ q ∈ s, d q)
      = ((∑ p ∈ s, P p * d p) / ∑ q ∈ s, d q) * 24 := by
  have h3600 : (3600:ℝ) ≠ 0 := by norm_num
  rw [Finset.sum_div, Finset.sum_mul]
  apply Finset.sum_congr rfl
  intro p _
  field_simp

theorem power_balance {N : Type} [DecidableEq N] (nodes : Finset N)
    (parent : N → Option N)
    (pwr loss hand take : N → ℝ) (isLoad : N → Prop) [DecidablePred isLoad]
    (hpar : ∀ n ∈ nodes, ∀ p, parent n = some p → p ∈ nodes)
    -- a non-load takes in its Power and hands on Power - Loss
    (hbal : ∀ n ∈ nodes, ¬ isLoad n → pwr n - loss n = hand n ∧ take n = pwr n)
    -- a load hands on nothing and reports what it takes in as Power or as Loss
    (hload : ∀ n ∈ nodes, isLoad n → hand n = 0 ∧ pwr n + loss n = take n)
    -- what a node hands on (|Vout| * Iout) is what the children it feeds take in (Σ |Vin_c| * Iin_c)
    (hkir : ∀ p ∈ nodes, hand p = ∑ c ∈ nodes.filter (fun c => parent c = some p), take c)
    -- roots are sources, not loads
    (hroot : ∀ n ∈ nodes, parent n = none → ¬ isLoad n) :
    ∑ n ∈ nodes.filter (fun n => parent n = none), pwr n
      = ∑ n ∈ nodes.filter (fun n => isLoad n), pwr n + ∑ n ∈ nodes, loss n := by
  -- Σ_all hand = Σ_{non-root} take
  have h1 : ∑ p ∈ nodes, hand p = ∑ c ∈ nodes.filter (fun c => parent c ≠ none), take c := by
    rw [Finset.sum_congr rfl hkir]
    rw [Finset.sum_comm' (t' := nodes.filter (fun c => parent c ≠ none))
          (s' := fun c => nodes.filter (fun p => parent c = some p))]
    · apply Finset.sum_congr rfl
      intro c hc
      simp only [Finset.mem_filter] at hc
      obtain ⟨hcn, hne⟩ := hc
      obtain ⟨p, hp⟩ := Option.ne_none_iff_exists'.mp hne
      have : nodes.filter (fun q => parent c = some q) = {p} := by
        ext q; simp [hp, Finset.mem_filter]; constructor
        · rintro ⟨_, h⟩; exact h.symm
        · rintro rfl; exact ⟨hpar c hcn _ hp, rfl⟩
      simp [this]
    · intro p c
      simp only [Finset.mem_filter]
      constructor
      · rintro ⟨h1, h2, h3⟩
        exact ⟨⟨h1, h3⟩, h2, by simp [h3]⟩
      · rintro ⟨⟨h1, h3⟩, h2, _⟩
        exact ⟨h1, h2, h3⟩
  -- Σ_all hand = Σ_{non-load} (pwr - loss)
  have h2 : ∑ p ∈ nodes, hand p = ∑ n ∈ nodes.filter (fun n => ¬ isLoad n), (pwr n - loss n) := by
    rw [← Finset.sum_filter_add_sum_filter_not nodes (fun n => isLoad n)]
    have : ∑ n ∈ nodes.filter (fun n => isLoad n), hand n = 0 := by
      apply Finset.sum_eq_zero; intro n hn
      simp only [Finset.mem_filter] at hn; exact (hload n hn.1 hn.2).1
    rw [this, zero_add]
    apply Finset.sum_congr rfl; intro n hn
    simp only [Finset.mem_filter] at hn; exact ((hbal n hn.1 hn.2).1).symm
  -- Σ_all take, split by root / non-root
  have h3 : ∑ n ∈ nodes, take n
      = ∑ n ∈ nodes.filter (fun n => parent n = none), pwr n + ∑ c ∈ nodes.filter (fun c => parent c ≠ none), take c := by
    rw [← Finset.sum_filter_add_sum_filter_not nodes (fun n => parent n = none) take]
    congr 1
    apply Finset.sum_congr rfl; intro n hn
    simp only [Finset.mem_filter] at hn
    exact (hbal n hn.1 (hroot n hn.1 hn.2)).2
  -- Σ_all take, split by load / non-load
  have h4 : ∑ n ∈ nodes, take n
      = ∑ n ∈ nodes.filter (fun n => isLoad n), (pwr n + loss n) + ∑ n ∈ nodes.filter (fun n => ¬ isLoad n), pwr n := by
    rw [← Finset.sum_filter_add_sum_filter_not nodes (fun n => isLoad n) take]
    congr 1
    · apply Finset.sum_congr rfl; intro n hn
      simp only [Finset.mem_filter] at hn; exact ((hload n hn.1 hn.2).2).symm
    · apply Finset.sum_congr rfl; intro n hn
      simp only [Finset.mem_filter] at hn; exact (hbal n hn.1 hn.2).2
  have h5 := Finset.sum_filter_add_sum_filter_not nodes (fun n => isLoad n) loss
  rw [Finset.sum_sub_distrib] at h2
  rw [Finset.sum_add_distrib] at h4
  linarith
