#!/usr/bin/env python3
"""Pin the statement structure (nested statement kinds, expressions ignored) of the functions whose contracts lean on side-car
loop invariants or mechanically located slices -> contracts/SHAPES.json (from the unchanged tree).  When such a function has
another structure on the tree under test, a counter-model of one of its clauses that no concrete replay confirms is not
evidence (the invariant / slice map was written for the other structure): the clause is undecided and the bounded layer decides."""
import ast, json, sys
sys.path.insert(0, "/verif")
from pyvc.loader import Source
FUNCS = ["_solve", "solve", "batt_life", "_fwd_prop", "_back_prop", "_child_curr", "_sys_init", "_find_domain", "_set_phase_lkup", "_get_parents", "_get_childs", "_calc_energy"]


def shape(node):
    out = []
    for st in node.body if hasattr(node, "body") else []:
        k = type(st).__name__
        sub = []
        for fld in ("body", "orelse", "finalbody", "handlers"):
            for ch in getattr(st, fld, []) or []:
                if isinstance(ch, ast.ExceptHandler): sub.append(["Handler", shape(ch)])
        if isinstance(st, (ast.If, ast.For, ast.While, ast.With, ast.Try)):
            out.append([k, shape(st)] + ([["else", shape(type("X", (), {"body": st.orelse})())]] if getattr(st, "orelse", None) else [])
                       + ([["finally", shape(type("X", (), {"body": st.finalbody})())]] if getattr(st, "finalbody", None) else []) + sub)
        elif isinstance(st, ast.Expr) and isinstance(st.value, ast.Constant):
            continue       # docstrings
        else:
            out.append(k)
    return out


def shapes(src):
    res = {}
    for f in FUNCS:
        try:
            _, fn = src.method("System", f)
            res["system.System." + f] = shape(fn)
        except Exception:
            pass
    return res


if __name__ == "__main__":
    s = shapes(Source("/repo/src"))
    json.dump(s, open("/verif/contracts/SHAPES.json", "w"), indent=0, sort_keys=True)
    print({k: len(json.dumps(v)) for k, v in s.items()})
