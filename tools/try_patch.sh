#!/bin/bash
# tools/try_patch.sh <patch> <ID>... : apply a patch to /repo, run the quick checks, undo.  Never leaves /repo dirty.
P="$1"; shift
cd /repo && git diff --quiet || { echo "/repo is dirty"; exit 9; }
git apply "$P" || { echo "patch does not apply"; exit 9; }
for id in "$@"; do
  echo "--- $id on $(basename $P)"
  (cd /verif && timeout 1800 bin/check $id --tier ${TIER:-quick} 2>&1 | grep -E "VIOLATION|KNOWN-FINDING|summary|CHECKER-FAULT|UNDECIDED|Traceback" | head -12; echo "exit=${PIPESTATUS[0]}")
done
cd /repo && git checkout -- . && git status --short | head -3
