#!/usr/bin/env python3
"""Rewrite the generated blocks of DESIGN.md (between <!-- BEGIN:x --> and <!-- END:x -->) from evidence/*.json and seeded/KILL_MATRIX.json."""
import json, os, re, glob
R = "/verif"
ev = {os.path.basename(f)[:-5]: json.load(open(f)) for f in sorted(glob.glob(R + "/evidence/*.json"))}
man = json.load(open(R + "/MANIFEST.json"))
rows = ["| id | level | functions under contract | P/L obligations (discharged) | by back end | bounded oracles (cases in the quick tier) | quick wall |", "|---|---|---|---|---|---|---|"]
for c in man["checks"]:
    pid = c["property_id"]; e = ev.get(pid)
    if not e: continue
    cov = e["coverage"]
    fns = [f for f in cov.get("functions_under_contract", [])]
    bo = "; ".join("%s (%d)" % (b["name"], b.get("evaluations", 0)) for b in cov.get("bounded_oracles", [])) or "-"
    bb = ", ".join("%s %d" % (k, v) for k, v in cov.get("by_backend", {}).items() if v)
    rows.append("| %s | %s | %d | %d (%d) | %s | %s | %.0f s |" % (pid, c["level_claimed"]["category"], len(fns), cov.get("obligations", 0), cov.get("discharged", 0), bb or "-", bo, e.get("wall_s", 0)))
status = "\n".join(rows)
km = json.load(open(R + "/seeded/KILL_MATRIX.json")) if os.path.exists(R + "/seeded/KILL_MATRIX.json") else {}
rows = ["| seeded change | what it breaks (sub-agent's summary) | needs | caught by (quick tier) | first failing obligation / oracle |", "|---|---|---|---|---|"]
for n in sorted(km):
    meta = json.load(open("%s/seeded/%s/meta.json" % (R, n))) if os.path.exists("%s/seeded/%s/meta.json" % (R, n)) else {}
    res = {k: v for k, v in km[n].items() if isinstance(v, dict)}
    caught = [k for k, v in res.items() if v.get("exit") == 1]
    first = ""
    for k in caught:
        if res[k].get("first"): first = str(res[k]["first"][0])[:110]; break
    def cell(s): return str(s).replace("|", "/").replace("\n", " ")[:170]
    rows.append("| %s | %s | %s | %s | %s |" % (n, cell(meta.get("breaks", "")), cell(meta.get("needs", "")), ", ".join(caught) if caught else "**missed** (%s)" % ", ".join("%s exit %s" % (k, v.get("exit")) for k, v in res.items()), cell(first)))
kill = "\n".join(rows)
p = R + "/DESIGN.md"; s = open(p).read()
for tag, body in (("status", status), ("killmatrix", kill)):
    a, b = "<!-- BEGIN:%s -->" % tag, "<!-- END:%s -->" % tag
    if a in s and b in s:
        s = s[:s.index(a) + len(a)] + "\n" + body + "\n" + s[s.index(b):]
open(p, "w").write(s)
print("tables regenerated")
