#!/usr/bin/env python3
"""Record the clause ids (obligation ids without the path suffix) generated per property on the clean tree -> contracts/EXPECTED.json"""
import json, glob, os, re
out = {}
for f in sorted(glob.glob("/verif/evidence/*.json")):
    d = json.load(open(f))
    ids = sorted({re.sub(r"@[pq][0-9,]+$", "", o["id"]) for o in d["coverage"].get("obligation_list", []) if o.get("verdict") != "undecided"})
    out[d["property_id"]] = ids
json.dump(out, open("/verif/contracts/EXPECTED.json", "w"), indent=0)
print({k: len(v) for k, v in out.items()})
