#!/bin/bash
# run every claimed quick check on the clean tree so that the committed evidence files describe the unchanged tree
cd /verif
[ -z "$(git -C /repo status --porcelain)" ] || { echo "/repo dirty"; exit 9; }
ids=$(python3 -c "import json; print(' '.join(c['property_id'] for c in json.load(open('MANIFEST.json'))['checks']))")
[ $# -gt 0 ] && ids="$@"
rc=0
for id in $ids; do
  out=$(bin/check $id --tier quick 2>&1); e=$?
  echo "$id exit=$e $(echo "$out" | grep -E '^summary|VIOLATION|CHECKER-FAULT|UNDECIDED' | head -3 | cut -c1-160)"
  [ $e -eq 0 ] || rc=1
done
rm -f replays/*.json 2>/dev/null
python3-vt - <<'PY'
import json, jsonschema, glob
sch = json.load(open('/root/.vp/EVIDENCE.schema.json'))
for f in sorted(glob.glob('/verif/evidence/*.json')):
    d = json.load(open(f)); jsonschema.validate(d, sch)
    c = d['coverage']
    if d['level'] == 'proof': assert c['obligations'] == c['discharged'], f
print('evidence files valid')
PY
exit $rc
