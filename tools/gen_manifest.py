#!/usr/bin/env python3
"""Regenerate MANIFEST.json from checks/registry.py (keeps the manifest valid at all times)."""
import json, sys, os
sys.path.insert(0, "/verif")
from checks.registry import CHECKS, NOT_APPLICABLE, FIX_COMMITS
props = [json.loads(l)["id"] for l in open("/verif/properties.jsonl")]
checks = []
for pid in props:
    if pid in CHECKS:
        c = CHECKS[pid]
        checks.append({"property_id": pid, "quick_cmd": "bin/check %s --tier quick" % pid, "thorough_cmd": "bin/check %s --tier thorough" % pid,
                       "evidence_file": "evidence/%s.json" % pid, "replay_cmd_template": "bin/check --replay {path}", "engine": c.get("engine", "pyvc"),
                       "level_claimed": {"category": c["level"], "text": c["text"], "design_ref": "DESIGN.md section 7 " + pid},
                       "level_note": c["note"], "technique": c["technique"]})
na = [{"property_id": p, "reason": NOT_APPLICABLE.get(p, "check not built yet in this session (no claim made)")} for p in props if p not in CHECKS]
m = {"version": 1, "setup_cmd": "bin/setup",
     "hooks": {"guard": "SYSLOSS_VERIF", "enable": "none needed: contracts are side-car files under /verif/contracts, run-time wrappers are installed inside the check process; /repo carries no hook code",
               "baseline_off_cmd": "cd /repo && /venv/bin/python -m pytest -q -p no:cacheprovider --timeout=900", "source_commits": [], "add_only": True},
     "engines": [{"name": "pyvc", "path": "pyvc/", "kind_free_text": "AST->z3/cvc5 VC generator (symbolic executor) on the real source re-read every run + side-car contracts in contracts/", "serves_properties": sorted(CHECKS)},
                 {"name": "bounded", "path": "bounded/", "kind_free_text": "run-time contract checks of the same properties on enumerated/seeded systems and histories (bounded stand-in, never counted as proved)"},
                 {"name": "lean", "path": "lemmas/", "kind_free_text": "Lean 4 + Mathlib composition lemmas over the contracts (sums over arbitrary finite forests / phase sets)"}],
     "checks": checks, "not_applicable": na,
     "notes": "fix: commits in /repo (genuine defects repaired, see KNOWN_FINDINGS.txt): " + ", ".join(FIX_COMMITS)}
json.dump(m, open("/verif/MANIFEST.json", "w"), indent=1)
print("claimed", len(checks), "not_applicable", len(na))
