#!/usr/bin/env python3
"""Pin the loader's documented parameter types (components._cparams of every kind on the unchanged tree) -> contracts/TOML_TYPES.json.
The C13 clause 'a value of the wrong type is rejected' is stated against this table, not against whatever the tree under test declares."""
import json, sys
sys.path.insert(0, "/repo/src")
import sysloss.components as C
out = {}
for name in ("Source", "PLoad", "ILoad", "RLoad", "RLoss", "VLoss", "Converter", "LinReg", "PSwitch", "PMux", "Rectifier"):
    cp = getattr(getattr(C, name), "_cparams", None)
    if cp: out[name] = {k: sorted(t.__name__ for t in v["typ"]) for k, v in cp["params"].items()}
json.dump(out, open("/verif/contracts/TOML_TYPES.json", "w"), indent=1, sort_keys=True)
print({k: len(v) for k, v in out.items()})
