#!/usr/bin/env python3
"""Print the prompt given to a fresh sub-agent for one property (only the property text + its own worktree)."""
import json, sys, os
pid = sys.argv[1]; wt = sys.argv[2]; n = sys.argv[3] if len(sys.argv) > 3 else "2"
EXTRA = """

Make these HARD to find: assume the maintainers already run thousands of randomly generated small systems and random edit histories through the package and compare the results with an independent recomputation, and also check each function in isolation against its documented behaviour. Aim for changes that such checks are unlikely to hit: the interplay of two or three rarely combined features, a specific numeric coincidence or boundary (equal values, exact zeros, values just across a threshold), a state that only a particular multi-step history reaches, an argument form that is legal but unusual (ints instead of floats, lists vs scalars, tuples, numpy scalars, empty containers, names with special characters), behaviour that differs only on the second call, or two cooperating edits at different sites that each look fine alone."""
EXTRA2 = """

Make these HARD to find: assume the maintainers already run many thousands of randomly generated small systems (all component kinds, tables, limits, phases incl. odd ones, several sources, PMux, negative rails), random and exhaustive short edit histories with reports in between, and per-function checks of the documented behaviour of every function the property obviously depends on. Aim elsewhere: helper functions and constructors the property depends on only indirectly, default values and module-level constants, type coercions (int vs float, numpy scalars, bool, str), copy versus alias of arguments and defaults (shared mutable state between two components or two System objects, or between two calls), ordering assumptions (dict/registry order, node index re-use after deletions), state left behind by an earlier call or an earlier failure, exception paths, the interplay of three rarely combined features, exact numeric coincidences (equal voltages, exact zeros, values on a table grid line or limit boundary), and behaviour that differs only on the second or third call. Two cooperating edits at different sites that each look harmless are welcome."""
if len(sys.argv) > 4 and sys.argv[4] == "hard2": EXTRA = EXTRA2
p = [json.loads(l) for l in open("/verif/properties.jsonl") if json.loads(l)["id"] == pid][0]
OUTDIR = os.environ.get("MUT_OUTDIR", "out")
print(f"""You are helping to evaluate a verification effort for the open-source Python package geddy11/sysloss (a power-tree analyzer: sources, converters, regulators, loads; `System.solve()` computes steady-state voltages, currents, losses).

You have your own scratch git worktree of the repository at {wt} (work ONLY there; never touch /repo or /verif, and do not read /verif). The package sources are in {wt}/src/sysloss (files use CRLF line endings - preserve them: edit with care, e.g. python scripts reading/writing with newline='' or the Edit tool; check `git diff --stat` stays small). NEVER use `git stash` (the stash is shared between all worktrees of this repository and other people work in sibling worktrees); to compare with the clean tree save your change with `git diff > file`, `git checkout -- .`, and re-apply with `git apply file`. Run python as `cd {wt} && PYTHONPATH={wt}/src /venv/bin/python ...` so that your worktree's copy is imported (verify with `import sysloss; print(sysloss.__file__)`). The existing test suite is run with `cd {wt} && PYTHONPATH={wt}/src /venv/bin/python -m pytest -q -p no:cacheprovider tests` (91 tests, ~15 s, all pass on the unchanged tree). There is no network.

Here is a semantic property that the package is supposed to satisfy:

ID: {p['id']}
Title: {p['title']}
Statement: {p['statement']}
Quantifier: {p['quantifier']['text']}

Your task: produce {n} DIFFERENT, independent changes ("mutants") to the package source (src/sysloss/*.py only, not the tests) each of which BREAKS this property while the package still imports and the existing, unedited test suite still passes completely (91 passed). Make them realistic - the kind of slip a maintainer could make in a refactoring or a feature change - and SUBTLE: prefer changes that need something specific to manifest (an unusual but legal input, a particular tree shape or order of construction, a multi-step sequence of operations, a particular phase/limit/polarity configuration, a boundary value, or two cooperating edits at different sites that each look fine alone) over changes that any ordinary use would expose at once. Do not just delete a feature or raise an exception unconditionally. Each mutant should be small (a few lines).""" + (EXTRA if len(sys.argv) > 4 else "") + f"""

For each mutant k = 1..{n}:
 1. start from the clean worktree (`git -C {wt} checkout -- .`), make the change, run the full test suite and confirm 91 passed;
 2. write a demonstration script {wt}/demo_k.py (plain python, uses only the public API of sysloss where possible, prints what it observes, exits with status 1 when the property is violated and 0 when it holds). It must exit 1 with the change and exit 0 on the clean worktree - confirm both;
 3. save the change as a patch: `git -C {wt} diff > /tmp/wt/{OUTDIR}/{pid}_k.patch` (create /tmp/wt/out if needed) and copy the demo to /tmp/wt/{OUTDIR}/{pid}_k_demo.py; write /tmp/wt/{OUTDIR}/{pid}_k.json with keys: property, summary (what was changed), needs (what specific input/sequence is needed for it to manifest), tests ("91 passed"), demo_clean_exit, demo_mutant_exit;
 4. restore the clean worktree before the next mutant (`git -C {wt} checkout -- .`).
The patch must apply with `git apply` to a clean checkout of the same commit (check with `git -C {wt} apply --check` after restoring).

Finish with a short report listing the mutants you produced (file names and one line each). If you cannot find a mutant that passes the test suite, say so rather than lowering the bar.""")
