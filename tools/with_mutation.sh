#!/bin/bash
# tools/with_mutation.sh <file-under-src/sysloss> <python-regex-old> <new> -- <command...>
# Runs <command> with SYSLOSS_SRC pointing at a scratch copy of /repo/src with one textual substitution applied (engine self-test).
F="$1"; OLD="$2"; NEW="$3"; shift 4
D=$(mktemp -d /tmp/mut.XXXXXX); cp -r /repo/src "$D/"
python3 - "$D/src/sysloss/$F" "$OLD" "$NEW" <<'PY'
import sys, re
p, old, new = sys.argv[1:4]
s = open(p, newline="").read()
s2, n = re.subn(old, new, s, count=1)
assert n == 1, "pattern not found: " + old
open(p, "w", newline="").write(s2)
PY
[ $? -eq 0 ] || { rm -rf "$D"; exit 9; }
SYSLOSS_SRC="$D/src" PYTHONPATH="$D/src" "$@"; rc=$?
rm -rf "$D"; exit $rc
