#!/usr/bin/env python3
"""tools/kill_matrix.py [names...] [--all-checks] : apply each seeded mutant to /repo, run quick checks, undo; write seeded/KILL_MATRIX.json"""
import json, os, subprocess, sys, re, time
ROOT = "/verif"
args = [a for a in sys.argv[1:] if not a.startswith("--")]
allchecks = "--all-checks" in sys.argv
man = json.load(open(ROOT + "/MANIFEST.json"))
claimed = [c["property_id"] for c in man["checks"]]
names = args or sorted(os.listdir(ROOT + "/seeded"))
names = [n for n in names if os.path.isdir("%s/seeded/%s" % (ROOT, n))]
path = ROOT + "/seeded/KILL_MATRIX.json"
mat = json.load(open(path)) if os.path.exists(path) else {}
def sh(cmd, **kw): return subprocess.run(cmd, shell=True, capture_output=True, text=True, **kw)
assert sh("git -C /repo status --porcelain").stdout.strip() == "", "/repo dirty"
for n in names:
    prop = [x for x in n.split("_") if x.startswith("C")][0]
    ids = claimed if allchecks else [p for p in [prop] if p in claimed]
    if not ids:
        mat.setdefault(n, {})["note"] = "property %s not claimed yet" % prop; continue
    r = sh("git -C /repo apply %s/seeded/%s/patch.diff" % (ROOT, n))
    if r.returncode != 0:
        mat.setdefault(n, {})["note"] = "patch does not apply: " + r.stderr[:200]; continue
    try:
        for pid in ids:
            t0 = time.time()
            r = sh("cd /verif && timeout 1800 bin/check %s --tier quick" % pid)
            viol = re.findall(r"VIOLATION property=\S+ replay=\S+(?: no-failing-input-found)?", r.stdout)
            obl = []
            for v in viol[:6]:
                m = re.search(r"replay=(\S+)", v)
                try:
                    d = json.load(open(m.group(1))); obl.append(d.get("obligation") or d.get("oracle"))
                except Exception: pass
            mat.setdefault(n, {})[pid] = {"exit": r.returncode, "violations": len(viol), "first": obl[:4], "no_input": sum("no-failing" in v for v in viol), "s": round(time.time() - t0, 1),
                                          "other": [l for l in r.stdout.splitlines() if l.startswith(("CHECKER-FAULT", "UNDECIDED"))][:3]}
            print(n, pid, "exit", r.returncode, len(viol), "violations", obl[:2], flush=True)
    finally:
        sh("git -C /repo checkout -- .")
    json.dump(mat, open(path, "w"), indent=1)
assert sh("git -C /repo status --porcelain").stdout.strip() == ""
