#!/usr/bin/env python3
"""tools/kill_matrix.py [names...] [--all-checks] [--inplace] : run the quick check(s) of each seeded change's property against the change and
record what catches it in seeded/KILL_MATRIX.json.  Default: each change is applied to a scratch copy of /repo/src (tools/with_patch.sh,
SYSLOSS_SRC), four at a time, /repo stays untouched.  --inplace: `git -C /repo apply`, run, `git -C /repo checkout -- .` (serial), as a user would."""
import json, os, subprocess, sys, re, time
from concurrent.futures import ThreadPoolExecutor
ROOT = "/verif"
args = [a for a in sys.argv[1:] if not a.startswith("--")]
allchecks = "--all-checks" in sys.argv; inplace = "--inplace" in sys.argv
man = json.load(open(ROOT + "/MANIFEST.json"))
claimed = [c["property_id"] for c in man["checks"]]
names = args or sorted(os.listdir(ROOT + "/seeded"))
names = [n for n in names if os.path.isdir("%s/seeded/%s" % (ROOT, n))]
path = ROOT + "/seeded/KILL_MATRIX.json"
mat = json.load(open(path)) if os.path.exists(path) else {}
def sh(cmd, **kw): return subprocess.run(cmd, shell=True, capture_output=True, text=True, **kw)
if inplace: assert sh("git -C /repo status --porcelain").stdout.strip() == "", "/repo dirty"


def one(job):
    n, pid = job
    t0 = time.time()
    patch = "%s/seeded/%s/patch.diff" % (ROOT, n)
    if inplace:
        r = sh("git -C /repo apply %s" % patch)
        if r.returncode != 0: return n, pid, {"note": "patch does not apply: " + r.stderr[:200]}
        try: r = sh("cd /verif && timeout 1800 bin/check %s --tier quick" % pid)
        finally: sh("git -C /repo checkout -- .")
    else:
        r = sh("cd /verif && timeout 1800 tools/with_patch.sh %s -- bin/check %s --tier quick" % (patch, pid))
        if r.returncode == 9: return n, pid, {"note": "patch does not apply"}
    viol = re.findall(r"VIOLATION property=\S+ replay=\S+(?: no-failing-input-found)?", r.stdout)
    obl = []
    for v in viol[:6]:
        m = re.search(r"replay=(\S+)", v)
        try:
            d = json.load(open(m.group(1))); obl.append(d.get("obligation") or d.get("oracle"))
        except Exception: pass
    return n, pid, {"exit": r.returncode, "violations": len(viol), "first": obl[:4], "no_input": sum("no-failing" in v for v in viol), "s": round(time.time() - t0, 1),
                    "other": [l for l in r.stdout.splitlines() if l.startswith(("CHECKER-FAULT", "UNDECIDED"))][:3]}


jobs = []
for n in names:
    prop = [x for x in n.split("_") if x.startswith("C")][0]
    ids = claimed if allchecks else [p for p in [prop] if p in claimed]
    if not ids: mat.setdefault(n, {})["note"] = "property %s not claimed yet" % prop; continue
    jobs += [(n, pid) for pid in ids]
with ThreadPoolExecutor(1 if inplace else 4) as ex:
    for n, pid, res in ex.map(one, jobs):
        if "note" in res and "exit" not in res: mat.setdefault(n, {})["note"] = res["note"]; print(n, pid, res["note"], flush=True); continue
        mat.setdefault(n, {})[pid] = res
        print(n, pid, "exit", res["exit"], res["violations"], "violations", res["first"][:2], flush=True)
        json.dump(mat, open(path, "w"), indent=1)
json.dump(mat, open(path, "w"), indent=1)
if inplace: assert sh("git -C /repo status --porcelain").stdout.strip() == ""
