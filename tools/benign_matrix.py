#!/usr/bin/env python3
"""tools/benign_matrix.py [names...] : run every quick check against each behaviour-preserving change under benign/<name>/patch.diff
(scratch copy of /repo/src + SYSLOSS_SRC, /repo untouched); anything but exit 0 is a false alarm to fix.  Writes benign/MATRIX.json.
Run tools/refresh_evidence.sh afterwards (the runs rewrite evidence/)."""
import json, os, subprocess, sys, re, time
from concurrent.futures import ThreadPoolExecutor
ROOT = "/verif"
names = [a for a in sys.argv[1:] if not a.startswith("--")] or sorted(os.listdir(ROOT + "/benign"))
names = [n for n in names if os.path.isfile("%s/benign/%s/patch.diff" % (ROOT, n))]
man = json.load(open(ROOT + "/MANIFEST.json"))
ids = [c["property_id"] for c in man["checks"]]
if os.environ.get("BENIGN_IDS"): ids = [i for i in ids if i in os.environ["BENIGN_IDS"].split(",")]      # subset of checks (after a change to some of them)
path = ROOT + "/benign/MATRIX.json"
mat = json.load(open(path)) if os.path.exists(path) else {}
def one(job):
    n, pid = job
    t0 = time.time()
    r = subprocess.run("cd /verif && timeout 1800 tools/with_patch.sh %s/benign/%s/patch.diff -- bin/check %s --tier quick" % (ROOT, n, pid), shell=True, capture_output=True, text=True)
    lines = [l for l in r.stdout.splitlines() if l.startswith(("VIOLATION", "CHECKER-FAULT", "UNDECIDED"))]
    return n, pid, {"exit": r.returncode, "lines": lines[:4], "s": round(time.time() - t0, 1)}
jobs = [(n, pid) for n in names for pid in ids]
with ThreadPoolExecutor(5) as ex:
    for n, pid, res in ex.map(one, jobs):
        mat.setdefault(n, {})[pid] = res
        if res["exit"] != 0: print(n, pid, "exit", res["exit"], res["lines"][:2], flush=True)
        json.dump(mat, open(path, "w"), indent=1)
bad = {n: [p for p, r in mat[n].items() if r["exit"] != 0] for n in names}
print("false alarms:", {n: b for n, b in bad.items() if b} or "none")
