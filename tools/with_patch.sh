#!/bin/bash
# tools/with_patch.sh <patch> -- <command...> : run <command> with SYSLOSS_SRC/PYTHONPATH on a scratch copy of /repo/src with the patch applied
P="$1"; shift 2
D=$(mktemp -d /tmp/mutp.XXXXXX); mkdir -p $D; cp -r /repo/src "$D/"
(cd "$D" && git apply "$P") || { echo "patch does not apply"; rm -rf "$D"; exit 9; }
SYSLOSS_SRC="$D/src" PYTHONPATH="$D/src" "$@"; rc=$?
rm -rf "$D"; exit $rc
