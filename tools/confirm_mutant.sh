#!/bin/bash
# tools/confirm_mutant.sh <name> (e.g. C01_1): confirm a sub-agent's mutant in a fresh scratch worktree and keep it under seeded/<name>/
N="$1"; OUT=${MUT_OUT:-/tmp/wt/out}; W=/tmp/wt/confirm_$N
[ -f $OUT/$N.patch ] || { echo "no patch $N"; exit 2; }
git -C /repo worktree add -q --detach $W HEAD || exit 2
cd $W
git apply $OUT/$N.patch || { echo "$N: patch does not apply"; git -C /repo worktree remove --force $W; exit 2; }
T=$(PYTHONPATH=$W/src /venv/bin/python -m pytest -q -p no:cacheprovider tests 2>&1 | tail -1)
PYTHONPATH=$W/src timeout 300 /venv/bin/python $OUT/${N}_demo.py >/tmp/wt/demo_mut.log 2>&1; DM=$?
git checkout -q -- .
PYTHONPATH=$W/src timeout 300 /venv/bin/python $OUT/${N}_demo.py >/tmp/wt/demo_clean.log 2>&1; DC=$?
cd /; git -C /repo worktree remove --force $W
echo "$N: tests='$T' demo_mutant_exit=$DM demo_clean_exit=$DC"
case "$T" in *"91 passed"*) ;; *) echo "$N REJECTED (tests)"; exit 1;; esac
[ $DM -eq 1 ] && [ $DC -eq 0 ] || { echo "$N REJECTED (demo)"; exit 1; }
D=/verif/seeded/${PREFIX}$N; mkdir -p $D
cp $OUT/$N.patch $D/patch.diff; cp $OUT/${N}_demo.py $D/demo.py
python3 - "$N" "$T" <<'PY'
import json, sys
n, t = sys.argv[1:3]
try: src = json.load(open(__import__("os").environ.get("MUT_OUT", "/tmp/wt/out") + "/%s.json" % n))
except Exception: src = {}
meta = {"property": [x for x in (__import__("os").environ.get("PREFIX", "") + n).split("_") if x.startswith("C")][0], "breaks": src.get("summary", ""), "needs": src.get("needs", ""),
        "confirmed": {"worktree": "fresh scratch worktree of /repo HEAD (removed afterwards)", "tests": t, "demo_with_patch_exit": 1, "demo_clean_exit": 0,
                      "ran": ["git apply patch.diff", "PYTHONPATH=<wt>/src /venv/bin/python -m pytest -q -p no:cacheprovider tests", "python demo.py (with patch)", "git checkout -- . ; python demo.py (clean)"]},
        "origin": "fresh sub-agent given only the property text and its own worktree"}
json.dump(meta, open("/verif/seeded/%s%s/meta.json" % (__import__("os").environ.get("PREFIX", ""), n), "w"), indent=1)
PY
echo "$N KEPT"
