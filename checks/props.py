"""One function per property: which P obligations, L lemmas and B oracle families decide it."""
from .common import *
from .run import discharge_tagged, canaries, covers
from pyvc import solver


def _n(tier, quick, thorough):
    return quick if tier == "quick" else thorough


def comp_layer(run, tag, methods, pmux_ns, seed, tier, kinds=None, also=()):
    from contracts import components as CC
    src = Source()
    g = CC.generate(run, src, methods, pmux_ns, kinds)
    n = discharge_tagged(run, g, tag)
    for t in also:
        for ob in g.obls:
            if t in ob.get("tags", []) and tag not in ob.get("tags", []):
                run.discharge(ob); n += 1
    if n == 0:
        run.fault("no component obligation generated for tag %s" % tag)
    canaries(run, g)
    covers(run, g, tag)
    m = {"outp": "_solv_outp_volt", "inp": "_solv_inp_curr", "pwr": "_solv_pwr_loss"}
    nf, ni, mism = CC.cross_check(src, seed, _n(tier, 3, 40), [m[x] for x in methods], kinds)
    run.crosscheck["functions"] += nf; run.crosscheck["inputs"] += ni; run.crosscheck["mismatches"] += len(mism)
    if mism:
        run.fault("engine/CPython cross-check mismatch: %r" % (mism[0],))
    run.trusted.update(["interpolator contract: _ipr._interp(x, y) is a function of (x, y) with values in the table's value range (validated boundedly by C10)"])
    return g


TABLE_OPTS = dict(max_nodes=8, n_sources=(1, 3), p_mux=0.3, p_table=0.2, p_limits=0.3, p_phases=0.4, p_rails=0.3, p_groups=0.2, p_byrail=0.3)


def table_layer(run, name, props, seed, n, opts=None, solve_kw=None):
    from bounded import runner
    o = dict(TABLE_OPTS); o.update(opts or {})
    res = runner.table_family(seed, n, o, props, solve_kw or dict(ta=30.0, energy=True))
    faults = [f for f in res["failures"] if f.get("fault")]
    if faults:
        run.fault("bounded generator fault: %s" % faults[0]["text"])
        res["failures"] = [f for f in res["failures"] if not f.get("fault")]
    run.add_bounded(name, res)
    return res


def lean_layer(run, lemmas):
    from . import leanrun
    ok, info = leanrun.ensure()
    for lem in lemmas:
        if ok:
            run.record("lean:%s" % lem, True, backend="lean", kind="lemma")
        else:
            run.undecide("lean:%s" % lem, info)
    run.trusted.add("Lean 4.33 + Mathlib (composition lemmas over the contracts)")


# ================================================================================================================ C01
def c01(tier, seed):
    run = Run("C01", tier, seed, "other", "bin/check C01 --tier " + tier)
    comp_layer(run, "C01", ("outp", "inp"), (1, 2), seed, tier)
    from . import system_layer as SL
    SL.child_curr(run); SL.propagation(run); SL.solve_slice(run, "C01"); SL.graph_helpers(run, "C01"); SL.parents_childs(run, "C01")
    table_layer(run, "solve-table-oracle", ["C01"], seed, _n(tier, 500, 20000))
    table_layer(run, "solve-table-oracle/tables+polarity", ["C01"], seed + 1, _n(tier, 300, 10000), dict(p_table=0.8, p_neg=0.5, p_phases=0.2))
    from bounded import families as BF_
    run.add_bounded("tabulated parameters of every table-taking kind evaluate as tabulated (grid, lines, cells)", BF_.interp_family(seed, _n(tier, 200, 6000)))
    from bounded import hist
    run.add_bounded("solve table after edit histories (solve, edit, solve)", hist.random_history_family(seed, _n(tier, 200, 4000), _n(tier, 6, 10), ["C01", "C16"]))
    run.notes.append("composition (paper argument, not machine-checked): per-node laws + call-site obligations + _solve contract give the row-level statement within K*(vtol+itol)")
    run.add_bounded("a load moved under its own name (solve, del_comp, add_comp, solve)", BF_.move_family(seed, _n(tier, 150, 4000), ["C01"]))
    _alias(run, 'C01', seed, tier)
    return run.finish()


# ================================================================================================================ C02
def c02(tier, seed):
    run = Run("C02", tier, seed, "other", "bin/check C02 --tier " + tier)
    # the balance obligations assume that (Vout, Iin) follow the kind's laws: those laws are discharged here as prerequisites
    comp_layer(run, "C02", ("outp", "inp", "pwr"), (1, 2), seed, tier, also=("LAW",))
    from . import system_layer as SL
    SL.solve_slice(run, "C02"); SL.graph_helpers(run, "TABLE")
    lean_layer(run, ["power_balance"])
    table_layer(run, "solve-table-oracle", ["C02"], seed, _n(tier, 500, 20000), solve_kw=dict(ta=40.0, energy=False))
    table_layer(run, "solve-table-oracle/ta+phases", ["C02"], seed + 1, _n(tier, 300, 10000), dict(p_phases=0.9), solve_kw=dict(ta=-10.0))
    return run.finish()


# ================================================================================================================ C04
def c04(tier, seed):
    run = Run("C04", tier, seed, "other", "bin/check C04 --tier " + tier)
    comp_layer(run, "C04", ("outp", "inp", "pwr"), (1, 2), seed, tier)
    from . import system_layer as SL
    SL.init_state(run); SL.graph_helpers(run, "TABLE"); SL.propagation(run); SL.phase_lkup(run); SL.child_curr(run)
    table_layer(run, "dead-rail-oracle", ["C04"], seed, _n(tier, 600, 20000), dict(p_dead_source=0.35, p_phases=0.7, p_mux=0.4, p_ghost=0.3))
    from bounded import families as BF, hist
    run.add_bounded("every single edit / configuration call from the base systems, then the table oracle", hist.single_call_family(["C04"]))
    run.add_bounded("solve, re-configure phases, solve vs fresh system", BF.reconfig_family(seed, _n(tier, 250, 6000), ["C04"]))
    run.add_bounded("dead rails under loose solver tolerances", BF.loose_dead_family(seed, _n(tier, 300, 8000)))
    run.add_bounded("a load moved under its own name (solve, del_comp, add_comp, solve)", BF.move_family(seed, _n(tier, 200, 5000), ["C04"]))
    SL.solve_loop(run)
    run.notes.append("composition by depth (paper lemma): parent outputs 0 V => child is dead => outputs 0 V and draws 0 A")
    return run.finish()


# ================================================================================================================ C03
def c03(tier, seed):
    run = Run("C03", tier, seed, "other", "bin/check C03 --tier " + tier)
    from . import system_layer as SL
    SL.solve_loop(run); SL.init_state(run, "C03")
    SL.solve_slice(run, "C03")
    comp_layer(run, "C03", ("outp", "inp"), (1, 2), seed, tier, also=("LAW",))     # 'converged steady state': the laws themselves; 'else ValueError (unstable)': their raise conditions
    SL.graph_helpers(run, "TABLE")
    from bounded import families as BF
    run.add_bounded("overload+tolerance-grid", BF.convergence_family(seed, _n(tier, 300, 6000)))
    run.add_bounded("solve, re-configure phases, solve vs fresh system", BF.reconfig_family(seed, _n(tier, 250, 6000), ["C03"]))
    from bounded import hist
    run.add_bounded("solve after edit histories (freed node slots, reports between edits) vs the rebuilt system", hist.random_history_family(seed, _n(tier, 250, 4000), _n(tier, 6, 10), ["C03"]))
    table_layer(run, "modest-drop systems converge with default settings", ["C03"], seed, _n(tier, 400, 20000), dict(p_table=0.3))
    run.notes.append("'a modest-drop steady state is always found' is a numerical-convergence statement: bounded only (every generated modest-drop system must converge)")
    return run.finish()


# ================================================================================================================ C05
def c05(tier, seed):
    run = Run("C05", tier, seed, "other", "bin/check C05 --tier " + tier)
    from . import system_layer as SL
    SL.pri_inp(run)
    comp_layer(run, "C05", ("outp", "inp"), (1, 2, 3, 4), seed, tier, kinds=["PMux"])
    SL.child_curr(run); SL.solve_slice(run, "C05"); SL.find_domain(run); SL.graph_helpers(run, "TABLE"); SL.parents_childs(run, "C05")
    SL.registry(run, "C06"); SL.phase_lkup(run)          # which input is live depends on the phase configuration being stored under the component it was given for
    from bounded import families as BF
    run.add_bounded("mux live/dead patterns (exhaustive patterns x parameter sets)", BF.mux_family(seed, tier))
    from bounded import hist
    run.add_bounded("every single edit / configuration call from the base systems, then the table oracle", hist.single_call_family(["C05"]))
    table_layer(run, "solve-table-oracle/mux", ["C05"], seed, _n(tier, 400, 20000), dict(p_mux=1.0, n_sources=(1, 3), p_dead_source=0.3, p_phases=0.5))
    _alias(run, 'C05', seed, tier)
    return run.finish()


# ================================================================================================================ C06
def c06(tier, seed):
    run = Run("C06", tier, seed, "other", "bin/check C06 --tier " + tier)
    from . import system_layer as SL
    comp_layer(run, "C06", ("outp", "inp", "pwr"), (1, 2), seed, tier)
    SL.phase_lkup(run); SL.propagation(run); SL.solve_slice(run, "C06"); SL.registry(run, "C06"); SL.graph_helpers(run, "TABLE"); SL.init_state(run, "C06")
    from bounded import families as BF
    run.add_bounded("phase equivalences (solve(phase=p) == rows of p; unknown phase; no-config == phase-less)", BF.phase_family(seed, _n(tier, 150, 4000)))
    run.add_bounded("solve, re-configure phases, solve vs fresh system", BF.reconfig_family(seed, _n(tier, 250, 6000), ["C06"]))
    from bounded import hist
    run.add_bounded("every single edit / configuration call from the base systems, then the table oracle", hist.single_call_family(["C06"]))
    table_layer(run, "solve-table-oracle/phases", ["C06"], seed, _n(tier, 400, 20000), dict(p_phases=1.0))
    run.notes.append("'per-phase solves are independent' is a paper argument (each phase runs _solve from _sys_init)")
    _alias(run, 'C06', seed, tier)
    return run.finish()


# ================================================================================================================ C07
def c07(tier, seed):
    run = Run("C07", tier, seed, "other", "bin/check C07 --tier " + tier)
    from . import system_layer as SL
    SL.calc_energy(run); SL.find_domain(run); SL.solve_slice(run, "C07"); SL.graph_helpers(run, "TABLE")
    lean_layer(run, ["energy_additive"])
    table_layer(run, "aggregate-rows oracle", ["C07"], seed, _n(tier, 500, 20000), dict(n_sources=(1, 3), p_mux=0.5, p_phases=0.6, p_dead_source=0.2))
    from bounded import families as BF
    run.add_bounded("construction orders of the same structure", BF.order_family(seed, _n(tier, 60, 2000), ["C07"]))
    run.add_bounded("mux live/dead patterns: attribution and aggregate rows", BF.mux_family(seed, tier, ("C07",)))
    run.add_bounded("re-timed phases (solve, set_sys_phases with other durations, solve) vs fresh system", BF.retime_family(seed, _n(tier, 60, 1500)))
    from bounded import hist
    run.add_bounded("aggregate rows after edit histories (freed node slots re-used)", hist.random_history_family(seed + 5, _n(tier, 250, 5000), _n(tier, 6, 10), ["C07"]))
    run.notes.append("the pandas aggregation code of solve() is outside P reach: Subsystem/total/average rows are decided bounded")
    return run.finish()


# ================================================================================================================ C09
def c09(tier, seed):
    run = Run("C09", tier, seed, "other", "bin/check C09 --tier " + tier)
    from . import system_layer as SL
    SL.warnings(run); SL.solve_slice(run, "C09"); SL.graph_helpers(run, "TABLE")
    table_layer(run, "warnings oracle", ["C09"], seed, _n(tier, 500, 20000), dict(p_limits=0.9, p_phases=0.5, n_sources=(1, 2), p_mux=0.3, p_neg=0.4, p_table=0.35, p_orphan_conf=0.3))
    from bounded import families as BF
    run.add_bounded("limit boundaries and key subsets", BF.warn_boundary_family(seed, _n(tier, 200, 5000)))
    return run.finish()


# ================================================================================================================ C14 / C15 / C16
def _alias(run, pid, seed, tier):
    from bounded import alias
    run.add_bounded("shared argument objects (two systems / two components built from the same python objects)", alias.alias_family(seed, _n(tier, 48, 1500), [pid]))


def _hist(run, props, seed, tier):
    from bounded import hist
    res = hist.history_family(seed, tier, props)
    faults = [f for f in res["failures"] if f.get("fault")]
    if faults: run.fault("bounded generator fault: %s" % faults[0]["text"])
    res["failures"] = [f for f in res["failures"] if not f.get("fault")]
    run.add_bounded("edit histories", res)


def c14(tier, seed):
    run = Run("C14", tier, seed, "other", "bin/check C14 --tier " + tier)
    from . import system_layer as SL
    SL.registry(run, "C14"); SL.graph_helpers(run, "C14"); SL.parents_childs(run, "C14")
    _hist(run, ["C14"], seed, tier)
    _alias(run, 'C14', seed, tier)
    return run.finish()


def c15(tier, seed):
    run = Run("C15", tier, seed, "other", "bin/check C15 --tier " + tier)
    from . import system_layer as SL
    SL.registry(run, "C15")
    _hist(run, ["C15"], seed, tier)
    _alias(run, 'C15', seed, tier)
    return run.finish()


def c16(tier, seed):
    run = Run("C16", tier, seed, "other", "bin/check C16 --tier " + tier)
    from . import system_layer as SL
    SL.registry(run, "C16"); SL.find_domain(run); SL.solve_slice(run, "C16"); SL.graph_helpers(run, "C16")
    _hist(run, ["C16"], seed, tier)
    from bounded import families as BF
    run.add_bounded("construction orders of the same structure", BF.order_family(seed, _n(tier, 60, 2000), ["C16"]))
    run.add_bounded("solve, re-configure phases, solve vs fresh system", BF.reconfig_family(seed, _n(tier, 250, 6000), ["C16"]))
    from bounded import diagrams as DG
    run.add_bounded("diagrams of built and edited systems show exactly the final structure", DG.diagram_family(seed, _n(tier, 60, 1500)))
    run.notes.append("whole-history equivalence of two System objects is not a per-function contract: decided bounded (edited vs rebuilt from an independent reference model)")
    run.add_bounded("a load moved under its own name (solve, del_comp, add_comp, solve)", BF.move_family(seed, _n(tier, 150, 4000), ["C16"]))
    _alias(run, 'C16', seed, tier)
    return run.finish()


# ================================================================================================================ C08
def c08(tier, seed):
    run = Run("C08", tier, seed, "other", "bin/check C08 --tier " + tier)
    from . import system_layer as SL
    SL.solve_slice(run, "C08"); SL.pri_inp(run); SL.graph_helpers(run, "TABLE")
    from bounded import families as BF
    run.add_bounded("rail report oracle", BF.rail_family(seed, _n(tier, 500, 20000)))
    run.notes.append("rail_rep() is pure pandas code: its statement is decided bounded; P covers the Rail in / Rail out labelling of the solve() rows it sums over")
    return run.finish()


# ================================================================================================================ C11 / C12
def _ctor(run, tag):
    from contracts import ctor as CT
    from .system_layer import _discharge
    src = Source()
    obls, acc = CT.ctor_obligations(run, src)
    rt = CT.roundtrip_obligations(run, src, acc) if tag == "C12" else []
    _discharge(run, [o for o in obls + rt if tag in o.get("tags", [])], "constructors / loader")


def c11(tier, seed):
    run = Run("C11", tier, seed, "other", "bin/check C11 --tier " + tier)
    _ctor(run, "C11")
    # 'consequently no accepted component can show negative loss, efficiency above 100 % or passive amplification': INV_K is the
    # precondition under which the C02 / C03 obligations of every kind are proved
    comp_layer(run, "C11", ("outp", "pwr"), (1, 2), seed, tier)
    from bounded import families as BF
    res = BF.ctor_family(seed, _n(tier, 200, 5000))
    res["exhaustive"] = False
    run.add_bounded("constructor rejections + sign normalisation twins", res)
    return run.finish()


def c12(tier, seed):
    run = Run("C12", tier, seed, "other", "bin/check C12 --tier " + tier)
    _ctor(run, "C12")
    from bounded import families as BF
    run.add_bounded("save -> from_file round trip", BF.roundtrip_family(seed, _n(tier, 400, 12000)))
    run.trusted.add("json.dump / json.load round-trip floats, strings, bools, lists and dicts")
    return run.finish()


# ================================================================================================================ C10
def c10(tier, seed):
    run = Run("C10", tier, seed, "other", "bin/check C10 --tier " + tier)
    from contracts import ctor as CT
    from .system_layer import _discharge
    _discharge(run, CT.interp_obligations(run, Source()), "interpolators")
    # call sites: every law queries ipr(|io|, |vi_selected|)  (the interpolator argument is part of each law clause)
    comp_layer(run, "LAW", ("outp", "inp"), (1, 2), seed, tier, kinds=["VLoss", "Converter", "LinReg", "PSwitch", "PMux", "Rectifier:diode", "Rectifier:mosfet"])
    comp_layer(run, "C02", ("pwr",), (1,), seed, tier, kinds=["VLoss", "Converter", "LinReg", "PSwitch", "PMux", "Rectifier:diode", "Rectifier:mosfet"])
    from bounded import families as BF
    run.add_bounded("interpolation semantics on random tables", BF.interp_family(seed, _n(tier, 350, 14000)))
    run.notes.append("the interpolation arithmetic itself lives in numpy / scipy (external): exact-on-grid / linear / clamped / no-NaN is decided bounded; P covers our own clamp logic, argument magnitudes, table flattening and every call site")
    _alias(run, 'C10', seed, tier)
    return run.finish()


# ================================================================================================================ C13
def c13(tier, seed):
    run = Run("C13", tier, seed, "other", "bin/check C13 --tier " + tier)
    from contracts import ctor as CT
    from .system_layer import _discharge
    _discharge(run, CT.toml_obligations(run, Source()), "TOML loader")
    from bounded import families as BF
    run.add_bounded("TOML files vs constructor twins", BF.toml_family(seed, _n(tier, 500, 15000)))
    run.trusted.add("toml.load / toml.dump")
    return run.finish()


# ================================================================================================================ C17 / C18 / C19
def c17(tier, seed):
    run = Run("C17", tier, seed, "other", "bin/check C17 --tier " + tier)
    from . import system_layer as SL
    SL.frame(run); SL.batt_life(run, "C17")
    from bounded import families as BF
    run.add_bounded("analysis interleavings (snapshot before the first analysis)", BF.analysis_family(seed, _n(tier, 160, 5000)))
    run.add_bounded("batt_life restoration", BF.battlife_family(seed + 1, _n(tier, 100, 3000)))
    _alias(run, 'C17', seed, tier)
    return run.finish()


def c18(tier, seed):
    run = Run("C18", tier, seed, "other", "bin/check C18 --tier " + tier)
    from . import system_layer as SL
    SL.batt_life(run, "C18")
    from bounded import families as BF
    run.add_bounded("batt_life steps vs independent solves", BF.battlife_family(seed, _n(tier, 300, 8000)))
    return run.finish()


def c19(tier, seed):
    run = Run("C19", tier, seed, "other", "bin/check C19 --tier " + tier)
    from contracts import diagram as CD
    from .system_layer import _discharge
    _discharge(run, CD.obligations(run, Source()), "diagram helpers (_nice_float, _gcolor, _diag.add_node)")
    from bounded import diagrams as DG
    run.add_bounded("label / colour helpers on a log grid (engine model vs CPython)", DG.helper_family(seed, _n(tier, 3000, 200000)))
    run.add_bounded("Graphviz JSON read-back of make_diag / make_hdiag", DG.diagram_family(seed, _n(tier, 150, 4000)))
    run.notes.append("pydot / Graphviz / matplotlib / pandas (_prep_loss, node/edge/cluster construction in _diag): no obligation within P reach; decided bounded only")
    return run.finish()
