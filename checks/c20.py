"""C20 - PCB trace / plane resistance follow the documented formulas.  Level: proof (P only)."""
from .common import *
from pyvc import solver


def main(argv=None):
    a, tier, seed = tier_seed(argv)
    run = Run("C20", tier, seed, "proof", "bin/check C20 --tier " + tier)
    from contracts import utils as CU
    src = Source()
    obls, canaries = CU.obligations(run, src)
    for ob in obls:
        run.discharge(ob)
    for c in canaries:
        r = solver.check(c["hyps"], c["goal"], 5)
        if r["verdict"] == solver.REFUTED: run.canaries += 1
        else: run.fault("canary %s not refuted (%s): the contract is vacuous or the engine unsound" % (c["id"], r["verdict"]))
    for ob in obls:
        if solver.satisfiable([h for h in ob["hyps"]])[0]: run.covers += 1
        else: run.fault("precondition of %s is contradictory" % ob["id"])
    n, mism = CU.cross_check(src, seed, 50 if tier == "quick" else 1000)
    run.crosscheck = {"functions": 2, "inputs": n, "mismatches": len(mism)}
    if mism: run.fault("engine/CPython cross-check mismatch: %r" % (mism[0],))
    from bounded import utilsforms
    run.add_bounded("argument forms (numpy scalars/arrays, ints)", utilsforms.family(seed, 400 if tier == "quick" else 20000))
    run.trusted.update(["float treated as real (no rounding/overflow)", "CPython semantics of + - * / on floats as encoded by pyvc"])
    return run.finish()


if __name__ == "__main__":
    guarded_main(main)
