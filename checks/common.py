"""Shared run bookkeeping: obligation discharge, verdicts, known findings, replay files, evidence, exit codes.

exit 0  property held on everything explored (P/L obligations discharged; undecided ones decided by their bounded stand-in)
exit 1  + line 'VIOLATION property=<id> replay=<path>'
exit 2  undecided and no stand-in could run
exit 3  checker fault (engine cross-check mismatch, zero obligations, crash)
unknown / timeout / traceback are never mapped to 1.
"""
import json, os, sys, time, traceback, hashlib, re

ROOT = os.path.dirname(os.path.dirname(os.path.abspath(__file__)))
sys.path.insert(0, ROOT)
import z3
from pyvc import solver
from pyvc.values import Unsupported
from pyvc.loader import FunctionMissing, Source

ASSUMPTIONS = [
    "float is treated as mathematical real, int as mathematical integer (no rounding, overflow, NaN, inf, -0.0); == on floats is real equality",
    "abs/min/max/np.sign/np.abs on scalars are the mathematical functions (sign(0)=0); numpy scalars behave as python numbers",
    "dict preserves insertion order; iteration order of dict/list is construction order",
    "truthiness: {} [] '' 0 None are false; a phase configuration is abstracted to (nonempty, contains(phase), value(phase)) with contains => nonempty",
    "method resolution = class bases in the source; no monkey-patching, no __getattr__, no concurrency; callbacks given to batt_life do not touch the system",
    "string accumulation of warning tokens is interpreted as appending the token to a token sequence (keys contain no blanks)",
    "default-argument objects are never mutated",
    "exceptions are only those raised explicitly, by a contract's raises clause, or by an undischarged key/index/divisor side-obligation",
]
DROPPED = ["docstrings", "type annotations", "print()", "warnings.warn()", "tqdm progress-bar calls (with-block executed as its body)",
           "formatting of exception messages (exception types are kept)"]


def tier_seed(argv=None):
    import argparse
    ap = argparse.ArgumentParser()
    ap.add_argument("pid", nargs="?")
    ap.add_argument("--tier", default=os.environ.get("VERIF_TIER", "quick"))
    ap.add_argument("--replay", default=None)
    a = ap.parse_args(argv)
    tier = a.tier if a.tier in ("quick", "thorough") else "quick"
    try:
        seed = int(os.environ.get("VERIF_SEED", "0"))
    except ValueError:
        seed = 0
    return a, tier, seed


class KnownFindings:
    """KNOWN_FINDINGS.txt: 'open: property=Cxx key=<finding key> :: text' | 'fixed: property=Cxx <commit> text'.  Never written at run time."""

    def __init__(self, path=None):
        self.open, self.fixed = [], []
        path = path or os.path.join(ROOT, "KNOWN_FINDINGS.txt")
        if not os.path.exists(path):
            return
        for line in open(path):
            line = line.strip()
            if not line or line.startswith("#"):
                continue
            m = re.match(r"open:\s+property=(\S+)\s+key=(\S+)\s*::\s*(.*)", line)
            if m:
                self.open.append({"property": m.group(1), "key": m.group(2), "text": m.group(3)})
                continue
            m = re.match(r"fixed:\s+property=(\S+)\s+(\S+)\s+(.*)", line)
            if m:
                self.fixed.append({"property": m.group(1), "commit": m.group(2), "text": m.group(3)})

    def lookup(self, pid, key):
        for f in self.open:
            if f["property"] == pid and f["key"] == key:
                return f
        return None


class Run:
    def __init__(self, pid, tier, seed, level, cmd):
        self.pid, self.tier, self.seed, self.level, self.cmd = pid, tier, seed, level, cmd
        self.t0 = time.time()
        self.obls = []             # P / L obligations with verdicts
        self.functions = set()     # functions under contract (real bodies executed by the VC generator)
        self.trusted = set()
        self.assumed = set()
        self.violations = []       # (obligation id / oracle, replay path, no_input)
        self.known_hits = []
        self.undecided = []
        self.faults = []; self.case_crashes = []
        self.bounded = []          # dicts per bounded oracle
        self.notes = []
        self.covers = 0
        self.canaries = 0
        self.crosscheck = {"functions": 0, "inputs": 0, "mismatches": 0}
        self.known = KnownFindings()
        self.solver_time = 0.0
        self.by_backend = {"z3": 0, "cvc5": 0, "lean": 0, "ast": 0}
        self.samples = []
        self.expected_ids = None
        self.second_asked = self.second_confirmed = 0
        self.second_time = 0.0
        os.makedirs(os.path.join(ROOT, "evidence"), exist_ok=True)
        os.makedirs(os.path.join(ROOT, "replays"), exist_ok=True)

    # ------------------------------------------------------------------ P obligations
    def timeout(self):
        return 10 if self.tier == "quick" else 60

    def _shape_changed(self, oid):
        if not hasattr(self, "_shapes"):
            try:
                import importlib.util
                spec = importlib.util.spec_from_file_location("gen_shapes", os.path.join(ROOT, "tools", "gen_shapes.py")); gs = importlib.util.module_from_spec(spec); spec.loader.exec_module(gs)
                pinned = json.load(open(os.path.join(ROOT, "contracts", "SHAPES.json")))
                cur = gs.shapes(Source())
                self._shapes = {q: (json.loads(json.dumps(cur.get(q))) != pinned[q]) for q in pinned}
                ch = sorted(q for q, c in self._shapes.items() if c)
                if ch: self.notes.append("restructured relative to contracts/SHAPES.json (refutations of their side-car clauses need a concrete witness): " + ", ".join(ch))
            except Exception as e:
                self._shapes = {}
        for q, changed in self._shapes.items():
            if changed and (oid.startswith(q + "/") or oid.startswith(q + "[")): return True
        return False

    def discharge(self, ob, replay=None):
        """ob: dict(id, hyps, goal, kind, meta).  replay: callable(model dict, z3model) -> dict(confirmed, detail, call) or None"""
        so = self.tier == "thorough" and self.second_asked < 400 and self.second_time < 120
        if so: self.second_asked += 1
        r = solver.check(ob["hyps"], ob["goal"], timeout_s=self.timeout(), second_opinion=so)
        self.second_time += r.get("second_time_s", 0.0)
        if r.get("second") == "unsat": self.second_confirmed += 1
        elif r.get("second") == "sat": self.fault("solver disagreement on %s: z3 unsat, cvc5 sat" % ob["id"])
        self.solver_time += r["time_s"]
        rec = {"id": ob["id"], "kind": ob.get("kind", "post"), "verdict": r["verdict"], "backend": r["backend"], "time_s": round(r["time_s"], 4)}
        if r["verdict"] == solver.DISCHARGED:
            self.by_backend[r["backend"]] += 1
        elif r["verdict"] == solver.REFUTED:
            mg = ob.get("meta", {}).get("margin_goal")
            if mg is not None:
                # robust counter-model: ask again for an input that violates the clause by a margin, so that the float replay is not lost in rounding
                r2 = solver.check(ob["hyps"], mg, timeout_s=min(5, self.timeout()), use_cvc5=False)
                if r2["verdict"] == solver.REFUTED:
                    r = dict(r2, time_s=r["time_s"] + r2["time_s"]); rec["robust_model"] = True
            rec["model"] = {k: (str(v)) for k, v in (r["model"] or {}).items()}
            rep = None
            replay = replay or ob.get("meta", {}).get("replay")
            if replay is not None:
                try:
                    rep = replay(r["model"] or {}, r.get("z3model"))
                except Exception as e:
                    rep = {"confirmed": False, "detail": "replay crashed: %s" % e, "trace": traceback.format_exc()}
            rec["replay"] = rep
            if self._shape_changed(ob["id"]) and not (rep and rep.get("confirmed")):
                # the function has another statement structure than the one its side-car loop invariants / slice map were written for
                # (contracts/SHAPES.json): a counter-model over havoc'd loop state or a re-located slice is not an input of the real code
                rec["verdict"] = solver.UNDECIDED; rec["reason"] = "refuted, but the function was restructured relative to its side-car invariants / slices and no concrete witness replays: left to the bounded layer"
                self.undecided.append(ob["id"] + " (" + rec["reason"] + ")")
            elif ob.get("meta", {}).get("abstract") and not (rep and rep.get("confirmed")):
                # the clause is stated over uninterpreted library functions: a counter-model of those is not an input of the real code.
                # Without a concrete witness from the replay the clause is undecided, never a violation.
                rec["verdict"] = solver.UNDECIDED; rec["reason"] = "refuted only over uninterpreted library abstractions; the concrete probes found no witness"
                self.undecided.append(ob["id"] + " (" + rec["reason"] + ")")
            else:
                self._refuted(ob, rec, rep)
        else:
            rec["reason"] = r["reason"]
            self.undecided.append(ob["id"] + " (" + r["reason"] + ")")
        self.obls.append(rec)
        return rec

    def record(self, oid, ok, backend="ast", kind="post", detail=None, replay=None):
        """obligation decided by exhaustive finite evaluation over the real AST (backend 'ast') or by Lean"""
        rec = {"id": oid, "kind": kind, "verdict": solver.DISCHARGED if ok else solver.REFUTED, "backend": backend, "time_s": 0.0}
        if ok:
            self.by_backend[backend] = self.by_backend.get(backend, 0) + 1
        else:
            rec["detail"] = detail
            rec["replay"] = replay
            self._refuted({"id": oid, "meta": {}}, rec, replay)
        self.obls.append(rec)
        return rec

    def _refuted(self, ob, rec, rep):
        key = ob.get("meta", {}).get("finding_key") or ob["id"]
        kf = self.known.lookup(self.pid, key)
        if kf is not None:
            if kf not in self.known_hits:
                self.known_hits.append(kf)
                print("KNOWN-FINDING: property=%s %s" % (self.pid, kf["text"]))
            rec["known_finding"] = kf["key"]
            return
        confirmed = bool(rep and rep.get("confirmed"))
        path = os.path.join(ROOT, "replays", "%s-%s.json" % (self.pid, re.sub(r"[^A-Za-z0-9_.-]+", "_", ob["id"])[:120]))
        doc = {"property": self.pid, "obligation": ob["id"], "verdict": "refuted", "model": rec.get("model"), "detail": rec.get("detail"),
               "replay": rep, "confirmed_on_real_code": confirmed,
               "rerun": "cd /verif && bin/check %s --replay %s" % (self.pid, path),
               "solver_output": "sat" if rec.get("model") is not None else rec.get("detail")}
        if ob.get("meta", {}).get("lift") is not None and not confirmed:
            try:
                lifted = ob["meta"]["lift"](rec)
                doc["lift"] = lifted
                confirmed = bool(lifted and lifted.get("confirmed"))
                doc["confirmed_on_real_code"] = confirmed
            except Exception as e:
                doc["lift"] = {"confirmed": False, "detail": "lift crashed: %s" % e}
        with open(path, "w") as f:
            json.dump(doc, f, indent=1, default=str)
        self.violations.append((ob["id"], path, not confirmed))

    def undecide(self, oid, why):
        self.obls.append({"id": oid, "kind": "post", "verdict": solver.UNDECIDED, "backend": "-", "time_s": 0.0, "reason": why})
        self.undecided.append("%s (%s)" % (oid, why))

    def fault(self, what):
        self.faults.append(what)

    # ------------------------------------------------------------------ bounded layer
    def add_bounded(self, name, res):
        """res: dict(evaluations, distinct_nontrivial, failures: [dict(key, text, recipe...)], samples, bound, rule, contract_evaluations)"""
        self.bounded.append(dict(res, name=name))
        for c in res.get("crashes", [])[:3]:
            self.case_crashes.append("bounded case of '%s' crashed: %s" % (name, c))
        for fl in res.get("failures", []):
            kf = self.known.lookup(self.pid, fl.get("key", ""))
            if kf is not None:
                if kf not in self.known_hits:
                    self.known_hits.append(kf)
                    print("KNOWN-FINDING: property=%s %s" % (self.pid, kf["text"]))
                continue
            h = hashlib.sha1(json.dumps(fl, sort_keys=True, default=str).encode()).hexdigest()[:10]
            path = os.path.join(ROOT, "replays", "%s-%s-%s.json" % (self.pid, re.sub(r"[^A-Za-z0-9_.-]+", "_", name)[:60], h))
            doc = {"property": self.pid, "oracle": name, "bounded": True, "failure": fl,
                   "rerun": "cd /verif && bin/check %s --replay %s" % (self.pid, path)}
            with open(path, "w") as f:
                json.dump(doc, f, indent=1, default=str)
            if len([v for v in self.violations if v[0].startswith(name)]) < 5:
                self.violations.append((name + ":" + fl.get("key", ""), path, False))

    # ------------------------------------------------------------------ finish
    def _expected(self):
        """vacuity guard (a): every clause id recorded for this property on the unchanged tree (contracts/EXPECTED.json) must be
        generated again; a missing one (function gone, slice not located, path vanished) is UNDECIDED, not discharged"""
        path = os.path.join(ROOT, "contracts", "EXPECTED.json")
        if not os.path.exists(path): return
        try: exp = json.load(open(path)).get(self.pid, [])
        except Exception: return
        have = {re.sub(r"@[pq][0-9,]+$", "", o["id"]) for o in self.obls}
        miss = [e for e in exp if e not in have]
        for e in miss[:40]:
            self.undecide(e, "expected obligation was not generated on this tree")
        self.expected_missing = len(miss)

    def finish(self):
        self._expected()
        wall = time.time() - self.t0
        nob = len(self.obls)
        ndis = sum(1 for o in self.obls if o["verdict"] == solver.DISCHARGED)
        ev_total = sum(b.get("evaluations", 0) for b in self.bounded)
        dn_total = sum(b.get("distinct_nontrivial", 0) for b in self.bounded)
        samples = list(self.samples)
        for b in self.bounded:
            samples.extend(b.get("samples", [])[:3])
        for o in self.obls[:3]:
            samples.append({"obligation": o["id"], "verdict": o["verdict"], "backend": o["backend"]})
        cov = {
            "explanation": self._explain(nob, ndis),
            "functions_under_contract": sorted(self.functions),
            "obligations": nob, "discharged": ndis,
            "by_backend": self.by_backend, "solver_time_s": round(self.solver_time, 3),
            "undecided": self.undecided[:50],
            "known_findings": [k["key"] for k in self.known_hits],
            "canaries_refuted": self.canaries, "covers_reached": self.covers,
            "cross_check": self.crosscheck,
            "second_solver": {"asked_cvc5": self.second_asked, "confirmed_unsat": self.second_confirmed, "note": "thorough tier: obligations z3 discharged are re-checked by cvc5 1.0.3 on the SMT-LIB text (3 s each, at most 400 / 120 s per run); 'sat' would be a checker fault, timeouts are no opinion"},
            "dropped_by_extraction": DROPPED,
            "checker_cmd": self.cmd,
            "trusted_base": sorted(self.trusted | {"pyvc VC generator (mitigated by CPython cross-check, canaries, covers)", "z3 %s" % z3.get_version_string()}),
            "assumed_contracts": sorted(self.assumed),
            "obligation_list": [{k: v for k, v in o.items() if k in ("id", "verdict", "backend", "time_s", "kind", "known_finding")} for o in self.obls][:8000],
            "bounded": bool(self.bounded),
            "bounded_oracles": [{k: v for k, v in b.items() if k not in ("failures", "samples")} | {"failures": len(b.get("failures", []))} for b in self.bounded],
            "samples": samples[:12] or [{"note": "no cases"}],
            "source_sha256": Source().digest(),
            "notes": self.notes,
            "expected_clause_ids_missing": getattr(self, "expected_missing", 0),
        }
        if self.bounded:
            cov["evaluations"] = ev_total
            cov["distinct_nontrivial"] = dn_total
            cov["rule"] = " | ".join("%s: %s" % (b["name"], b.get("rule", "")) for b in self.bounded)
            cov["bound"] = " | ".join("%s: %s" % (b["name"], b.get("bound", "")) for b in self.bounded)
        elif self.level in ("exploration",):
            cov["evaluations"] = 0; cov["distinct_nontrivial"] = 0; cov["rule"] = "none"
        doc = {"property_id": self.pid, "tier": self.tier, "seed": self.seed, "level": self.level, "coverage": cov,
               "assumptions": ASSUMPTIONS + sorted(self.assumed), "wall_s": round(wall, 2), "violations": len(self.violations)}
        with open(os.path.join(ROOT, "evidence", self.pid + ".json"), "w") as f:
            json.dump(doc, f, indent=1, default=str)
        # exit code
        if self.case_crashes and not self.violations:
            self.faults.extend(self.case_crashes)
        elif self.case_crashes:
            for c in self.case_crashes: print("NOTE: " + c.replace("\n", " | ")[:400])
        if self.faults:
            for fl in self.faults:
                print("CHECKER-FAULT: %s" % fl)
            print("summary %s: checker fault" % self.pid)
            return 3
        if self.violations:
            seen = set()
            for oid, path, noinput in self.violations:
                if path in seen: continue
                seen.add(path)
                print("VIOLATION property=%s replay=%s%s" % (self.pid, path, " no-failing-input-found" if noinput else ""))
            return 1
        if nob == 0 and not self.bounded:
            print("CHECKER-FAULT: zero obligations generated")
            return 3
        und = [o for o in self.obls if o["verdict"] == solver.UNDECIDED]
        print("summary %s [%s]: %d/%d obligations discharged (z3 %d, cvc5 %d, lean %d, ast %d), %d undecided, %d known findings; bounded: %d evaluations; %.1fs"
              % (self.pid, self.tier, ndis, nob, self.by_backend["z3"], self.by_backend["cvc5"], self.by_backend["lean"], self.by_backend.get("ast", 0),
                 len(und), len(self.known_hits), ev_total, wall))
        if und and not self.bounded:
            print("UNDECIDED: %d obligations and no bounded stand-in ran" % len(und))
            return 2
        return 0

    def _explain(self, nob, ndis):
        s = "P/L: %d obligations generated from the real source, %d discharged" % (nob, ndis)
        if self.undecided:
            s += ", %d undecided (decided by the bounded stand-in, not counted as proved)" % len([o for o in self.obls if o["verdict"] == solver.UNDECIDED])
        if self.bounded:
            s += "; B (bounded stand-in, never counted as proved): " + ", ".join("%s %d cases" % (b["name"], b.get("evaluations", 0)) for b in self.bounded)
        return s


def guarded_main(fn):
    """run a check's main(); any crash is a checker fault (exit 3), never a violation"""
    try:
        code = fn()
    except SystemExit as e:
        raise
    except BaseException:
        traceback.print_exc()
        print("CHECKER-FAULT: crash")
        code = 3
    sys.stdout.flush()
    sys.exit(code)
