"""P obligations on the solver core of system.py, shared by several property checks."""
from .common import *
from pyvc import solver
from contracts import system_core as SC

_cache = {}


def _discharge(run, obls, what):
    if not obls:
        if obls is not None and not any(what.split("(")[0].strip("_ ") in u for u in run.undecided):
            run.notes.append("no obligation generated for %s (function undecided or absent): decided by the bounded stand-in" % what)
        return
    n = 0
    canary_ok = None
    for ob in obls:
        if ob.get("kind") == "canary":
            r = solver.check(ob["hyps"], ob["goal"], 2, want_model=False, use_cvc5=False)
            if r["verdict"] == solver.REFUTED: run.canaries += 1; canary_ok = True
            elif r["verdict"] == solver.DISCHARGED and canary_ok is None: canary_ok = False   # a wrong clause PROVED on every path: vacuous hypotheses or unsound engine
            continue
        run.discharge(ob); n += 1
        if ob.get("kind") in ("post",) and solver.satisfiable([h for h in ob["hyps"] if not z3.is_quantifier(h)], 2)[0]: run.covers += 1
    if canary_ok is False:
        run.fault("canary of %s not refuted: contract vacuous or engine unsound" % what)
    if n == 0:
        # nothing but canaries: fine when the reason is on record (parts of the function were undecided on this tree: the bounded stand-in decides),
        # a checker fault when nothing explains it (vacuity guard)
        if run.undecided: run.notes.append("no obligation generated for %s beyond canaries (undecided parts on record): decided by the bounded stand-in" % what)
        else: run.fault("zero obligations generated for %s" % what)


def child_curr(run):
    _discharge(run, SC.child_curr(run, Source()), "_child_curr")


def propagation(run):
    for w in ("_fwd_prop", "_back_prop"):
        _discharge(run, SC.propagation(run, Source(), w), w)


def solve_loop(run):
    _discharge(run, SC.solve_loop(run, Source()), "_solve")


def calc_energy(run):
    _discharge(run, SC.calc_energy(run, Source()), "_calc_energy")


def solve_slice(run, tag):
    key = "solve_slices"
    if key not in _cache:
        _cache[key] = SC.solve_slices(run, Source())
    obls = _cache[key]
    if obls is None: return
    _discharge(run, [o for o in obls if o.get("kind") == "canary" or tag in o.get("tags", [])], "solve() slices")


def pri_inp(run):
    _discharge(run, SC.pri_inp(run, Source()), "PMux._get_pri_inp")


def find_domain(run):
    _discharge(run, SC.find_domain(run, Source()), "_find_domain")


def phase_lkup(run):
    _discharge(run, SC.phase_lkup(run, Source()), "_set_phase_lkup")


def warnings(run):
    _discharge(run, SC.warnings_contracts(run, Source()), "warnings")


def init_state(run, tag="C04"):
    _discharge(run, [o for o in (SC.init_contracts(run, Source()) or []) if o.get("kind") in ("canary", "loop", "callsite") or tag in o.get("tags", [])], "initial vectors")


def registry(run, tag):
    from contracts import system_edit as SE
    _discharge(run, [o for o in (SE.obligations(run, Source()) or []) if o.get("kind") == "canary" or tag in o.get("tags", [])], "registry operations")
    if tag in ("C14", "C15"):
        from contracts import system_edit2 as SE2
        _discharge(run, [o for o in (SE2.obligations(run, Source()) or []) if o.get("kind") == "canary" or tag in o.get("tags", [])], "graph-editing methods")


def frame(run):
    try:
        from contracts import frame as FR
    except ImportError:
        run.notes.append("frame analysis not built yet"); return
    FR.frame_obligations(run, Source())


def batt_life(run, tag):
    try:
        from contracts import battlife as BL
    except ImportError:
        run.notes.append("batt_life slice contract not built yet"); return
    _discharge(run, [o for o in (BL.obligations(run, Source()) or []) if o.get("kind") == "canary" or tag in o.get("tags", [])], "batt_life")


def graph_helpers(run, tag):
    _discharge(run, [o for o in (SC.graph_helpers(run, Source()) or []) if o.get("kind") == "canary" or tag in o.get("tags", [])], "graph helper wrappers")


def parents_childs(run, tag):
    _discharge(run, [o for o in (SC.parents_childs(run, Source()) or []) if o.get("kind") in ("canary", "loop") or tag in o.get("tags", [])], "_get_parents/_get_childs")
