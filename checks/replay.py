"""bin/check --replay <file>: re-run one recorded violation against the current tree.
bounded failure  -> the same case function with the same arguments (same seed / index / pattern) is executed again;
P obligation     -> the property's quick check is run again and the obligation looked up in the fresh evidence."""
import sys, json, os, importlib, subprocess
ROOT = os.path.dirname(os.path.dirname(os.path.abspath(__file__)))
sys.path.insert(0, ROOT)


def main():
    path = sys.argv[1]
    doc = json.load(open(path))
    pid = doc["property"]
    if doc.get("bounded"):
        f = doc["failure"]; case = f.get("case")
        if not case:
            print("replay file carries no case descriptor"); return 3
        mod = importlib.import_module(case[0]); fn = getattr(mod, case[1])
        args = case[2]
        def tup(x): return tuple(tup(y) for y in x) if isinstance(x, list) else x
        from bounded.runner import _guarded
        r = _guarded((fn, tup(args)))          # same watchdog as in the check: a call that does not come back is the recorded failure again
        same = [g for g in r.get("failures", []) if g.get("key") == f.get("key")]
        for g in r.get("failures", [])[:5]: print("  %s :: %s" % (g.get("key"), str(g.get("text"))[:300]))
        if same:
            print("VIOLATION property=%s replay=%s" % (pid, path)); return 1
        print("replay: the recorded failure %r does not occur on the current tree (%d other failures)" % (f.get("key"), len(r.get("failures", [])))); return 0
    ob = doc.get("obligation")
    if doc.get("replay") and doc["replay"].get("call"):
        print("recorded concrete call: %s\n  observed %s\n  required %s" % (doc["replay"]["call"], doc["replay"].get("observed"), doc["replay"].get("required", doc["replay"].get("violated"))))
    p = subprocess.run([os.path.join(ROOT, "bin", "check"), pid, "--tier", "quick"], capture_output=True, text=True)
    ev = json.load(open(os.path.join(ROOT, "evidence", pid + ".json")))
    hit = [o for o in ev["coverage"].get("obligation_list", []) if o["id"] == ob]
    if hit and hit[0]["verdict"] == "refuted":
        print("obligation %s is refuted on the current tree" % ob)
        print("VIOLATION property=%s replay=%s" % (pid, path)); return 1
    print("obligation %s: %s on the current tree" % (ob, hit[0]["verdict"] if hit else "not generated")); return 0


if __name__ == "__main__":
    sys.exit(main())
