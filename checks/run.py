"""bin/check <ID> --tier quick|thorough : per-property orchestration of the P (proved), L (lemma) and B (bounded) layers."""
from .common import *
from pyvc import solver
import importlib


def discharge_tagged(run, gen, tag, want_kinds=None):
    """discharge the obligations carrying `tag`; returns number discharged"""
    n = 0
    for ob in gen.obls:
        if tag in ob.get("tags", []):
            run.discharge(ob); n += 1
    return n


def canaries(run, gen, limit_per_fn=2):
    """a deliberately wrong clause (result == spec + 1) must be refuted at least once per function under contract"""
    byfn = {}
    for c in gen.canaries:
        byfn.setdefault(c["fn"], []).append(c)
    for fn, cs in byfn.items():
        hit = 0
        for c in cs:
            r = solver.check(c["hyps"], c["goal"], 5, want_model=False)
            if r["verdict"] == solver.REFUTED:
                hit += 1
                if hit >= limit_per_fn: break
        run.canaries += hit
        if hit == 0:
            run.fault("canary of %s was not refuted on any path: contract vacuous or engine unsound" % fn)


def covers(run, gen, tag):
    """vacuity guard: per function under contract at least one obligation must have satisfiable hypotheses (a contradictory
    `requires` would verify everything); per clause id the number of reachable instances is counted.  Case-split clauses that
    are unreachable by design (e.g. 'raises' under 'no live input') are not faults."""
    by = {}
    for ob in gen.obls:
        if tag in ob.get("tags", []):
            cid = ob["id"].split("@")[0]
            by.setdefault(cid.split("/")[0], {}).setdefault(cid, []).append(ob)
    for fn, clauses in by.items():
        reach = 0
        for cid, obs in clauses.items():
            for ob in obs:
                if solver.satisfiable(ob["hyps"], 3)[0]:
                    reach += 1; break
        run.covers += reach
        if reach == 0:
            run.fault("cover: every obligation of %s has contradictory hypotheses" % fn)


def main(argv=None):
    a, tier, seed = tier_seed(argv)
    pid = a.pid
    mod = importlib.import_module("checks.props")
    fn = getattr(mod, pid.lower(), None)
    if fn is None:
        print("no check for %s" % pid); return 3
    return fn(tier, seed)


if __name__ == "__main__":
    guarded_main(main)
