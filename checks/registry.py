"""Which properties are claimed, at which level, by which technique (source of MANIFEST.json)."""
FIX_COMMITS = []
NOT_APPLICABLE = {}
CHECKS = {
    "C20": dict(level="proof", technique="VCs generated from the AST of utils.trace_res/plane_res, discharged by z3 (nonlinear real arithmetic)",
                text="Both real function bodies are symbolically executed on every run; the result term is proved equal to the documented closed form for all positive inputs, the proportionality/affinity/symmetry lemmas and trace==plane are proved on the real result terms, divisors are proved non-zero. Unbounded in all inputs.",
                note="float treated as mathematical real; pyvc encoding of + - * / (cross-checked against CPython on random inputs every run); z3"),
}
