"""Layer L: run Lean 4 + Mathlib on lemmas/Compose.lean; remember the sha256 of the checked file in .lean_ok (untracked)."""
import hashlib, os, subprocess, sys, time

ROOT = os.path.dirname(os.path.dirname(os.path.abspath(__file__)))
LEAN_FILE = os.path.join(ROOT, "lemmas", "Compose.lean")
STAMP = os.path.join(ROOT, ".lean_ok")
THEOREMS = ["energy_additive", "power_balance"]


def sha():
    return hashlib.sha256(open(LEAN_FILE, "rb").read()).hexdigest()


def scan_trusted():
    """mechanical scan for sorry / axiom / admit in the lemma file"""
    txt = open(LEAN_FILE).read()
    return [w for w in ("sorry", "axiom ", "admit", "native_decide") if w in txt]


def ensure(timeout=1500):
    """-> (ok, info).  Uses the stamp of the last successful Lean run when the file is unchanged."""
    if scan_trusted():
        return False, "lemma file contains %s" % scan_trusted()
    h = sha()
    if os.path.exists(STAMP) and open(STAMP).read().strip() == h:
        return True, "lean stamp matches %s" % h[:12]
    t0 = time.time()
    try:
        p = subprocess.run(["lean", LEAN_FILE], capture_output=True, text=True, timeout=timeout)
    except Exception as e:
        return False, "lean could not be run: %s" % e
    if p.returncode == 0 and "error" not in p.stdout.lower() and "sorry" not in p.stdout.lower():
        with open(STAMP, "w") as f:
            f.write(h)
        return True, "lean accepted in %.0fs" % (time.time() - t0)
    return False, "lean rejected: %s" % (p.stdout + p.stderr)[:500]


if __name__ == "__main__":
    ok, info = ensure()
    print("lean:", ok, info)
    sys.exit(0 if ok else 1)
