"""Independent structural reference model of a power tree (layer B).  It is built from the recipe (the public-API calls),
never from the internals of the System under test; the oracles compare the real reports against it."""
import copy, collections
from contracts import spec as S

CLASS_OF = {"RectD": "Rectifier", "RectM": "Rectifier"}
MAGNITUDES = ("rs", "rt", "pwr", "pwrs", "ii", "iis", "iq", "vdrop", "ig", "eff")
TYPE_OF = {"Source": "SOURCE", "PLoad": "LOAD", "ILoad": "LOAD", "RLoad": "LOAD", "RLoss": "SLOSS", "VLoss": "SLOSS", "Converter": "CONVERTER",
           "LinReg": "LINREG", "PSwitch": "PSWITCH", "PMux": "PMUX", "Rectifier": "RECTIFIER"}


def cls_name(kind):
    return CLASS_OF.get(kind, kind)


def norm_params(spec):
    """what an accepted constructor call must store (C11): magnitudes for resistances/currents/powers/drops/thermal
    resistances, vo signed; -> (spec kind label, P, table parameter name or None)"""
    cls = cls_name(spec["kind"]); a = spec["args"]
    P = {}
    defaults = {"Source": {"rs": 0.0}, "PLoad": {"pwrs": 0.0, "rt": 0.0, "loss": False}, "ILoad": {"iis": 0.0, "rt": 0.0, "loss": False},
                "RLoad": {"rt": 0.0, "loss": False}, "RLoss": {"rt": 0.0}, "VLoss": {"rt": 0.0}, "Converter": {"iq": 0.0, "iis": 0.0, "rt": 0.0},
                "LinReg": {"vdrop": 0.0, "ig": 0.0, "iis": 0.0, "rt": 0.0}, "PSwitch": {"rs": 0.0, "ig": 0.0, "iis": 0.0, "rt": 0.0},
                "PMux": {"rs": 0.0, "ig": 0.0, "iis": 0.0, "rt": 0.0}, "Rectifier": {"vdrop": 0.0, "rs": 0.0, "ig": 0.0, "iq": 0.0, "rt": 0.0}}[cls]
    full = dict(defaults); full.update({k: v for k, v in a.items() if k != "limits"})
    if cls == "LinReg" and "iq" in full:
        # deprecated spelling of the ground current: a non-zero iq (scalar or table keyed 'iq') takes the place of ig
        iq = full.pop("iq")
        if isinstance(iq, dict): full["ig"] = {("ig" if k_ == "iq" else k_): v_ for k_, v_ in iq.items()}
        elif iq != 0.0: full["ig"] = iq
    table = None
    for k, v in full.items():
        if isinstance(v, dict):
            P[k] = v; table = k
        elif isinstance(v, list):
            P[k] = [abs(x) for x in v]
        elif k in MAGNITUDES and not isinstance(v, bool):
            P[k] = abs(v)
        else:
            P[k] = v
    K = cls
    if cls == "Rectifier":
        mode = "diode" if (isinstance(full["vdrop"], dict) or full["vdrop"] != 0.0) else "mosfet"
        P["type"] = mode; K = "Rectifier:" + mode
    if cls == "Source":
        P["rt"] = 0.0
    return K, P, table


TABLE_PARAM = {"Converter": "eff", "VLoss": "vdrop", "LinReg": "ig", "PSwitch": "ig", "PMux": "ig", "Rectifier:diode": "vdrop", "Rectifier:mosfet": "ig"}


class Node:
    def __init__(self, spec, parents, group, rail):
        self.spec = copy.deepcopy(spec)
        self.name = spec["name"]; self.kind = spec["kind"]; self.cls = cls_name(spec["kind"]); self.type = TYPE_OF[self.cls]
        self.parents = list(parents)        # names, mux priority order
        self.group = group
        self.rail = "" if self.type == "LOAD" else rail
        self.pc = {}                        # component phase configuration ({} or [] = none)
        self.K, self.P, self.table = norm_params(spec)
        self.limits = copy.deepcopy(spec["args"].get("limits") or {})

    def limit_keys(self):
        return S.limit_keys(self.K)


class Model:
    def __init__(self):
        self.nodes = collections.OrderedDict()
        self.phases = {}
        self.sysname = "sys"

    # ---- name resolution as documented: a parent/target may be addressed by component name or by its rail
    def resolve(self, ref):
        if ref in self.nodes: return ref
        if ref != "":
            for n in self.nodes.values():
                if n.rail == ref: return n.name
        return None

    def children(self, name):
        return [n.name for n in self.nodes.values() if name in n.parents]

    def descendants(self, name):
        out, todo = [], [name]
        while todo:
            x = todo.pop()
            for c in self.children(x):
                if c not in out: out.append(c); todo.append(c)
        return out

    def sources(self):
        return [n.name for n in self.nodes.values() if n.type == "SOURCE"]

    # ---- effects of ACCEPTED public-API calls
    def apply(self, op):
        k = op["op"]
        if k in ("system", "add_source"):
            if k == "system": self.sysname = op.get("sysname", "sys")
            self.nodes[op["comp"]["name"]] = Node(op["comp"], [], op.get("group", ""), op.get("rail", ""))
        elif k == "add_comp":
            par = op["parent"] if isinstance(op["parent"], list) else [op["parent"]]
            self.nodes[op["comp"]["name"]] = Node(op["comp"], [self.resolve(p) for p in par], op.get("group", ""), op.get("rail", ""))
        elif k == "change_comp":
            old = self.nodes[op["name"]]
            new = Node(op["comp"], old.parents, op.get("group", ""), op.get("rail", ""))
            items = [(new.name if n == op["name"] else n, new if n == op["name"] else v) for n, v in self.nodes.items()]
            self.nodes = collections.OrderedDict(items)
            for n in self.nodes.values():
                n.parents = [new.name if p == op["name"] else p for p in n.parents]
        elif k == "del_comp":
            name = op["name"]
            if op.get("del_childs", True):
                for d in self.descendants(name): self.nodes.pop(d, None)
                self.nodes.pop(name)
            else:
                gp = self.nodes[name].parents[0]
                for c in self.children(name):
                    ps = [gp if p == name else p for p in self.nodes[c].parents]
                    # a mux that already listed the grandparent keeps one link to it (first position wins)
                    self.nodes[c].parents = [p for j, p in enumerate(ps) if p not in ps[:j]]
                self.nodes.pop(name)
        elif k == "set_sys_phases":
            self.phases = copy.deepcopy(op["phases"])
        elif k == "set_comp_phases":
            self.nodes[self.resolve(op["name"])].pc = copy.deepcopy(op["conf"])
        else:
            raise KeyError(k)

    @staticmethod
    def of(recipe, log=None):
        m = Model()
        for i, op in enumerate(recipe["ops"]):
            if log is not None and log[i][1] is not None:
                continue
            m.apply(op)
        return m

    def topo(self):
        done, out = set(), []
        pend = list(self.nodes)
        while pend:
            for n in pend:
                if all(p in done for p in self.nodes[n].parents):
                    out.append(n); done.add(n); pend.remove(n); break
            else:
                raise ValueError("cycle / dangling parent in model")
        return out

    def rebuild_recipe(self, order_rnd=None):
        """recipe that builds the same final structure from scratch (optionally in another valid construction order)"""
        names = self.topo()
        srcs = [n for n in names if not self.nodes[n].parents]; rest = [n for n in names if self.nodes[n].parents]
        if order_rnd is not None:
            order_rnd.shuffle(srcs)
            pend, rest2, have = list(rest), [], set(srcs)
            order_rnd.shuffle(pend)
            while pend:
                for n in pend:
                    if all(p in have for p in self.nodes[n].parents):
                        rest2.append(n); have.add(n); pend.remove(n); break
            rest = rest2
        ops = []
        for i, n in enumerate(srcs):
            nd = self.nodes[n]
            ops.append({"op": "system" if i == 0 else "add_source", "comp": nd.spec, "group": nd.group, "rail": nd.rail, "sysname": self.sysname})
        for n in rest:
            nd = self.nodes[n]
            ops.append({"op": "add_comp", "parent": nd.parents if len(nd.parents) > 1 else nd.parents[0], "comp": nd.spec, "group": nd.group, "rail": nd.rail})
        if self.phases:
            ops.append({"op": "set_sys_phases", "phases": self.phases})
        for n in names:
            if self.nodes[n].pc:
                ops.append({"op": "set_comp_phases", "name": n, "conf": self.nodes[n].pc})
        return {"ops": ops}

    def structure_key(self):
        return tuple((n.name, n.kind, tuple(n.parents), n.group, n.rail, repr(sorted(n.pc.items()) if isinstance(n.pc, dict) else n.pc),
                      repr(sorted((k, repr(v)) for k, v in n.spec["args"].items()))) for n in self.nodes.values()) + (repr(sorted(self.phases.items())),)
