"""Layer B for C20: legal argument FORMS the real-arithmetic proof abstracts from - python ints, numpy scalars of every
numeric dtype (unsigned ones included), numpy arrays (sweeps) - checked against the closed form evaluated in float64 on the
float-converted arguments; array arguments must not be modified and a repeated call must return the same values."""
import random, math
import numpy as np
from .runner import run_pool, summarize, _hash

ARGS = {"trace_res": ["w1_mm", "w2_mm", "l_mm", "t_mm", "rho", "tcr", "temp"], "plane_res": ["w", "l", "t_mm", "rho", "tcr", "temp"]}
DTYPES = [np.float64, np.float32, np.int64, np.int32, np.int16, np.uint8, np.uint16, np.uint32, np.uint64, np.int8]


import sysloss.utils as _U0
_RHO0, _TCR0 = float(_U0.RHO), float(_U0.TCR)        # the documented defaults, read once when this module is imported (before any call)


def formula(fn, v):
    f = {k: np.asarray(x, dtype=np.float64) for k, x in v.items()}
    if fn == "trace_res":
        return f["rho"] * (f["l_mm"] / 1000.0) / ((f["w1_mm"] + f["w2_mm"]) / 2.0 * f["t_mm"] * 1e-6) * (1.0 + f["tcr"] * (f["temp"] - 20.0))
    return (f["rho"] / (f["t_mm"] / 1000.0)) * (f["l"] / f["w"]) * (1.0 + f["tcr"] * (f["temp"] - 20.0))


def make_case(seed, idx):
    rnd = random.Random((seed * 7919 + idx) & 0xFFFFFFFF)
    fn = rnd.choice(["trace_res", "plane_res"])
    v, forms = {}, {}
    for k in ARGS[fn]:
        form = rnd.choice(["float", "float", "int", "npscalar", "array"]) if k not in ("rho",) else rnd.choice(["float", "npscalar", "array"])
        if k == "rho": base = [rnd.uniform(1e-8, 5e-8) for _ in range(3)]
        elif k == "tcr": base = [rnd.choice([0.0, 0.00393, 0.00429, 0.5, 1.0, 2.0, 40.0])] * 3 if form != "array" else [0.0, 0.00393, 2.0]
        elif k == "temp": base = [float(rnd.choice([0, 1, 5, 10, 19, 20, 21, 25, 85, 125, 200])) for _ in range(3)]
        else: base = [float(rnd.randint(1, 40)) for _ in range(3)]
        if form == "float":
            x = base[0] if k in ("rho", "tcr") else base[0] * rnd.choice([1.0, 0.5, 0.1, 0.035])
            if k == "temp": x = base[0] + rnd.choice([0.0, 0.5, -40.0 - base[0]])
        elif form == "int":
            x = int(base[0]) if k not in ("tcr",) else int(base[0])
            if k == "tcr" and x == 0: x = 0
        elif form == "npscalar":
            dt = rnd.choice(DTYPES if k not in ("rho", "tcr") else [np.float64, np.float32])
            x = dt(min(base[0], 125)) if dt is np.int8 else dt(base[0])
        else:
            dt = rnd.choice(DTYPES if k not in ("rho", "tcr") else [np.float64, np.float32])
            x = np.array([min(b, 125) for b in base] if dt is np.int8 else base, dtype=dt)
        v[k] = x; forms[k] = form if form in ("float", "int") else "%s:%s" % (form, np.asarray(x).dtype)
    return fn, v, forms


def case(args):
    seed, idx = args
    fn, v, forms = make_case(seed, idx)
    import sysloss.utils as U
    out = {"hash": _hash([fn, {k: repr(x) for k, x in v.items()}]), "failures": [], "nontrivial": True, "sample": None, "outcome": fn}
    desc = {"function": fn, "args": {k: repr(x) for k, x in v.items()}, "forms": forms}
    before = {k: (x.copy() if isinstance(x, np.ndarray) else x) for k, x in v.items()}
    def fail(key, text): out["failures"].append({"key": key, "text": text, "props": ["C20"], "call": desc})
    try:
        with np.errstate(all="ignore"):
            want = formula(fn, v)
            got = getattr(U, fn)(**v)
            again = getattr(U, fn)(**v)
    except Exception as e:
        fail("argforms.exception", "%s(%s) raised %s: %s" % (fn, forms, type(e).__name__, e)); return out
    f32 = any("float32" in f for f in forms.values())
    tol = 2e-5 if f32 else 1e-9
    g, w, a2 = np.asarray(got, dtype=np.float64), np.asarray(want, dtype=np.float64), np.asarray(again, dtype=np.float64)
    if g.shape != w.shape or not np.allclose(g, w, rtol=tol, atol=0.0, equal_nan=True):
        fail("argforms.value", "%s: result %r differs from the closed form %r for argument forms %s" % (fn, g.tolist(), w.tolist(), forms))
    if a2.shape != g.shape or not np.array_equal(a2, g, equal_nan=True):
        fail("argforms.repeat", "%s: a second identical call returned %r after %r" % (fn, a2.tolist(), g.tolist()))
    for k, x in v.items():
        if isinstance(x, np.ndarray) and not np.array_equal(x, before[k]):
            fail("argforms.mutated", "%s modified its array argument %s: %r -> %r" % (fn, k, before[k].tolist(), x.tolist()))
    # a call that names another material must not colour a later call that relies on the defaults (copper)
    try:
        other = {k: (float(np.asarray(x).ravel()[0]) if k not in ("rho", "tcr") else x) for k, x in v.items()}
        other["rho"], other["tcr"] = 2.82e-8, 0.0039
        getattr(U, fn)(**{k: x for k, x in other.items()})
        dflt = {k: x for k, x in other.items() if k not in ("rho", "tcr")}
        got_d = float(getattr(U, fn)(**dflt))
        want_d = float(formula(fn, dict(dflt, rho=_RHO0, tcr=_TCR0)))
        if not abs(got_d - want_d) <= 1e-9 * abs(want_d):
            fail("argforms.defaults", "%s with default rho/tcr after a call with another material: %r, copper gives %r" % (fn, got_d, want_d))
        g2 = float(U.trace_res(w1_mm=2.0, w2_mm=2.0, l_mm=30.0, t_mm=0.035, temp=45.0)); g3 = float(U.plane_res(w=2.0, l=30.0, t_mm=0.035, temp=45.0))
        if not abs(g2 - g3) <= 1e-12 * abs(g3): fail("argforms.defaults", "trace_res(W, W, L) %r != plane_res(W, L) %r with default material" % (g2, g3))
    except Exception as e:
        fail("argforms.exception", "default-material sequence raised %s: %s" % (type(e).__name__, e))
    if idx < 3: out["sample"] = {"system": "%s(%s)" % (fn, ", ".join("%s=%s" % kv for kv in forms.items())), "verdict": "%d failures" % len(out["failures"])}
    return out


def family(seed, n):
    return summarize(run_pool(case, [(seed, i) for i in range(n)]),
                     "trace_res/plane_res called with python ints/floats, numpy scalars and arrays of the dtypes %s; value vs the closed form in float64, no mutation of array arguments, repeat call identical" % [d.__name__ for d in DTYPES],
                     "positive dimensions 0.035..40 mm, rho 1e-8..5e-8, tcr in {0, 0.00393, 0.00429, 0.5, 1, 2, 40}, temp -40..200 degC; arrays of length 3")
