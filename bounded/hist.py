"""Layer B: edit histories.  WF (C14) as run-time invariant after every call, untouched-on-reject (C15), edited == rebuilt
from the independent reference model + every report succeeds + configuration reports show the configured values (C16),
stale-cache detection (reports taken between edits)."""
import random, copy, json, io, os, tempfile, contextlib, itertools, warnings
warnings.filterwarnings("ignore")
from . import gen, oracle
from .model import Model, cls_name, norm_params, TYPE_OF
from .runner import run_pool, summarize, _hash

EDIT_KINDS = ["Converter", "LinReg", "RLoss", "VLoss", "PSwitch", "RectD", "PMux", "PLoad", "ILoad", "RLoad"]
FIXED = {"Source": {"vo": 12.0, "rs": 0.01}, "Converter": {"vo": 3.3, "eff": 0.9}, "LinReg": {"vo": 2.5, "ig": 1e-4}, "RLoss": {"rs": 0.05}, "VLoss": {"vdrop": 0.1},
         "PSwitch": {"rs": 0.02}, "RectD": {"vdrop": 0.2}, "RectM": {"rs": 0.02}, "PMux": {"rs": 0.05}, "PLoad": {"pwr": 0.05}, "ILoad": {"ii": 0.01}, "RLoad": {"rs": 500.0}}


def spec_of(kind, name, rnd=None):
    a = dict(FIXED[kind])
    if rnd is not None:
        if kind == "Source": a["vo"] = rnd.choice([5.0, 9.0, 12.0])
        if kind == "Converter": a["vo"] = rnd.choice([1.8, 3.3]); a["iq"] = rnd.choice([0.0, 1e-4])
        if kind == "PLoad": a["pwr"] = rnd.choice([0.02, 0.05])
        if kind == "ILoad": a["ii"] = rnd.choice([0.005, 0.01]); a["iis"] = rnd.choice([0.0, 1e-5])
        if kind == "RLoss": a["rs"] = rnd.choice([0.02, 0.05])
        if rnd.random() < 0.2 and kind != "Source": a["limits"] = {"vi": [0.0, rnd.choice([4.0, 100.0])]}
    return {"kind": kind, "name": name, "args": a}


# ------------------------------------------------------------------------------------------------- WF (C14)
def wf(s):
    """representation invariant over the internals of the real System"""
    from sysloss.components import _ComponentTypes as CT
    g = s._g; a = g.attrs; errs = []
    live = list(g.node_indices())
    names = {}
    for i in live:
        nm = g[i]._params["name"]
        if nm in names: errs.append("duplicate component name %r in the graph" % nm)
        names[nm] = i
    if a["nodes"] != names: errs.append("name registry != graph nodes: %s vs %s" % (sorted(a["nodes"].items()), sorted(names.items())))
    for reg in ("rails", "groups", "phase_conf"):
        if set(a[reg]) != set(names): errs.append("%s registry domain != component names (diff %s)" % (reg, sorted(set(a[reg]) ^ set(names))))
    rl = [r for r in a["rails"].values() if r != ""]
    if len(rl) != len(set(rl)): errs.append("duplicate rail names %s" % sorted(rl))
    if set(rl) & set(names): errs.append("a rail name equals a component name: %s" % sorted(set(rl) & set(names)))
    nmux = 0
    for i in live:
        c = g[i]; t = c._component_type; nm = c._params["name"]
        if (g.in_degree(i) == 0) != (t == CT.SOURCE): errs.append("roots are not exactly the Sources: %s (type %s, in-degree %d)" % (nm, t.name, g.in_degree(i)))
        if t == CT.LOAD and g.out_degree(i) > 0: errs.append("load %s has children" % nm)
        if g.in_degree(i) > 1 and t != CT.PMUX: errs.append("%s has several parents but is not a PMux" % nm)
        if t == CT.PMUX: nmux += 1
        for p in g.predecessor_indices(i):
            if t not in g[p]._child_types: errs.append("link %s -> %s is not one add_comp would accept" % (g[p]._params["name"], nm))
        if g.in_degree(i) > 1:
            res = [s._get_index(n) for n in a["pnames"].get(i, [])]
            if sorted(res) != sorted(g.predecessor_indices(i)): errs.append("stored parent names of the mux %s do not resolve to exactly its parents (%s)" % (nm, a["pnames"].get(i)))
    if nmux > 1: errs.append("more than one PMux")
    return errs


# ------------------------------------------------------------------------------------------------- snapshots (C15 / C17)
def _ipr_state(comp):
    """the interpolator's own arrays and bounds (analysis calls must not touch them)"""
    ip = getattr(comp, "_ipr", None)
    if ip is None: return None
    import numpy as np
    out = {"class": type(ip).__name__}
    for k, v in sorted(vars(ip).items()):
        if isinstance(v, np.ndarray): out[k] = v.tolist()
        elif isinstance(v, (int, float, str, list, tuple, bool)) or v is None: out[k] = v
        else: out[k] = "obj:%d" % id(v)
    return json.dumps(out, sort_keys=True, default=str)


def snap_internal(s):
    g = s._g; a = g.attrs
    return {"nodes": dict(a["nodes"]), "rails": dict(a["rails"]), "groups": dict(a["groups"]), "phase_conf": copy.deepcopy(a["phase_conf"]), "phases": copy.deepcopy(a["phases"]),
            "pnames": {k: list(v) for k, v in a["pnames"].items() if k in set(g.node_indices())}, "name": a["name"],
            "edges": sorted((g[x]._params["name"], g[y]._params["name"]) for x, y in g.edge_list()),
            "graph": sorted(g[i]._params["name"] for i in g.node_indices()),
            "objs": {g[i]._params["name"]: id(g[i]) for i in g.node_indices()},
            "params": {g[i]._params["name"]: json.dumps(g[i]._params, sort_keys=True, default=str) for i in g.node_indices()},
            "limits": {g[i]._params["name"]: json.dumps(g[i]._limits, sort_keys=True, default=str) for i in g.node_indices()},
            "interp": {g[i]._params["name"]: _ipr_state(g[i]) for i in g.node_indices()}}


def frame_txt(df):
    return None if df is None else df.to_string()


def tree_text(s, name=""):
    """what tree() prints (rich console capture)"""
    import rich
    try:
        with rich.get_console().capture() as cap:
            s.tree(name) if name else s.tree()
        return cap.get()
    except Exception as e:
        return "EXC " + type(e).__name__


def tree_edges(text):
    """(parent, child) pairs and the node multiset of a printed rich tree"""
    edges, stack, names = set(), [], []
    for ln in text.splitlines():
        if not ln.strip(): continue
        k = 0
        while k < len(ln) and ln[k] in " │├└─": k += 1
        depth, nm = k // 4, ln[k:]
        stack = stack[:depth] + [nm]
        names.append(nm)
        if depth > 0: edges.add((stack[depth - 1], nm))
    return edges, sorted(names)


def snap_public(s, solve=True):
    """what the property names: tree(), params(limits=True), phases(), the save() document, solve()"""
    out = {}
    out["tree"] = tree_text(s)
    for nm, fn in (("params", lambda: s.params(limits=True)), ("phases", lambda: s.phases())):
        try: out[nm] = frame_txt(fn())
        except Exception as e: out[nm] = "EXC " + type(e).__name__
    try:
        fd, p = tempfile.mkstemp(suffix=".json"); os.close(fd)
        s.save(p); out["save"] = json.dumps(json.load(open(p)), sort_keys=True); os.unlink(p)
    except Exception as e:
        out["save"] = "EXC " + type(e).__name__
    if solve:
        try: out["solve"] = frame_txt(s.solve())
        except Exception as e: out["solve"] = "EXC %s %s" % (type(e).__name__, str(e)[:60])
    return out


# ------------------------------------------------------------------------------------------------- op alphabet
def random_op(rnd, m, cnt):
    names = list(m.nodes); rails = [n.rail for n in m.nodes.values() if n.rail]
    pool = names + rails + ["nope", ""]
    fresh = "N%d" % cnt
    k = rnd.choice(["add", "add", "add", "add", "add_source", "change", "change", "del", "del", "phases", "cphases"])
    if k == "add":
        kind = rnd.choice(EDIT_KINDS)
        nm = rnd.choice([fresh, fresh, fresh, fresh, rnd.choice(pool)]) or fresh
        rail = rnd.choice(["", "", "R%d" % cnt, rnd.choice(pool), rnd.choice(pool) + " ", " " + rnd.choice(pool)])      # names differing only by surrounding blanks are different names
        par = rnd.sample(pool, min(len(pool), rnd.randint(1, 3))) if (kind == "PMux" and rnd.random() < 0.7) else rnd.choice(pool)
        return {"op": "add_comp", "parent": par, "comp": spec_of(kind, nm, rnd), "group": rnd.choice(["", "g"]), "rail": rail, "werror": rnd.random() < 0.1}
    if k == "add_source":
        nm = rnd.choice([fresh, fresh, rnd.choice(pool)]) or fresh
        kind = "Source" if rnd.random() < 0.9 else "RLoss"
        return {"op": "add_source", "comp": spec_of(kind, nm, rnd), "group": "", "rail": rnd.choice(["", "R%d" % cnt, rnd.choice(pool)])}
    if k == "change":
        tgt = rnd.choice(pool); kind = rnd.choice(EDIT_KINDS + ["Source"])
        if tgt in m.nodes and rnd.random() < 0.5: kind = m.nodes[tgt].kind
        nm = rnd.choice([tgt, tgt, fresh, rnd.choice(pool)]) or fresh
        return {"op": "change_comp", "name": tgt, "comp": spec_of(kind, nm, rnd), "group": rnd.choice(["", "g2"]), "rail": rnd.choice(["", "", "R%d" % cnt, rnd.choice(pool)]), "werror": rnd.random() < 0.1}
    if k == "del":
        return {"op": "del_comp", "name": rnd.choice(pool), "del_childs": rnd.choice([True, False, True, False, 0, 1])}      # the flag as a python bool, or as the int a table lookup would give
    if k == "phases":
        return {"op": "set_sys_phases", "phases": rnd.choice([{"a": 1.0, "b": 2.0}, {"a": 1.0, "b": 2.0, "c": 5.0}, {"a": 1.0}, {"N/A": 1, "b": 2}, {}])}
    tgt = rnd.choice(pool)
    r = m.resolve(tgt)
    if r is not None:       # well-typed configurations only: tables for loads, lists otherwise (C06 domain)
        conf = rnd.choice([{"a": 0.01}, {"a": 0.02, "c": 0.0}] if m.nodes[r].type == "LOAD" else [["a"], ["b", "c"]])
        if m.nodes[r].kind == "RLoad": conf = {"a": 100.0}
        if rnd.random() < 0.15: conf = rnd.choice(["bad", 3])
    else:
        conf = rnd.choice([["a"], {"a": 0.01}, "bad"])
    return {"op": "set_comp_phases", "name": tgt, "conf": conf}


def op_text(op):
    if "comp" in op: return "%s(%s%s, %s %r, rail=%r)" % (op["op"], (repr(op.get("parent")) + ", ") if "parent" in op else (repr(op.get("name")) + ", " if "name" in op else ""), "", op["comp"]["kind"], op["comp"]["name"], op.get("rail", "")) + (" [warnings=error]" if op.get("werror") else "")
    return json.dumps(op)


# ------------------------------------------------------------------------------------------------- one history
def run_history(ops, props, check_public=True, probe_every=0):
    """-> failures.  ops[0] must be 'system'."""
    F = []
    def fail(key, text, pr): F.append({"key": key, "text": text, "props": pr, "history": [op_text(o) for o in ops], "recipe": {"ops": ops}})
    s = gen.apply_op(None, ops[0]); m = Model(); m.apply(ops[0])
    first_solve_done = False
    for i, op in enumerate(ops[1:], 1):
        if op["op"] == "set_comp_phases" and isinstance(op.get("name"), str):
            # only well-typed configurations belong to the properties' domain (lists for sources/converters/regulators/switches/mux,
            # tables for loads, C06): an alphabet entry chosen for the base system may meet another kind after earlier edits
            r_ = m.resolve(op["name"])
            if r_ is not None and ((m.nodes[r_].type == "LOAD") != isinstance(op["conf"], dict)) and isinstance(op["conf"], (dict, list)):
                continue
        before_i = snap_internal(s)
        before_p = snap_public(s, solve=first_solve_done) if check_public else None
        try:
            gen.apply_op(s, op); exc = None
        except Exception as e:
            exc = e
        if exc is not None:
            after_i = snap_internal(s)
            if after_i != before_i:
                d = [k for k in before_i if before_i[k] != after_i[k]]
                if not any(f["key"].startswith("reject.") for f in F):
                    fail("reject.internal", "rejected call #%d %s (%s) changed the system: %s" % (i, op_text(op), type(exc).__name__, d), ["C15", "C14"])
                continue        # the reference model did not apply the rejected call: it stays in step, the history goes on
            if check_public:
                after_p = snap_public(s, solve=first_solve_done)
                if after_p != before_p:
                    d = [k for k in before_p if before_p[k] != after_p[k]]
                    if not any(f["key"].startswith("reject.") for f in F):
                        fail("reject.public", "rejected call #%d %s (%s) changed reports: %s" % (i, op_text(op), type(exc).__name__, d), ["C15"])
            continue
        errs = wf(s)
        if errs and not any(f["key"] == "wf" for f in F):
            fail("wf", "after accepted call #%d %s: %s" % (i, op_text(op), errs[0]), ["C14"])      # recorded; the history goes on (the reference model stays in step)
        try:
            m.apply(op)
        except Exception as e:
            fail("model", "accepted call #%d %s cannot be applied to the reference model (%s: %s): the call should have been rejected" % (i, op_text(op), type(e).__name__, e), ["C14", "C16"]); break
        if probe_every and i % probe_every == 0:
            try:
                s.solve(); first_solve_done = True      # a report between edits: later reports must not reuse its caches
            except Exception:
                pass
    if F: return F, s, m
    return F, s, m


def compare_with_rebuilt(s, m, ops, seed, props):
    """C16: every report succeeds, lists exactly the live components, equals a system built from scratch from the reference model"""
    F = []
    def fail(key, text): F.append({"key": key, "text": text, "props": props, "history": [op_text(o) for o in ops], "recipe": {"ops": ops}})
    from .families import _solve_outcome, table_rows
    oc, df = _solve_outcome(s, energy=True)
    if oc not in ("table", "unstable", "RuntimeError"):
        fail("report.solve", "solve() after the history ended with %s" % oc); return F
    for nm, fn in (("params", lambda: s.params(limits=True)), ("limits", lambda: s.limits()), ("phases", lambda: s.phases()), ("rail_rep", lambda: s.rail_rep() if oc == "table" else None)):
        try: fn()
        except Exception as e:
            if oc == "table" or nm not in ("rail_rep",): fail("report." + nm, "%s() after the history raised %s: %s" % (nm, type(e).__name__, str(e)[:80]))
    try:
        fd, p = tempfile.mkstemp(suffix=".json"); os.close(fd); s.save(p)
        # the saved document describes the final structure: it reloads, and the reloaded system solves to the same table
        try:
            doc_ = json.load(open(p))
            for sect in ("phase_conf", "groups", "rails"):
                ks = set(doc_.get("system", {}).get(sect, {}))
                if ks != set(m.nodes): fail("report.save", "the %s section of the save() document and the components differ by %s (components: %s)" % (sect, sorted(ks ^ set(m.nodes))[:4], sorted(m.nodes)[:6]))
        except Exception as e:
            fail("report.save", "the save() document cannot be read back: %s" % type(e).__name__)
        try:
            from sysloss.system import System
            s3 = System.from_file(p)
            oc3, df3 = _solve_outcome(s3, energy=True)
            if oc3 != oc: fail("report.save", "the save() document of the edited system reloads to a system that solves to %s (edited system: %s)" % (oc3, oc))
            elif oc == "table":
                from .families import frames_differ
                d = frames_differ(df, df3, ["Component", "Phase"])
                if d: fail("report.save", "the save() document of the edited system reloads to a different system: %s" % d)
        except Exception as e:
            fail("report.save", "the save() document of the edited system cannot be loaded: %s: %s" % (type(e).__name__, str(e)[:80]))
        finally:
            os.unlink(p)
    except Exception as e:
        fail("report.save", "save() after the history raised %s" % type(e).__name__)
    if F: return F
    if oc == "table":
        F2 = oracle.check_table(m, df, s, energy=True)
        for f in F2[:3]:
            fail("edited.table:" + f["key"], "table of the edited system disagrees with the reference model of the final structure: " + f["text"])
    for k in range(2):
        try:
            r2 = m.rebuild_recipe(random.Random(seed + k) if k else None)
            s2, _ = gen.build(r2)
        except Exception as e:
            fail("rebuild", "the final structure (reference model) cannot be built from scratch: %s: %s" % (type(e).__name__, str(e)[:100])); break
        oc2, df2 = _solve_outcome(s2, energy=True)
        if oc2 != oc: fail("edited.outcome", "edited system: %s, rebuilt system: %s" % (oc, oc2)); break
        if oc == "table":
            t1, k1 = table_rows(df); t2, k2 = table_rows(df2)
            if k1 != k2 or set(t1) != set(t2): fail("edited.shape", "edited and rebuilt systems list different rows/columns: %s" % sorted(set(t1) ^ set(t2))[:4]); break
            for kk in t1:
                d = [(c, a, b) for c, a, b in zip(k1, t1[kk], t2[kk]) if a != b and not (isinstance(a, float) and isinstance(b, float) and oracle.close(a, b, 5e-5, 1e-9))]
                if d: fail("edited.values", "row %s: edited %s" % (kk, d[:3])); break
        e1, n1_ = tree_edges(tree_text(s)); e2, n2_ = tree_edges(tree_text(s2))
        if e1 != e2 or n1_ != n2_: fail("edited.tree", "tree() of the edited system differs from the rebuilt one: %s" % sorted(e1 ^ e2)[:4]); break
        listed = tree_edges(tree_text(s))[0]
        shown = {c_ for _, c_ in listed}
        if shown != set(m.nodes): fail("edited.tree", "tree() does not list exactly the components: %s" % sorted(shown ^ set(m.nodes))[:4]); break
        for nm, f1, f2 in (("params", lambda: s.params(limits=True), lambda: s2.params(limits=True)), ("phases", lambda: s.phases(), lambda: s2.phases())):
            a, b = f1(), f2()
            ka = None if a is None else sorted(map(str, a.to_dict("records")))
            kb = None if b is None else sorted(map(str, b.to_dict("records")))
            if ka != kb: fail("edited." + nm, "%s() of the edited system differs from the rebuilt one" % nm); break
    F.extend(config_reports(s, m, ops, props))
    return F


PARAM_COLS = {"vo (V)": "vo", "vdrop (V)": "vdrop", "rs (Ohm)": "rs", "rt (°C/W)": "rt", "eff (%)": "eff", "ig (A)": "ig", "iq (A)": "iq", "ii (A)": "ii", "iis (A)": "iis", "pwr (W)": "pwr", "pwrs (W)": "pwrs", "loss": "loss"}


def config_reports(s, m, ops, props):
    """independent oracle for params()/limits()/phases(): every cell against the configured value (tables as 'interp')"""
    F = []
    def fail(key, text): F.append({"key": key, "text": text, "props": props, "history": [op_text(o) for o in ops], "recipe": {"ops": ops}})
    try:
        pf = s.params(limits=True)
    except Exception as e:
        fail("params.exc", "params(limits=True) raised %s" % type(e).__name__); return F
    rows = {r["Component"]: r for r in pf.to_dict("records")}
    if set(rows) != set(m.nodes): fail("params.rows", "params() lists %s, live components are %s" % (sorted(rows), sorted(m.nodes)))
    for nm, node in m.nodes.items():
        r = rows.get(nm)
        if r is None: continue
        if r["Type"] != node.type: fail("params.type", "%s: Type %r != %r" % (nm, r["Type"], node.type))
        for col, key in PARAM_COLS.items():
            cell = r.get(col, "")
            if key in node.P and not (node.cls == "Rectifier" and ((node.P["type"] == "diode" and key in ("rs", "ig", "iq")) or (node.P["type"] == "mosfet" and key == "vdrop"))):
                v = node.P[key]
                if key == "ig" and not isinstance(v, dict): v = node.spec["args"].get("ig", 0.0)      # a constant ig is shown as configured
                exp = "interp" if isinstance(v, dict) else v
                ok = (cell == exp) if isinstance(exp, (str, bool, list)) else (not isinstance(cell, str) and oracle.close(cell, exp, 1e-12, 0))
                if not ok: fail("params.cell", "%s: params() column %r shows %r, configured %s = %r" % (nm, col, cell, key, exp))
            elif cell != "":
                fail("params.cell", "%s: params() column %r shows %r but the kind has no parameter %s" % (nm, col, cell, key))
        DEF = {k: [0.0, 1e6] for k in ("vi", "vo", "vd", "ii", "io", "pi", "po", "pl", "tr")}; DEF["tp"] = [-1e6, 1e6]
        for k, unit in (("vi", "V"), ("vo", "V"), ("vd", "V"), ("ii", "A"), ("io", "A"), ("pi", "W"), ("po", "W"), ("pl", "W"), ("tr", "°C"), ("tp", "°C")):
            cell = r.get("%s limit (%s)" % (k, unit), "")
            exp = node.limits.get(k, "")
            if exp != "" and list(exp) == DEF[k]: exp = ""
            if (cell != "" or exp != "") and not (cell != "" and exp != "" and list(cell) == list(exp)):
                fail("limits.cell", "%s: limit column %s shows %r, configured %r" % (nm, k, cell, exp))
    try:
        ph = s.phases()
    except Exception as e:
        fail("phases.exc", "phases() raised %s" % type(e).__name__); return F
    if not m.phases:
        if ph is not None: fail("phases.none", "phases() returned a table although no phases are defined")
        return F
    if ph is None: fail("phases.none", "phases() returned None although phases are defined"); return F
    got = {}
    for r in ph.to_dict("records"): got.setdefault(r["Component"], []).append(r)
    if set(got) != set(m.nodes): fail("phases.rows", "phases() lists %s, live components are %s" % (sorted(got), sorted(m.nodes)))
    for nm, node in m.nodes.items():
        rs = got.get(nm, [])
        act = [r["Active phase"] for r in rs]
        if node.type == "SLOSS" or not node.pc or node.type == "RECTIFIER":
            want = ["N/A"]
        else:
            want = [p for p in m.phases if p in node.pc] or ["N/A"]
        if act != want: fail("phases.active", "%s: phases() shows active phases %s, configured %s" % (nm, act, want)); continue
        if node.type == "LOAD":
            key, col = {"PLoad": ("pwr", "pwr (W)"), "ILoad": ("ii", "ii (A)"), "RLoad": ("rs", "rs (Ohm)")}[node.cls]
            for r in rs:
                exp = node.P[key] if r["Active phase"] == "N/A" else node.pc[r["Active phase"]]
                if isinstance(r[col], str) or not oracle.close(r[col], exp, 1e-12, 0): fail("phases.value", "%s: phases() shows %r for phase %s, configured %r" % (nm, r[col], r["Active phase"], exp))
    return F


# ------------------------------------------------------------------------------------------------- families
BASES = [
    [{"op": "system", "comp": spec_of("Source", "S0"), "group": "", "rail": "R0"}],
    [{"op": "system", "comp": spec_of("Source", "S0"), "group": "", "rail": ""}, {"op": "add_comp", "parent": "S0", "comp": spec_of("Converter", "C1"), "group": "", "rail": "RC"},
     {"op": "add_comp", "parent": "C1", "comp": spec_of("PLoad", "L1"), "group": "", "rail": ""}],
    [{"op": "system", "comp": spec_of("Source", "S0"), "group": "", "rail": ""}, {"op": "add_source", "comp": spec_of("Source", "S1"), "group": "", "rail": "R1"},
     {"op": "add_comp", "parent": "S0", "comp": spec_of("RLoss", "F0"), "group": "", "rail": "RF"},
     {"op": "add_comp", "parent": ["RF", "S1"], "comp": spec_of("PMux", "MX"), "group": "", "rail": ""}, {"op": "add_comp", "parent": "MX", "comp": spec_of("ILoad", "L0"), "group": "", "rail": ""}],
    [{"op": "system", "comp": spec_of("Source", "S0"), "group": "", "rail": ""}, {"op": "add_comp", "parent": "S0", "comp": spec_of("LinReg", "G1"), "group": "g", "rail": ""},
     {"op": "add_comp", "parent": "G1", "comp": spec_of("RLoad", "L1"), "group": "", "rail": ""}, {"op": "set_sys_phases", "phases": {"a": 1.0, "b": 2.0}},
     {"op": "set_comp_phases", "name": "G1", "conf": ["a"]}],
]


def _src(name, vo):
    sp = spec_of("Source", name); sp["args"] = dict(sp["args"], vo=vo); return sp


def _mux3(inputs, v0, v1):
    """S0 (rail R0), S1 (rail R1), tap F0 (RLoss, rail RF) below S0; a 3-input mux over `inputs`; one load below the mux"""
    return [{"op": "system", "comp": _src("S0", v0), "group": "", "rail": "R0"}, {"op": "add_source", "comp": _src("S1", v1), "group": "", "rail": "R1"},
            {"op": "add_comp", "parent": "S0", "comp": spec_of("RLoss", "F0"), "group": "", "rail": "RF"},
            {"op": "add_comp", "parent": list(inputs), "comp": spec_of("PMux", "MX"), "group": "", "rail": ""}, {"op": "add_comp", "parent": "MX", "comp": spec_of("ILoad", "L0"), "group": "", "rail": ""}]


# 3-input muxes where one input (the tap F0) hangs below another input, addressed by name or by rail, in every priority order that
# matters for re-linking (del_comp keeping children, renames): the tables before/after differ visibly because S0 and S1 differ
# node slots freed by deletions are re-used (rustworkx): a source that sits at a HIGHER index than its own descendants, and a mux at index 0
BASES += [
    [{"op": "system", "comp": _src("S0", 5.0), "group": "", "rail": ""}, {"op": "add_comp", "parent": "S0", "comp": spec_of("Converter", "A0"), "group": "", "rail": ""},
     {"op": "add_comp", "parent": "S0", "comp": spec_of("RLoss", "B0"), "group": "", "rail": ""}, {"op": "add_source", "comp": _src("S1", 9.0), "group": "", "rail": "R1"},
     {"op": "del_comp", "name": "A0", "del_childs": True}, {"op": "del_comp", "name": "B0", "del_childs": True},
     {"op": "add_source", "comp": _src("S2", 12.0), "group": "", "rail": ""}, {"op": "add_comp", "parent": "S2", "comp": spec_of("RLoss", "X0"), "group": "", "rail": "RX"},
     {"op": "add_comp", "parent": "X0", "comp": spec_of("Converter", "Y0"), "group": "", "rail": ""},
     {"op": "add_comp", "parent": ["Y0", "S1"], "comp": spec_of("PMux", "MX"), "group": "", "rail": ""}, {"op": "add_comp", "parent": "MX", "comp": spec_of("ILoad", "L0"), "group": "", "rail": ""}],
    [{"op": "system", "comp": _src("S0", 5.0), "group": "", "rail": ""}, {"op": "add_source", "comp": _src("S1", 9.0), "group": "", "rail": "R1"},
     {"op": "add_source", "comp": _src("S2", 12.0), "group": "", "rail": ""}, {"op": "add_comp", "parent": "S0", "comp": spec_of("ILoad", "L9"), "group": "", "rail": ""},
     {"op": "del_comp", "name": "S0", "del_childs": True},
     {"op": "add_comp", "parent": ["S1", "S2"], "comp": spec_of("PMux", "MX"), "group": "g", "rail": "RM"},
     {"op": "add_comp", "parent": "MX", "comp": spec_of("Converter", "C5"), "group": "", "rail": ""}, {"op": "add_comp", "parent": "C5", "comp": spec_of("PLoad", "L5"), "group": "", "rail": ""}],
]
BASES += [[{"op": "system", "comp": _src("S0", 5.0), "group": "", "rail": ""}] + [{"op": "add_source", "comp": _src("S%d" % k_, 5.0 + k_), "group": "", "rail": ""} for k_ in range(1, 5)]
          + [{"op": "add_comp", "parent": "S0", "comp": spec_of("ILoad", "L0"), "group": "", "rail": ""}]]      # five sources (wide muxes)
BASES += [_mux3(("F0", "R0", "S1"), 0.0, 9.0), _mux3(("F0", "S1", "S0"), 5.0, 9.0), _mux3(("S1", "RF", "R0"), 5.0, 0.0), _mux3(("R0", "S1", "F0"), 5.0, 9.0)]


def alphabet(m):
    """~30 valid / invalid operations relative to the model m of a base system"""
    names = list(m.nodes); inner = [n for n in names if m.nodes[n].type not in ("LOAD",)]
    rails = [n.rail for n in m.nodes.values() if n.rail]
    first, last = names[0], names[-1]
    A = []
    A.append({"op": "add_comp", "parent": inner[-1], "comp": spec_of("ILoad", "NL"), "group": "", "rail": ""})
    A.append({"op": "add_comp", "parent": inner[-1], "comp": spec_of("Converter", "NC"), "group": "", "rail": "RN"})
    A.append({"op": "add_comp", "parent": inner[-1], "comp": spec_of("Converter", first), "group": "", "rail": ""})               # colliding name
    A.append({"op": "add_comp", "parent": inner[0], "comp": spec_of("RLoss", "NR"), "group": "", "rail": rails[0] if rails else first})   # colliding rail / rail = a name
    A.append({"op": "add_comp", "parent": "nope", "comp": spec_of("ILoad", "NL2"), "group": "", "rail": ""})
    A.append({"op": "add_comp", "parent": "", "comp": spec_of("ILoad", "NL3"), "group": "", "rail": ""})
    A.append({"op": "add_comp", "parent": last, "comp": spec_of("ILoad", "NL4"), "group": "", "rail": ""})                         # below a load when last is a load
    A.append({"op": "add_comp", "parent": [inner[0], rails[0] if rails else inner[-1]], "comp": spec_of("PMux", "NM"), "group": "", "rail": ""})
    A.append({"op": "add_comp", "parent": [inner[0], inner[0]], "comp": spec_of("PMux", "NM2"), "group": "", "rail": ""})
    A.append({"op": "add_comp", "parent": [inner[0], inner[-1]], "comp": spec_of("Converter", "NC2"), "group": "", "rail": ""})     # list parent for a non-mux
    loads_ = [x for x in names if m.nodes[x].type == "LOAD"]
    if loads_:
        A.append({"op": "add_comp", "parent": [inner[0], loads_[0]], "comp": spec_of("PMux", "NM3"), "group": "", "rail": ""})      # a load as a later mux input: rejected
        A.append({"op": "add_comp", "parent": [loads_[0], inner[0]], "comp": spec_of("PMux", "NM4"), "group": "", "rail": ""})
    srcs_ = [x for x in names if m.nodes[x].type == "SOURCE"]
    if len(srcs_) >= 5:
        A.append({"op": "add_comp", "parent": srcs_[:5], "comp": spec_of("PMux", "NM5"), "group": "", "rail": ""})                       # five inputs
        A.append({"op": "add_comp", "parent": srcs_[:4], "comp": spec_of("PMux", "NM6"), "group": "", "rail": ""})
    A.append({"op": "add_comp", "parent": rails[0] if rails else inner[0], "comp": spec_of("PSwitch", "NS"), "group": "g", "rail": "NS"})   # rail == own name
    A.append({"op": "add_source", "comp": spec_of("Source", "NSRC"), "group": "", "rail": "RS2"})
    A.append({"op": "add_source", "comp": spec_of("Source", first), "group": "", "rail": ""})
    A.append({"op": "add_source", "comp": spec_of("RLoss", "NOTSRC"), "group": "", "rail": ""})
    A.append({"op": "add_source", "comp": spec_of("Source", inner[-1]), "group": "", "rail": ""})                    # collides with a (possibly phase-configured) component: rejected, its configuration stays
    A.append({"op": "add_comp", "parent": first, "comp": spec_of("ILoad", inner[-1]), "group": "", "rail": ""})
    A.append({"op": "change_comp", "name": last, "comp": spec_of(m.nodes[last].kind, last), "group": "", "rail": ""})
    A.append({"op": "change_comp", "name": inner[-1], "comp": spec_of(m.nodes[inner[-1]].kind, "REN"), "group": "g3", "rail": "RR"})  # rename
    A.append({"op": "change_comp", "name": inner[-1], "comp": spec_of("PLoad", inner[-1]), "group": "", "rail": ""})                 # load replacing a parent
    A.append({"op": "change_comp", "name": first, "comp": spec_of("Converter", first), "group": "", "rail": ""})                    # source -> other
    A.append({"op": "change_comp", "name": last, "comp": spec_of("Source", last), "group": "", "rail": ""})                          # other -> source
    A.append({"op": "change_comp", "name": last, "comp": spec_of("PMux", last), "group": "", "rail": ""})
    A.append({"op": "change_comp", "name": inner[-1], "comp": spec_of(m.nodes[inner[-1]].kind, inner[-1]), "group": "", "rail": rails[0] if rails else first})
    A.append({"op": "change_comp", "name": rails[0] if rails else "nope", "comp": spec_of("RLoss", "X9"), "group": "", "rail": ""})   # addressed by rail: not a component name
    A.append({"op": "change_comp", "name": inner[-1], "comp": spec_of(m.nodes[inner[-1]].kind, first if first != inner[-1] else "S9"), "group": "", "rail": ""})
    A.append({"op": "del_comp", "name": last, "del_childs": True})
    A.append({"op": "del_comp", "name": inner[-1], "del_childs": False})
    A.append({"op": "del_comp", "name": inner[-1], "del_childs": True})
    A.append({"op": "del_comp", "name": inner[-1], "del_childs": 0})
    A.append({"op": "del_comp", "name": [inner[-1], last], "del_childs": True})          # a list of names is not a name: whatever is raised, nothing is deleted
    A.append({"op": "del_comp", "name": [last, first], "del_childs": True})
    A.append({"op": "set_comp_phases", "name": [inner[-1]], "conf": ["a"]})
    A.append({"op": "change_comp", "name": [last], "comp": spec_of("ILoad", "LL9"), "group": "", "rail": ""})
    for n_ in [x for x in inner if m.nodes[x].type != "SOURCE"][:2]:
        A.append({"op": "del_comp", "name": n_, "del_childs": 0})                # a falsy flag that is not the object False
    A.append({"op": "del_comp", "name": first, "del_childs": True})
    A.append({"op": "del_comp", "name": first, "del_childs": False})
    A.append({"op": "del_comp", "name": rails[0] if rails else "", "del_childs": True})
    A.append({"op": "del_comp", "name": "nope", "del_childs": True})
    A.append({"op": "set_sys_phases", "phases": {"a": 1.0, "b": 2.0, "c": 3.0}})
    A.append({"op": "set_sys_phases", "phases": {"a": 1.0}})
    A.append({"op": "set_comp_phases", "name": inner[-1], "conf": ["a", "c"] if m.nodes[inner[-1]].type not in ("SLOSS",) else ["a"]})
    A.append({"op": "set_comp_phases", "name": rails[0] if rails else "nope", "conf": ["b"]})
    A.append({"op": "set_comp_phases", "name": last, "conf": "bad"})
    A.append({"op": "add_comp", "parent": first, "comp": spec_of("ILoad", "NL0"), "group": "", "rail": ""})
    A.append({"op": "set_sys_phases", "phases": {"x": 1.0, "y": 2.0}})                       # phase plan redefined: earlier configurations name only undefined phases
    A.append({"op": "set_sys_phases", "phases": {"a": 5.0, "b": 0.5}})                       # same names, other durations
    A.append({"op": "change_comp", "name": inner[-1], "comp": spec_of(m.nodes[inner[-1]].kind, "NEWNAME"), "group": "", "rail": "NEWNAME"})    # new rail == new name
    A.append({"op": "add_comp", "parent": [], "comp": spec_of("PMux", "NE1"), "group": "g", "rail": "RE1"})          # an empty input list (raises; nothing may stay behind)
    A.append({"op": "add_comp", "parent": [], "comp": spec_of("ILoad", "NE2"), "group": "", "rail": ""})
    A.append({"op": "add_comp", "parent": inner[0], "comp": spec_of("RLoss", "NB1"), "group": "", "rail": (rails[0] if rails else first) + " "})        # differs from a used rail / name by a trailing blank only: a different, free name
    A.append({"op": "add_comp", "parent": inner[0], "comp": spec_of("RLoss", "NB2"), "group": "", "rail": " NB2"})                                      # differs from its own name by a leading blank
    A.append({"op": "add_source", "comp": spec_of("Source", "NB3"), "group": "", "rail": " " + first})
    A.append({"op": "change_comp", "name": inner[-1], "comp": spec_of(m.nodes[inner[-1]].kind, inner[-1]), "group": "", "rail": first + " "})
    A.append({"op": "add_comp", "parent": inner[-1], "comp": spec_of("PLoad", "WL"), "group": "", "rail": "WR", "werror": True})     # 'rail ignored on loads' warning raised as an error
    A.append({"op": "change_comp", "name": last, "comp": spec_of("ILoad", "WL2"), "group": "", "rail": "WR2", "werror": True})
    for n in [x for x in inner if m.nodes[x].type != "SOURCE"][:2]:
        k = m.nodes[n].kind
        A.append({"op": "change_comp", "name": n, "comp": spec_of("Source", n + "_src"), "group": "", "rail": ""})        # -> Source under a new name: rejected
        A.append({"op": "change_comp", "name": n, "comp": spec_of(k, n), "group": "", "rail": ""})                     # same name, rail dropped
        A.append({"op": "change_comp", "name": n, "comp": spec_of(k, n + "_ren"), "group": "", "rail": "R" + n})       # rename
        A.append({"op": "del_comp", "name": n, "del_childs": False})
    return A


def exhaustive_case(args):
    bi, combo, props = args
    base = copy.deepcopy(BASES[bi])
    m0 = Model.of({"ops": base})
    A = alphabet(m0)
    ops = base + [copy.deepcopy(A[j]) for j in combo]
    out = {"hash": _hash(ops), "failures": [], "nontrivial": True, "sample": None, "outcome": "history"}
    F, s, m = run_history(ops, props, check_public=True, probe_every=(1 if sum(combo) % 2 else 0))
    if not [f for f in F if set(f["props"]) & set(props)] and len(m.nodes) and all(o is not None for o in [s]):
        # (a failure that belongs to another property does not end this property's examination of the history)
        complete = not [f for f in F if f["key"] != "wf" and not f["key"].startswith("reject.")]       # a WF failure does not desynchronise the reference model
        try:
            F = F + (compare_with_rebuilt(s, m, ops, bi * 1000 + sum(combo), props) if (complete or "C16" in props) else [])
        except Exception:
            pass
    out["failures"] = [f for f in F if set(f["props"]) & set(props)]
    if sum(combo) < 2 and bi == 1: out["sample"] = {"history": [op_text(o) for o in ops], "verdict": "%d failures" % len(F)}
    return out


def random_case(args):
    seed, idx, length, props = args
    rnd = random.Random((seed * 9176 + idx * 7 + 3) & 0xFFFFFFFF)
    ops = copy.deepcopy(rnd.choice(BASES))
    m = Model.of({"ops": ops})
    # generate the tail against a shadow model that follows the REAL accept/reject decisions
    out = {"hash": None, "failures": [], "nontrivial": True, "sample": None, "outcome": "history"}
    s = None
    try:
        s, _ = gen.build({"ops": ops})
    except Exception as e:
        out["hash"] = _hash(ops); out["failures"].append({"key": "gen.build", "text": str(e), "props": [], "fault": True}); return out
    tail = []
    shadow = Model.of({"ops": ops})
    s_shadow, _ = gen.build({"ops": ops})
    for i in range(length):
        op = random_op(rnd, shadow, 100 + i)
        tail.append(op)
        try:
            gen.apply_op(s_shadow, copy.deepcopy(op))
            try: shadow.apply(op)
            except Exception: break
        except Exception:
            pass
    allops = ops + tail
    out["hash"] = _hash(allops)
    F, s2, m2 = run_history(copy.deepcopy(allops), props, check_public=(idx % 4 == 0), probe_every=rnd.choice([0, 1, 2]))
    if not [f for f in F if set(f["props"]) & set(props)]:
        complete = not [f for f in F if f["key"] != "wf" and not f["key"].startswith("reject.")]
        try:
            F = F + (compare_with_rebuilt(s2, m2, allops, seed + idx, props) if (complete or "C16" in props) else [])
        except Exception:
            pass
    out["failures"] = [f for f in F if set(f["props"]) & set(props)]
    if idx < 2: out["sample"] = {"history": [op_text(o) for o in allops][-8:], "verdict": "%d failures" % len(F)}
    return out


def single_call_family(props):
    jobs = [(bi, (j,), props) for bi in range(len(BASES)) for j in range(len(alphabet(Model.of({"ops": BASES[bi]}))))]
    res = summarize(run_pool(exhaustive_case, jobs),
                    "every single valid/invalid edit or configuration call of the alphabet (~55 calls) applied to each of the %d base systems; afterwards every report must succeed and the solve table is checked against the reference model of the final structure and against systems rebuilt from scratch" % len(BASES),
                    "all histories of length 1 over the alphabet")
    res["exhaustive"] = True
    return res


def random_history_family(seed, n, length, props):
    res = summarize(run_pool(random_case, [(seed, i, length, props) for i in range(n)]),
                    "seeded random edit histories of length %d over valid/invalid calls from %d base systems, with reports taken between edits; the table of the edited system is checked against the reference model of the final structure and against systems rebuilt from scratch" % (length, len(BASES)),
                    "random histories, length <= %d" % length)
    return res


def history_family(seed, tier, props):
    L = 2 if tier == "quick" else 3
    jobs = []
    for bi in range(len(BASES)):
        nA = len(alphabet(Model.of({"ops": BASES[bi]})))
        for combo in itertools.product(range(nA), repeat=L):
            jobs.append((bi, combo, props))
    singles = [(bi, (j,), props) for bi in range(len(BASES)) for j in range(len(alphabet(Model.of({"ops": BASES[bi]}))))]
    if tier == "quick":
        rnd = random.Random(seed); jobs = singles + rnd.sample(jobs, min(len(jobs), 1000))     # every single call from every base + sampled pairs
    elif len(jobs) > 60000:
        rnd = random.Random(seed); jobs = rnd.sample(jobs, 60000)
    res1 = summarize(run_pool(exhaustive_case, jobs), "", "")
    nrand, length = (300, 6) if tier == "quick" else (6000, 10)
    res2 = summarize(run_pool(random_case, [(seed, i, length, props) for i in range(nrand)]), "", "")
    res = {"evaluations": res1["evaluations"] + res2["evaluations"], "distinct_nontrivial": res1["distinct_nontrivial"] + res2["distinct_nontrivial"],
           "failures": res1["failures"] + res2["failures"], "samples": res1["samples"][:2] + res2["samples"][:2],
           "rule": "histories = one of %d base systems followed by every sequence of length %d over an alphabet of ~35 valid/invalid edit and configuration calls (%s), plus %d seeded random histories of length %d with reports taken between edits; distinct by hash of the call sequence; every history performs at least one state change or rejected call" % (len(BASES), L, "every single call + 1000 sampled pairs" if tier == "quick" else "exhaustive up to 60000", nrand, length),
           "bound": "exhaustive length <= %d over the alphabet; random length <= %d" % (L, length)}
    return res
