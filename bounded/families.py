"""Layer B oracle families beyond the plain table oracle (each labelled bounded; never counted as proved)."""
import random, json, copy, math, itertools, warnings, re
warnings.filterwarnings("ignore")
from . import gen, oracle
from .model import Model
from .runner import run_pool, summarize, _hash


def _rnd(seed, idx):
    return random.Random((seed * 7919 + idx * 104729 + 17) & 0xFFFFFFFF)


def _solve_outcome(s, **kw):
    try:
        return "table", s.solve(**kw)
    except ValueError as e:
        return ("unstable" if "Unstable" in str(e) else "ValueError:" + str(e)[:80]), None
    except RuntimeError as e:
        return "RuntimeError", None
    except Exception as e:
        return "%s:%s" % (type(e).__name__, str(e)[:80]), None


# ============================================================================================================ C03
def convergence_case(args):
    seed, idx = args
    rnd = _rnd(seed, idx)
    over = rnd.random() < 0.5
    if over:
        # constant-power / constant-current loads behind too much series resistance: may have no physical operating point
        ops = [{"op": "system", "comp": {"kind": "Source", "name": "S0", "args": {"vo": rnd.choice([3.3, 5.0, 12.0, -5.0]), "rs": 0.0}}}]
        if ops[0]["comp"]["args"]["vo"] > 0: ops[0]["comp"]["args"]["rs"] = rnd.choice([0.0, 0.5, 5.0])
        chain = "S0"
        for k in range(rnd.randint(1, 3)):
            kind = rnd.choice(["RLoss", "PSwitch", "VLoss", "RectM", "RectD", "PMux"])
            a = {"RLoss": {"rs": rnd.choice([0.5, 5.0, 50.0])}, "PSwitch": {"rs": rnd.choice([0.5, 5.0, 50.0])}, "VLoss": {"vdrop": rnd.choice([0.5, 3.0, 6.0])},
                 "RectM": {"rs": rnd.choice([0.5, 5.0])}, "RectD": {"vdrop": rnd.choice([0.5, 2.0, 4.0])}, "PMux": {"rs": rnd.choice([0.5, 5.0, 50.0])}}[kind]
            if kind == "PMux" and any(o["comp"]["kind"] == "PMux" for o in ops): kind, a = "RLoss", {"rs": 5.0}
            ops.append({"op": "add_comp", "parent": chain, "comp": {"kind": kind, "name": "X%d" % k, "args": a}}); chain = "X%d" % k
        lk = rnd.choice(["PLoad", "ILoad", "RLoad"])
        la = {"PLoad": {"pwr": rnd.choice([0.5, 5.0, 50.0])}, "ILoad": {"ii": rnd.choice([0.1, 1.0, 10.0])}, "RLoad": {"rs": rnd.choice([1.0, 10.0])}}[lk]
        ops.append({"op": "add_comp", "parent": chain, "comp": {"kind": lk, "name": "L", "args": la}})
        recipe = {"ops": ops}
    elif rnd.random() < 0.25:
        # wide dynamic range: a high-voltage / high-current bus next to a milliwatt rail that needs several sweeps to settle
        # (convergence is judged element by element: the small rail must be converged to the requested tolerance too)
        hv = rnd.choice([200.0, 400.0, 48.0])
        ops = [{"op": "system", "comp": {"kind": "Source", "name": "S0", "args": {"vo": hv, "rs": 0.01}}},
               {"op": "add_comp", "parent": "S0", "comp": {"kind": "RLoad", "name": "HEAT", "args": {"rs": hv / rnd.choice([20.0, 50.0])}}},
               {"op": "add_comp", "parent": "S0", "comp": {"kind": "Converter", "name": "AUX", "args": {"vo": 3.3, "eff": 0.8}}},
               {"op": "add_comp", "parent": "AUX", "comp": {"kind": "RLoss", "name": "FILT", "args": {"rs": rnd.choice([50.0, 120.0, 220.0])}}},
               {"op": "add_comp", "parent": "FILT", "comp": {"kind": "PLoad", "name": "MCU", "args": {"pwr": rnd.choice([0.004, 0.008, 0.012])}}}]
        recipe = {"ops": ops}; over = False
    else:
        recipe = gen.random_system(rnd, max_nodes=7, n_sources=(1, 2), p_mux=0.3, p_table=0.2, p_phases=0.3)
        if rnd.random() < 0.3:
            # loads whose nominal value is far above what they draw in any phase (the steady state still has modest drops)
            ph = next((op for op in recipe["ops"] if op["op"] == "set_sys_phases"), None)
            if ph is None:
                ph = {"op": "set_sys_phases", "phases": {"run": 1.0, "sleep": 9.0}}; recipe["ops"].append(ph)
            for op in list(recipe["ops"]):
                if op["op"] == "add_comp" and op["comp"]["kind"] in ("ILoad", "PLoad"):
                    big = op["comp"]["kind"] == "ILoad"
                    op["comp"]["args"]["ii" if big else "pwr"] = rnd.choice([20.0, 200.0])
                    recipe["ops"] = [o for o in recipe["ops"] if not (o["op"] == "set_comp_phases" and o["name"] == op["comp"]["name"])]
                    recipe["ops"].append({"op": "set_comp_phases", "name": op["comp"]["name"], "conf": {p: rnd.choice([0.002, 0.01]) for p in ph["phases"]}})
    kw = dict(vtol=rnd.choice([1e-6, 1e-4, 1e-9, 1e-2]), itol=rnd.choice([1e-6, 1e-4, 1e-9, 1e-2]), maxiter=rnd.choice([0, 1, 2, 5, 50, 10000]))
    if rnd.random() < 0.35: kw["quiet"] = False        # the progress message path (also when the tolerances are NOT met)
    out = {"hash": _hash([recipe, kw]), "failures": [], "nontrivial": True, "sample": None, "outcome": None}
    from sysloss.system import System
    s, _ = gen.build(recipe); m = Model.of(recipe)
    sweeps = [0]
    orig = System._fwd_prop
    def counting(self, *a, **k):
        sweeps[0] += 1
        return orig(self, *a, **k)
    System._fwd_prop = counting
    try:
        import io as _io_, contextlib as _cl_
        with _cl_.redirect_stdout(_io_.StringIO()):
            oc, df = _solve_outcome(s, **kw)
    finally:
        System._fwd_prop = orig
    out["outcome"] = oc
    nph = max(1, len(m.phases))
    if oc not in ("table", "unstable", "RuntimeError"):
        out["failures"].append({"key": "solve.outcome", "text": "solve() ended with %s (only a table, RuntimeError or ValueError('Unstable...') are allowed)" % oc, "props": ["C03"], "recipe": recipe, "solve": kw})
    if sweeps[0] > kw["maxiter"] * nph:
        out["failures"].append({"key": "solve.sweeps", "text": "%d sweeps with maxiter=%d over %d phase(s)" % (sweeps[0], kw["maxiter"], nph), "props": ["C03"], "recipe": recipe, "solve": kw})
    if oc == "table":
        tol = max(2e-4, 50 * max(kw["vtol"], kw["itol"]))
        fs = oracle.check_table(m, df, s, tol=tol)
        for f in fs:
            if set(f["props"]) & {"C03"} or f["key"] in ("row.vout", "row.iin", "row.vin", "row.iout", "row.notfinite", "row.polarity", "row.unstable"):
                f = dict(f); f["recipe"] = recipe; f["solve"] = kw; f["props"] = list(set(f["props"]) | {"C03"})
                out["failures"].append(f)
    elif not over and oc != "table" and kw["maxiter"] >= 10000 and kw["vtol"] <= 1e-4:
        out["failures"].append({"key": "solve.modest-not-found", "text": "a modest-drop system did not converge with maxiter=10000: %s" % oc, "props": ["C03"], "recipe": recipe, "solve": kw})
    if idx < 3:
        out["sample"] = {"system": gen.short(recipe)[:8], "settings": kw, "verdict": "%s after %d sweeps" % (oc, sweeps[0])}
    return out


def convergence_family(seed, n):
    res = summarize(run_pool(convergence_case, [(seed, i) for i in range(n)]),
                    "half over-loaded chains (loads behind large series resistance), half modest-drop random trees; vtol/itol in {1e-9..1e-2}, maxiter in {0,1,2,5,50,10000}; distinct by recipe+settings hash; all count as non-trivial",
                    "chains <= 5 components, trees <= 7 components")
    return res


# ============================================================================================================ C05
INPUT_KINDS = ["live", "zero", "phase-off", "reg-off", "shared", "reg-dropout"]


def mux_recipe(pattern, rs_list, rnd, polarity=1):
    """pattern: tuple of input kinds.  Inputs are separate sources (live / 0 V / phase-inactive), a regulator that is
    inactive in the solved phase, or a second tap of source S0 through an RLoss ('shared')."""
    ops = [{"op": "system", "comp": {"kind": "Source", "name": "S0", "args": {"vo": polarity * 12.0, "rs": 0.0}}, "rail": "R_S0"}]
    inputs, cphase = [], []
    for j, kind in enumerate(pattern):
        if kind in ("live", "zero", "phase-off"):
            nm = "I%d" % j
            vo = 0.0 if kind == "zero" else polarity * rnd.choice([5.0, 9.0, 24.0])
            ops.append({"op": "add_source", "comp": {"kind": "Source", "name": nm, "args": {"vo": vo, "rs": 0.02 if polarity > 0 else 0.0}}, "rail": rnd.choice(["", "R_" + nm])})
            if kind == "phase-off": cphase.append((nm, ["b"]))
            inputs.append(nm)
        elif kind == "reg-off":
            nm = "G%d" % j
            ops.append({"op": "add_comp", "parent": "S0", "comp": {"kind": rnd.choice(["LinReg", "Converter", "PSwitch"]), "name": nm,
                                                                  "args": {"LinReg": {"vo": polarity * 5.0, "iis": 1e-5}, "Converter": {"vo": polarity * 5.0, "eff": 0.9, "iis": 1e-5}, "PSwitch": {"rs": 0.1, "iis": 1e-6}}["LinReg"]}, "rail": "R_" + nm})
            ops[-1]["comp"]["kind"] = "LinReg"
            cphase.append((nm, ["b"])); inputs.append(nm)
        elif kind == "reg-dropout":
            # a regulator that is ON but in full drop-out (its own weak source is below the drop-out voltage): delivers exactly 0 V
            nm = "Q%d" % j
            ops.append({"op": "add_source", "comp": {"kind": "Source", "name": "W%d" % j, "args": {"vo": polarity * 2.0, "rs": 0.0}}, "rail": ""})
            ops.append({"op": "add_comp", "parent": "W%d" % j, "comp": {"kind": "LinReg", "name": nm, "args": {"vo": polarity * 3.0, "vdrop": 2.5, "ig": 1e-5}}, "rail": rnd.choice(["", "R_" + nm])})
            inputs.append(nm)
        else:
            nm = "T%d" % j
            ops.append({"op": "add_comp", "parent": "S0", "comp": {"kind": "RLoss", "name": nm, "args": {"rs": 0.1}}, "rail": ""})
            inputs.append(nm)
    rs = [rnd.choice([0.0, 0.01, 0.05, -0.03]) for _ in inputs] if rs_list else rnd.choice([0.0, 0.02, -0.05])
    ig = rnd.choice([0.0, 1e-4, {"vi": [3.3, 12.0], "io": [0.0, 0.1, 1.0], "ig": [[1e-5, 2e-5, 5e-5], [2e-5, 4e-5, 9e-5]]}])
    ops.append({"op": "add_comp", "parent": inputs if len(inputs) > 1 else rnd.choice([inputs, inputs[0]]), "comp": {"kind": "PMux", "name": "MX", "args": {"rs": rs, "ig": ig, "iis": 2e-6, "rt": 3.0}}, "rail": rnd.choice(["", "R_MX"])})
    ops.append({"op": "add_comp", "parent": "MX", "comp": {"kind": rnd.choice(["ILoad", "PLoad", "RLoad"]), "name": "L0", "args": {}}})
    ops[-1]["comp"]["args"] = {"ILoad": {"ii": 0.05}, "PLoad": {"pwr": 0.2}, "RLoad": {"rs": 200.0}}[ops[-1]["comp"]["kind"]]
    ops.append({"op": "add_comp", "parent": "MX", "comp": {"kind": "LinReg", "name": "D0", "args": {"vo": polarity * 1.8, "ig": 1e-4}}})
    ops.append({"op": "add_comp", "parent": "D0", "comp": {"kind": "ILoad", "name": "L1", "args": {"ii": 0.01}}})
    ops.append({"op": "add_comp", "parent": "S0", "comp": {"kind": "ILoad", "name": "L2", "args": {"ii": 0.02}}})
    ops.append({"op": "set_sys_phases", "phases": {"a": 10.0, "b": 1.0}})
    if rnd.random() < 0.3: cphase.append(("MX", rnd.choice([["a"], ["b"]])))        # the mux itself sleeps in one phase (draws iis from its selected input)
    for nm, conf in cphase:
        ops.append({"op": "set_comp_phases", "name": nm, "conf": conf})
    return {"ops": ops}


def mux_case(args):
    seed, idx, pattern, rs_list, pol = args[:5]
    want = set(args[5]) if len(args) > 5 else {"C05", "C04"}
    rnd = _rnd(seed, idx)
    recipe = mux_recipe(pattern, rs_list, rnd, pol)
    out = {"hash": _hash(recipe), "failures": [], "nontrivial": True, "sample": None, "outcome": None}
    s, _ = gen.build(recipe); m = Model.of(recipe)
    oc, df = _solve_outcome(s, ta=35.0)
    out["outcome"] = oc
    if oc != "table":
        out["failures"].append({"key": "mux.solve", "text": "mux pattern %s: solve() ended with %s" % (pattern, oc), "props": ["C05"], "recipe": recipe}); return out
    for f in oracle.check_table(m, df, s, ta=35.0):
        if set(f["props"]) & want or ("C05" in want and f["key"].startswith("row.")):
            f = dict(f); f["recipe"] = recipe; f["props"] = list(set(f["props"]) | ({"C05"} if "C05" in want else set())); out["failures"].append(f)
    if "C05" not in want:
        return out
    # no other input sees any current from the mux: every non-selected input's Iout excludes the mux
    rows, _ = oracle.rows_by_key(df)
    for ph in m.phases:
        sel = oracle.select_parent(m, m.nodes["MX"], rows, ph)
        muxi = float(rows[("MX", ph)]["Iin (A)"])
        for p in m.nodes["MX"].parents:
            others = sum(float(rows[(c, ph)]["Iin (A)"]) for c in m.children(p) if c != "MX")
            want = others + (muxi if p == sel else 0.0)
            if not oracle.close(float(rows[(p, ph)]["Iout (A)"]), want):
                out["failures"].append({"key": "mux.current", "text": "[%s] input %s of the mux carries Iout %g, expected %g (selected input: %s)" % (ph, p, float(rows[(p, ph)]["Iout (A)"]), want, sel), "props": ["C05"], "recipe": recipe})
        if sel is None and not all(float(rows[(x, ph)][c]) == 0.0 for x in ["MX"] + m.descendants("MX") for c in ("Vout (V)", "Iin (A)", "Power (W)", "Loss (W)")):
            out["failures"].append({"key": "mux.dead", "text": "[%s] no live input but the mux subtree is not dead" % ph, "props": ["C05", "C04"], "recipe": recipe})
    if idx < 3: out["sample"] = {"pattern": list(pattern), "rs_list": rs_list, "polarity": pol, "verdict": "%d failures" % len(out["failures"])}
    return out


def mux_family(seed, tier, props=("C05", "C04")):
    jobs, idx = [], 0
    for n in (1, 2, 3, 4):
        pats = list(itertools.product(INPUT_KINDS, repeat=n))
        if tier == "quick" and n >= 3:
            rnd = random.Random(seed + n); pats = rnd.sample(pats, 60 if n == 3 else 80)
        for pat in pats:
            if sum(1 for k in pat if k == "shared") > 1 and tier == "quick": continue
            for rs_list in (False, True):
                for pol in ((1, -1) if tier != "quick" or idx % 3 == 0 else (1,)):
                    jobs.append((seed, idx, pat, rs_list, pol, tuple(props))); idx += 1
    res = summarize(run_pool(mux_case, jobs),
                    "every live/dead pattern of 1..4 mux inputs over {live source, 0 V source, phase-inactive source, inactive regulator upstream, second tap of the same source, regulator in full drop-out (on, 0 V) on its own source}; the mux itself asleep in one phase now and then (quick: sampled for 3-4 inputs), scalar and per-input rs, both polarities, 2 phases",
                    "1..4 inputs; %s" % ("exhaustive patterns" if tier != "quick" else "exhaustive for 1-2 inputs, sampled for 3-4"))
    res["exhaustive"] = tier != "quick"
    return res


# ============================================================================================================ C06
SHARED = ["Component", "Type", "Vin (V)", "Vout (V)", "Iin (A)", "Iout (A)", "Power (W)", "Loss (W)", "Efficiency (%)", "Warnings"]


def phase_case(args):
    seed, idx = args
    rnd = _rnd(seed, idx)
    recipe = gen.random_system(rnd, max_nodes=7, n_sources=(1, 2), p_mux=0.3, p_phases=1.0, p_limits=0.3, p_rails=0.2)
    out = {"hash": _hash(recipe), "failures": [], "nontrivial": True, "sample": None, "outcome": None}
    s, _ = gen.build(recipe); m = Model.of(recipe)
    oc, df = _solve_outcome(s)
    out["outcome"] = oc
    if oc != "table": return out
    rows, _ = oracle.rows_by_key(df)
    def F(key, text): out["failures"].append({"key": key, "text": text, "props": ["C06"], "recipe": recipe})
    for ph in m.phases:
        oc1, d1 = _solve_outcome(s, phase=ph)
        if oc1 != "table": F("phase.single", "solve(phase=%r) ended with %s although the all-phase solve succeeded" % (ph, oc1)); continue
        r1, _ = oracle.rows_by_key(d1)
        names_all = [k[0] for k in rows if k[1] == ph]
        names_one = [k[0] for k in r1]
        if names_all != names_one: F("phase.rows", "solve(phase=%r) rows %s != rows of that phase %s" % (ph, names_one[:4], names_all[:4]))
        for nm in names_one:
            a, b = r1.get((nm, ph)), rows.get((nm, ph))
            if a is None: F("phase.rows", "solve(phase=%r) returned rows of another phase: %s" % (ph, sorted({k_[1] for k_ in r1})[:3])); break
            if b is None: continue
            for c in SHARED + [c for c in ("Parent", "Rail in", "Domain") if c in df.columns and c in d1.columns]:
                x, y = a[c], b[c]
                same = (x == y) if isinstance(x, str) or isinstance(y, str) else oracle.close(x, y, 1e-9, 1e-12)
                if not same: F("phase.values", "solve(phase=%r): %s.%s = %r but the all-phase table has %r" % (ph, nm, c, x, y)); break
    unknowns = ["no-such-phase"] + [q for ph in m.phases for q in (ph.upper(), ph.capitalize(), ph + " ", " " + ph, ph[:-1]) if q not in m.phases and q != ""]
    for uq in unknowns[:6]:
        try:
            s.solve(phase=uq)
            F("phase.unknown", "unknown phase %r accepted (defined: %s)" % (uq, list(m.phases)))
        except ValueError:
            pass
        except Exception as e:
            F("phase.unknown", "unknown phase %r raised %s instead of ValueError" % (uq, type(e).__name__))
    # components without a phase configuration behave as in a system without phases
    bare = {"ops": [op for op in recipe["ops"] if op["op"] != "set_comp_phases"]}
    nop = {"ops": [op for op in bare["ops"] if op["op"] != "set_sys_phases"]}
    sb, _ = gen.build(bare); sn, _ = gen.build(nop)
    ob, db = _solve_outcome(sb); on, dn = _solve_outcome(sn)
    if ob == "table" and on == "table":
        rb, _ = oracle.rows_by_key(db); rn, _ = oracle.rows_by_key(dn)
        for (nm, ph), r in rb.items():
            if nm == "System average": continue
            q = rn.get((nm, ""))
            if q is None: F("phase.noconf", "row %s missing in the phase-less system" % nm); continue
            for c in SHARED[2:]:
                x, y = r[c], q[c]
                same = (x == y) if isinstance(x, str) or isinstance(y, str) else oracle.close(x, y, 1e-9, 1e-12)
                if not same: F("phase.noconf", "without phase configuration %s.%s in phase %r = %r, phase-less system = %r" % (nm, c, ph, x, y)); break
    elif ob != on:
        F("phase.noconf", "system without component phase configs ends with %s, phase-less system with %s" % (ob, on))
    if idx < 3: out["sample"] = {"system": gen.short(recipe)[:8], "verdict": "%d failures" % len(out["failures"])}
    return out


def phase_family(seed, n):
    return summarize(run_pool(phase_case, [(seed, i) for i in range(n)]),
                     "random phased systems: solve(phase=p) vs rows of p; unknown phase; system without component phase configurations vs phase-less system; distinct by recipe hash",
                     "trees <= 7 components, 2-3 phases")


# ============================================================================================================ C07 / C16
def table_rows(df, cols=None):
    rows, _ = oracle.rows_by_key(df)
    keep = cols or [c for c in df.columns if c not in ("Component", "Phase")]
    # raw values: two equivalent systems are compared with a relative tolerance, never after rounding
    return {k: tuple((float(r[c]) if (r[c] != "" and not isinstance(r[c], str)) else r[c]) for c in keep) for k, r in rows.items()}, keep


def order_case(args):
    seed, idx, props = args
    rnd = _rnd(seed, idx)
    recipe = gen.random_system(rnd, max_nodes=8, n_sources=(2, 3), p_mux=0.6, p_phases=0.4, p_rails=0.3, p_groups=0.3, p_limits=0.2)
    out = {"hash": _hash(recipe), "failures": [], "nontrivial": True, "sample": None, "outcome": None}
    s, _ = gen.build(recipe); m = Model.of(recipe)
    oc, df = _solve_outcome(s, energy=True)
    out["outcome"] = oc
    if oc != "table": return out
    t0, keep = table_rows(df)
    for k in range(3):
        r2 = m.rebuild_recipe(random.Random(seed * 31 + idx * 7 + k))
        s2, _ = gen.build(r2)
        oc2, df2 = _solve_outcome(s2, energy=True)
        if oc2 != "table":
            out["failures"].append({"key": "order.outcome", "text": "same structure built in another order ends with %s" % oc2, "props": props, "recipe": recipe, "recipe2": r2}); continue
        t2, keep2 = table_rows(df2)
        if keep != keep2 or set(t0) != set(t2):
            out["failures"].append({"key": "order.shape", "text": "same structure built in another order gives different rows/columns", "props": props, "recipe": recipe, "recipe2": r2}); continue
        for kk in t0:
            if t0[kk] != t2[kk]:
                d = [(c, a, b) for c, a, b in zip(keep, t0[kk], t2[kk]) if a != b and not (isinstance(a, float) and isinstance(b, float) and oracle.close(a, b, EQ_REL, 1e-9))]
                if d:
                    out["failures"].append({"key": "order.values", "text": "row %s differs between construction orders: %s" % (kk, d[:3]), "props": props, "recipe": recipe, "recipe2": r2}); break
    if idx < 3: out["sample"] = {"system": gen.short(recipe)[:8], "verdict": "3 construction orders compared, %d failures" % len(out["failures"])}
    return out


def order_family(seed, n, props):
    return summarize(run_pool(order_case, [(seed, i, props) for i in range(n)]),
                     "random multi-source systems rebuilt from the reference model in 3 other valid construction orders (sources and siblings shuffled); rows compared by (component, phase)",
                     "trees <= 8 components, 2-3 sources")


# ============================================================================================================ C09
def warn_boundary_case(args):
    seed, idx = args
    rnd = _rnd(seed, idx)
    pol = rnd.choice([1, -1])
    kind = rnd.choice(gen.INNER + gen.LEAF + ["Source"])
    base = {"ops": [{"op": "system", "comp": {"kind": "Source", "name": "S0", "args": {"vo": pol * 12.0, "rs": 0.0 if pol < 0 else 0.05}}}]}
    tgt = "S0"
    if kind != "Source":
        sp = gen.comp_spec(rnd, kind, "X", pol, negsign=False, p_table=0.3)
        if "rt" in sp["args"]: sp["args"]["rt"] = 8.0
        if kind == "LinReg" and "ig" in sp["args"] and rnd.random() < 0.5:
            # the deprecated iq spelling, scalar or table: limits apply to such a regulator like to any other
            ig = sp["args"].pop("ig")
            if not isinstance(ig, dict) and rnd.random() < 0.6: ig = {"vi": [5.0], "io": [0.0, 0.1, 1.0], "ig": [[1e-3, 2e-3, 3e-3]]}
            sp["args"]["iq"] = {("iq" if k_ == "ig" else k_): v_ for k_, v_ in ig.items()} if isinstance(ig, dict) else ig
        base["ops"].append({"op": "add_comp", "parent": "S0", "comp": sp}); tgt = "X"
    if kind not in gen.LEAF:
        base["ops"].append({"op": "add_comp", "parent": tgt, "comp": {"kind": "ILoad", "name": "L", "args": {"ii": 0.05}}})
    out = {"hash": _hash([base, idx]), "failures": [], "nontrivial": True, "sample": None, "outcome": None}
    if rnd.random() < 0.3:
        # an unrelated component was loaded from a file with tight limits earlier in the session: the documented defaults of everyone else stay
        import tempfile, os, toml, sysloss.components as C
        fd, pth = tempfile.mkstemp(suffix=".toml"); os.close(fd)
        try:
            with open(pth, "w") as f: toml.dump({"rloss": {"rs": 0.1}, "limits": {k_: [0.0, 1e-9] for k_ in ("vi", "vo", "ii", "io", "pi", "po", "pl", "tr")}}, f)
            C.RLoss.from_file("other", fname=pth)
        except Exception:
            pass
        finally:
            os.unlink(pth)
    s, _ = gen.build(base); m = Model.of(base)
    oc, df = _solve_outcome(s, ta=30.0); out["outcome"] = oc
    if oc != "table": return out
    rows, _ = oracle.rows_by_key(df)
    r = rows[(tgt, "")]; node = m.nodes[tgt]
    vin, vout, iin, iout, pw, ls = [float(r[c]) for c in ("Vin (V)", "Vout (V)", "Iin (A)", "Iout (A)", "Power (W)", "Loss (W)")]
    tr = float(r["Temp. rise (°C)"]) if "Temp. rise (°C)" in df.columns and r["Temp. rise (°C)"] != "" else 0.0
    tp = float(r["Peak temp. (°C)"]) if "Peak temp. (°C)" in df.columns and r["Peak temp. (°C)"] != "" else 30.0
    from contracts import spec as S
    q = S.quantities(S.FloatOps(), vin, vout, iin, iout, pw, ls, tr, tp)
    keys = node.limit_keys()
    sub = rnd.sample(keys, rnd.randint(1, len(keys)))
    lim, expect = {}, set()
    for k in sub:
        x = q[k]; ax = abs(x) if k != "tp" else x
        mode = rnd.choice(["at-max", "at-min", "above", "below", "inside"])
        if mode == "at-max": lim[k] = [0.0 if k != "tp" else -1e6, x]            # x = max: inside (inclusive)
        elif mode == "at-min": lim[k] = [x, 1e6]
        elif mode == "above":
            if ax == 0: continue
            lim[k] = [0.0 if k != "tp" else -1e6, (ax * 0.99) if k != "tp" else (x - 0.5)]; expect.add(k)
        elif mode == "below":
            lim[k] = [(ax * 1.01 + 1e-6) if k != "tp" else (x + 0.5), 1e6]; expect.add(k)
        else: lim[k] = [(-1.0 if k == "tp" else 0.0) * 1e6 if k == "tp" else 0.0, 1e6]
        if k != "tp" and pol < 0 and rnd.random() < 0.5: lim[k] = [-v for v in lim[k]]        # limits of negative rails given with sign
    r2 = copy.deepcopy(base)
    for op in r2["ops"]:
        if op["comp"]["name"] == tgt: op["comp"]["args"]["limits"] = lim
    s2, _ = gen.build(r2)
    oc2, df2 = _solve_outcome(s2, ta=30.0)
    if oc2 != "table": return out
    rows2, _ = oracle.rows_by_key(df2)
    got = set(str(rows2[(tgt, "")]["Warnings"]).split())
    # at-max / at-min sit on the boundary up to the solver tolerance: only keys strictly outside / inside by 1 % are asserted
    asserted = {k for k in sub if k in expect} | {k for k in sub if lim.get(k) in ([0.0, 1e6], [-1e6, 1e6])}
    wrong = [k for k in asserted if (k in expect) != (k in got)]
    stray = [k for k in got if k not in keys] + [k for k in got if k in keys and k not in sub]       # a key without a configured limit has the documented default [0, 1e6]: never exceeded here
    if wrong or stray:
        out["failures"].append({"key": "warn.boundary", "text": "%s %s limits %s: quantities %s, expected warnings %s, got %s" % (kind, tgt, lim, {k: q[k] for k in sub}, sorted(expect), sorted(got)), "props": ["C09"], "recipe": r2})
    tot = rows2[("System total", "")]["Warnings"]
    anyw = any(rows2[k]["Warnings"] not in ("", "Yes") for k in rows2 if k[0] in m.nodes)
    if (tot == "Yes") != anyw:
        out["failures"].append({"key": "warn.total", "text": "System total warning %r but component warnings present: %s" % (tot, anyw), "props": ["C09"], "recipe": r2})
    if idx < 3: out["sample"] = {"component": kind, "limits": lim, "expected": sorted(expect), "got": sorted(got)}
    return out


def warn_boundary_family(seed, n):
    return summarize(run_pool(warn_boundary_case, [(seed, i) for i in range(n)]),
                     "probe Source->component->ILoad, both polarities; limits for a random subset of the kind's keys placed 1 % inside / outside the observed quantity or exactly on it (boundary not asserted); signed limits on negative rails",
                     "13 component forms x random key subsets")


# ============================================================================================================ C08
def rail_case(args):
    seed, idx = args
    rnd = _rnd(seed, idx)
    recipe = gen.random_system(rnd, max_nodes=8, n_sources=(1, 3), p_mux=0.5, p_phases=0.5, p_rails=rnd.choice([0.0, 0.5, 0.9]), p_limits=0.5, p_byrail=0.4, p_dead_source=0.15)
    out = {"hash": _hash(recipe), "failures": [], "nontrivial": True, "sample": None, "outcome": None}
    s, _ = gen.build(recipe); m = Model.of(recipe)
    kw = dict(ta=30.0)
    oc, df = _solve_outcome(s, **kw); out["outcome"] = oc
    if oc != "table": return out
    def F(key, text): out["failures"].append({"key": key, "text": text, "props": ["C08"], "recipe": recipe})
    try:
        rr = s.rail_rep(**kw)
    except Exception as e:
        F("rail.exception", "rail_rep() raised %s: %s" % (type(e).__name__, str(e)[:80])); return out
    has_rails = any(n.rail for n in m.nodes.values())
    if not has_rails:
        if rr is None or rr.to_string() != df.to_string(): F("rail.norails", "no rails defined: rail_rep() differs from solve()")
        return out
    if rr is None: F("rail.none", "rails are defined but rail_rep() returned None"); return out
    rows, _ = oracle.rows_by_key(df)
    phases = list(m.phases) if m.phases else [""]
    got = {}
    for r in rr.to_dict("records"):
        k = (r["Rail"], r.get("Phase", ""))
        if k in got: F("rail.duplicate", "rail %s listed twice" % (k,))
        got[k] = r
    owner = {n.rail: n.name for n in m.nodes.values() if n.rail}
    for ph in phases:
        fed = {}
        for name, node in m.nodes.items():
            if not node.parents: continue
            sp = oracle.select_parent(m, node, rows, ph) if len(node.parents) > 1 else node.parents[0]
            if sp is None: sp = node.parents[0]
            r_ = m.nodes[sp].rail
            if r_: fed.setdefault(r_, []).append(name)
        want = set(fed); have = {k[0] for k in got if k[1] == ph}
        if want != have: F("rail.set", "[%s] rails listed %s, rails feeding at least one component %s" % (ph, sorted(have), sorted(want))); continue
        for r_, members in fed.items():
            g = got[(r_, ph)]
            vo = float(rows[(owner[r_], ph)]["Vout (V)"])
            ii = sum(float(rows[(c, ph)]["Iin (A)"]) for c in members); pw = sum(float(rows[(c, ph)]["Power (W)"]) for c in members); ls = sum(float(rows[(c, ph)]["Loss (W)"]) for c in members)
            if not oracle.close(g["Voltage (V)"], vo): F("rail.voltage", "[%s] rail %s voltage %g != output voltage %g of its owner %s" % (ph, r_, g["Voltage (V)"], vo, owner[r_]))
            if not oracle.close(g["Current (A)"], ii) or not oracle.close(g["Power (W)"], pw) or not oracle.close(g["Loss (W)"], ls):
                F("rail.sums", "[%s] rail %s current/power/loss %g/%g/%g != sums over the components it feeds %s: %g/%g/%g" % (ph, r_, g["Current (A)"], g["Power (W)"], g["Loss (W)"], members, ii, pw, ls))
            toks = set(); [toks.update(str(rows[(c, ph)]["Warnings"]).split()) for c in members]
            gt = set(str(g["Warnings"]).replace(",", " ").split())
            if toks != gt: F("rail.warnings", "[%s] rail %s warnings %s != union of its consumers' warnings %s" % (ph, r_, sorted(gt), sorted(toks)))
    if idx < 3: out["sample"] = {"system": gen.short(recipe)[:8], "rails": sorted(owner), "verdict": "%d failures" % len(out["failures"])}
    return out


def rail_family(seed, n):
    return summarize(run_pool(rail_case, [(seed, i) for i in range(n)]),
                     "random systems with rails on a random subset of non-load components (parents addressed by name or by rail), PMux and phases; the rail report is recomputed from the solve() table and the reference model (supply of each component = its selected input); distinct by recipe hash",
                     "trees <= 8 components, 1-3 sources")


# ============================================================================================================ C12
def _frame_key(df, cols_drop=()):
    if df is None: return None
    recs = df.to_dict("records")
    def norm(v, k=None):
        if k == "Warnings" and isinstance(v, str): return " ".join(sorted(v.replace(",", " ").split()))      # the union of warnings is a set
        if isinstance(v, float): return round(v, 9)
        if hasattr(v, "item"):
            try: return round(float(v), 9)
            except Exception: return str(v)
        return v if isinstance(v, (str, int, bool)) or v is None else str(v)
    return sorted(json.dumps({k: norm(v, k) for k, v in r.items() if k not in cols_drop}, sort_keys=True, default=str) for r in recs)


EQ_REL = 5e-5      # two systems with the same structure converge to fixed points that agree within a few solver tolerances


def frames_differ(a, b, keys):
    """compare two report tables row by row (rows matched by `keys`), numbers within EQ_REL, warnings as token sets"""
    if a is None or b is None: return None if (a is None and b is None) else "one report is None"
    if list(a.columns) != list(b.columns): return "columns differ: %s vs %s" % (list(a.columns), list(b.columns))
    ra = {tuple(r[k] for k in keys if k in r): r for r in a.to_dict("records")}; rb = {tuple(r[k] for k in keys if k in r): r for r in b.to_dict("records")}
    if set(ra) != set(rb): return "rows differ: %s" % sorted(set(ra) ^ set(rb))[:3]
    for k, r in ra.items():
        q = rb[k]
        for c in r:
            x, y = r[c], q[c]
            if c == "Warnings":
                if set(str(x).replace(",", " ").split()) != set(str(y).replace(",", " ").split()): return "row %s: warnings %r vs %r" % (k, x, y)
            elif isinstance(x, str) or isinstance(y, str) or x is None or y is None or isinstance(x, (list, bool)):
                if x != y: return "row %s column %s: %r vs %r" % (k, c, x, y)
            elif not oracle.close(x, y, EQ_REL, 1e-9): return "row %s column %s: %r vs %r" % (k, c, x, y)
    return None


def roundtrip_case(args):
    import tempfile, os
    seed, idx = args
    rnd = _rnd(seed, idx)
    if idx % 3 == 2:
        # a system that went through an edit history first (PMux input order after deletions, renames, ...)
        from . import hist
        ops = copy.deepcopy(rnd.choice(hist.BASES)); shadow = Model.of({"ops": ops}); s_sh, _ = gen.build({"ops": ops})
        for i in range(6):
            op = hist.random_op(rnd, shadow, 200 + i)
            if op["op"] == "set_comp_phases" and not isinstance(op["conf"], (dict, list)): continue
            try:
                gen.apply_op(s_sh, copy.deepcopy(op)); shadow.apply(op); ops.append(op)
            except Exception:
                pass
        if rnd.random() < 0.2:
            # node slot 0 is freed and re-used by the mux (rustworkx re-uses freed indices): sentinels such as 'index > 0' show here
            so = hist.spec_of
            ops = [{"op": "system", "comp": so("Source", "S0", rnd), "group": "", "rail": ""}, {"op": "add_source", "comp": so("Source", "S1", rnd), "group": "", "rail": "R1"},
                   {"op": "add_source", "comp": so("Source", "S2", rnd), "group": "", "rail": ""}, {"op": "add_comp", "parent": "S0", "comp": so("ILoad", "L9", rnd), "group": "", "rail": ""},
                   {"op": "del_comp", "name": "S0", "del_childs": True},
                   {"op": "add_comp", "parent": rnd.choice([["S1", "S2"], ["S2", "R1"], ["S2"]]), "comp": so("PMux", "MX"), "group": "g", "rail": "RM"},
                   {"op": "add_comp", "parent": "MX", "comp": so("Converter", "C5", rnd), "group": "", "rail": ""}, {"op": "add_comp", "parent": "C5", "comp": so("PLoad", "L5", rnd), "group": "", "rail": ""}]
        recipe = {"ops": ops, "probes": [rnd.random() < 0.5 for _ in ops]}
    else:
        recipe = gen.random_system(rnd, max_nodes=8, n_sources=(1, 3), p_mux=0.5, p_table=0.4, p_limits=0.6, p_phases=0.5, p_rails=0.4, p_groups=0.4, p_byrail=0.3)
        if rnd.random() < 0.06:
            # quantities beyond the documented default limits (1e6): components without a limits argument warn, before and after the round trip
            recipe = {"ops": [{"op": "system", "comp": {"kind": "Source", "name": "HV", "args": {"vo": 1500.0, "rs": 0.001}}, "group": "", "rail": ""},
                              {"op": "add_comp", "parent": "HV", "comp": {"kind": "Converter", "name": "DC", "args": {"vo": 800.0, "eff": 0.98}}, "group": "", "rail": ""},
                              {"op": "add_comp", "parent": "DC", "comp": {"kind": "PLoad", "name": "M", "args": {"pwr": rnd.choice([1.2e6, 2.5e6])}}, "group": "", "rail": ""},
                              {"op": "add_comp", "parent": "HV", "comp": {"kind": "RLoad", "name": "R", "args": {"rs": 1.0, "limits": {"ii": [0.0, 10.0]}}}, "group": "", "rail": ""}]}
        if rnd.random() < 0.2:
            # pico/nano-ampere parameters with many digits: the file keeps them exactly
            for op in recipe["ops"]:
                if "comp" not in op: continue
                for k_ in ("iis", "iq", "ig", "pwrs"):
                    v_ = op["comp"]["args"].get(k_)
                    if isinstance(v_, float) and v_ != 0.0: op["comp"]["args"][k_] = v_ * 1.23456789e-6
        # limits with only a lower / only an upper bound, applicable and not
        for op in recipe["ops"]:
            if "comp" in op and rnd.random() < 0.3:
                k = rnd.choice(["vi", "vo", "io", "ii", "pl", "tp", "vd"])
                op["comp"]["args"].setdefault("limits", {})[k] = rnd.choice([[rnd.choice([0.5, 2.9]), 1e6], [0.0, rnd.choice([0.01, 4.0])], [-20.0, 1e6] if k == "tp" else [0.001, 1e6]])
    out = {"hash": _hash(recipe), "failures": [], "nontrivial": True, "sample": None, "outcome": None}
    from sysloss.system import System
    try:
        if recipe.get("probes"):
            # reports between the edits (they fill whatever caches the analysis keeps); the last edit may be followed directly by save()
            s = None
            for op, probe in zip(recipe["ops"], recipe["probes"]):
                try: s = gen.apply_op(s, copy.deepcopy(op))
                except Exception:
                    if s is None: raise
                if probe:
                    try: rnd.choice([s.solve, s.params, s.phases])()
                    except Exception: pass
        else:
            s, _ = gen.build(recipe, strict=False)
    except Exception as e:
        out["failures"].append({"key": "gen.build", "text": str(e), "props": [], "fault": True}); return out
    def F(key, text): out["failures"].append({"key": key, "text": text, "props": ["C12"], "recipe": recipe})
    fd, p = tempfile.mkstemp(suffix=".json"); os.close(fd)
    try:
        try:
            s.save(p)
        except Exception as e:
            F("save.exception", "save() raised %s: %s" % (type(e).__name__, str(e)[:80])); return out
        try:
            s2 = System.from_file(p)
        except Exception as e:
            F("load.exception", "from_file() raised %s: %s" % (type(e).__name__, str(e)[:80])); return out
        m = Model.of(recipe, [(i, None) for i in range(len(recipe["ops"]))]) if idx % 3 != 2 else None
        oc1, d1 = _solve_outcome(s, ta=30.0, energy=True); oc2, d2 = _solve_outcome(s2, ta=30.0, energy=True)
        out["outcome"] = oc1
        if oc1 != oc2: F("rt.outcome", "solve(): original %s, reloaded %s" % (oc1, oc2)); return out
        if oc1 == "table":
            d = frames_differ(d1, d2, ["Component", "Phase"])
            if d: F("rt.solve", "solve() differs after the round trip: %s" % d)
            try:
                d = frames_differ(s.rail_rep(ta=30.0), s2.rail_rep(ta=30.0), ["Rail", "Phase"] if any(n_ for n_ in s._g.attrs["rails"].values()) else ["Component", "Phase"])
                if d: F("rt.rail_rep", "rail_rep() differs after the round trip: %s" % d)
            except Exception as e:
                F("rt.rail_rep", "rail_rep() raised %s" % type(e).__name__)
        # params(limits=True): applicable limits only (the statement says 'applicable limits')
        p1, p2 = s.params(limits=True), s2.params(limits=True)
        app = {}
        from contracts import spec as S
        for r in p1.to_dict("records"):
            pass
        def params_key(sys_, df):
            out_ = []
            for r in df.to_dict("records"):
                comp = sys_._g[sys_._g.attrs["nodes"][r["Component"]]]
                keys = comp._get_limits()
                rr = {k: v for k, v in r.items() if not (" limit " in k and k.split(" ")[0] not in keys)}
                out_.append(json.dumps({k: (round(v, 12) if isinstance(v, float) else v) for k, v in rr.items()}, sort_keys=True, default=str))
            return sorted(out_)
        if params_key(s, p1) != params_key(s2, p2):
            a, b = params_key(s, p1), params_key(s2, p2)
            d = [x for x in a if x not in b][:1] + [x for x in b if x not in a][:1]
            F("rt.params", "params(limits=True) differs after the round trip: %s" % d)
        if _frame_key(s.phases()) != _frame_key(s2.phases()): F("rt.phases", "phases() differs after the round trip")
        # structure: same parents, PMux inputs in the same priority order, groups, rails, phase configuration
        def struct(sys_):
            g = sys_._g; par = sys_._get_parents(); o = {}
            for i in g.node_indices():
                nm = g[i]._params["name"]
                o[nm] = ([] if isinstance(par[i], int) or (hasattr(par[i], "shape") and par[i].shape == ()) else [g[j]._params["name"] for j in par[i]], g.attrs["groups"][nm], g.attrs["rails"][nm],
                         json.dumps(g.attrs["phase_conf"][nm], sort_keys=True), type(g[i]).__name__, json.dumps(g[i]._params, sort_keys=True, default=str))
            return o, json.dumps(g.attrs["phases"], sort_keys=True)
        try:
            if struct(s) != struct(s2):
                a, b = struct(s)[0], struct(s2)[0]
                d = [(k, a.get(k), b.get(k)) for k in set(a) | set(b) if a.get(k) != b.get(k)][:2]
                F("rt.structure", "structure differs after the round trip: %s" % (d,))
        except Exception as e:
            F("rt.structure", "structure comparison raised %s" % type(e).__name__)
        # a file written by a newer version is refused
        import sysloss
        cur = [int(x) for x in re.findall(r"[0-9]+", sysloss.__version__)[:3]] + [0, 0, 0]
        doc0 = json.load(open(p))
        from packaging import version as _pv
        base = "%d.%d.%d" % (cur[0], cur[1], cur[2]); nxt = "%d.%d.%d" % (cur[0], cur[1], cur[2] + 1)
        # PEP 440 forms that are newer without a higher release number (post-releases, local versions, epochs) and pre-releases of the next version;
        # the order itself is packaging.version's (trusted)
        cands = ["99.0.0", nxt, "%d.%d.0" % (cur[0], cur[1] + 1), "%d.0.0" % (cur[0] + 1), base + ".post1", base + "+vendor.2", base + ".post2.dev1", nxt + "rc1", nxt + ".dev3", "1!0.0.1"]
        for newer in [c_ for c_ in cands if _pv.parse(c_) > _pv.parse(sysloss.__version__)]:
            doc = copy.deepcopy(doc0); doc["system"]["version"] = newer; json.dump(doc, open(p, "w"))
            try:
                System.from_file(p); F("rt.version", "a file written by the newer version %s (installed %s) was accepted" % (newer, sysloss.__version__))
            except ValueError:
                pass
            except Exception as e:
                F("rt.version", "a newer file raised %s instead of ValueError" % type(e).__name__)
    finally:
        try: os.unlink(p)
        except OSError: pass
    if idx < 3: out["sample"] = {"system": gen.short(recipe)[:8], "verdict": "%d failures" % len(out["failures"])}
    return out


def roundtrip_family(seed, n):
    return summarize(run_pool(roundtrip_case, [(seed, i) for i in range(n)]),
                     "two thirds random systems (all kinds, scalar/1-D/2-D parameters, limits incl. one-sided ones, groups, rails, phases, PMux), one third systems reached through an edit history; save -> from_file; solve, rail_rep, params(limits=True) (applicable limits), phases, structure compared; newer-version file refused",
                     "trees <= 8 components, histories of 6 edits")


# ============================================================================================================ C11
def _tbl(key, vals, vi=(3.3, 5.0), io=(0.1, 0.5, 1.0)):
    return {"vi": list(vi), "io": list(io), key: vals}


def ctor_rejections():
    """(kind, args, why) that must be refused with ValueError"""
    R = []
    for e in (0.0, -0.5, 1.0001, 2.0): R.append(("Converter", {"vo": 5.0, "eff": e}, "efficiency %g" % e))
    for bad in ([[0.8, 0.9, 0.0], [0.8, 0.9, 0.95]], [[0.8, 0.9, 1.2], [0.8, 0.9, 0.95]], [[0.8, -1.25, 0.9], [0.8, 0.9, 0.95]], [[0.8, -0.5, 0.9], [0.8, 0.9, 0.95]],
                [[0.8, 0.9, 0.95], [0.8, 1.25, 0.9]], [[0.8, 0.9, 0.95], [0.0, 0.8, 0.9]], [[0.8, 0.9, 0.95], [0.8, 0.9, -0.1]]):
        R.append(("Converter", {"vo": 5.0, "eff": _tbl("eff", bad)}, "tabulated efficiency outside (0,1]: %s" % bad[0]))
    R.append(("Converter", {"vo": 5.0, "eff": {"vi": [3.3], "io": [0.1, 0.5, 1.0], "eff": [[0.8, 1.5, 0.9]]}}, "1-D efficiency table > 1"))
    R.append(("Converter", {"vo": 5.0, "eff": {"vi": [3.3], "io": [0.1, 0.5, 1.0], "eff": [[0.8, -1.5, 0.9]]}}, "1-D efficiency table with negative entry of magnitude > 1"))
    for vd, vo in ((3.0, 2.5), (2.5, 2.5), (-3.0, 2.5), (1.0, -0.5)): R.append(("LinReg", {"vo": vo, "vdrop": vd}, "dropout %g >= |vo| %g" % (vd, vo)))
    R.append(("RLoad", {"rs": 0.0}, "zero load resistance")); R.append(("RLoad", {"rs": -0.0}, "zero load resistance"))
    for K, key, extra in (("Converter", "eff", {"vo": 5.0}), ("VLoss", "vdrop", {}), ("LinReg", "ig", {"vo": 5.0}), ("PSwitch", "ig", {}), ("PMux", "ig", {}), ("Rectifier", "vdrop", {}), ("Rectifier", "ig", {})):
        good = [[0.1, 0.2, 0.3], [0.2, 0.3, 0.4]]
        R.append((K, dict(extra, **{key: {"vi": [3.3, 5.0], "io": [0.1, 0.5, 1.0]}}), "table without %s" % key))
        R.append((K, dict(extra, **{key: {"io": [0.1, 0.5, 1.0], key: good}}), "table without vi"))
        R.append((K, dict(extra, **{key: {"vi": [3.3, 5.0], key: good}}), "table without io"))
        R.append((K, dict(extra, **{key: _tbl(key, good, io=(0.1, 0.5, 0.5))}), "io not strictly increasing"))
        R.append((K, dict(extra, **{key: _tbl(key, good, io=(0.5, 0.1, 1.0))}), "io not monotonic"))
        R.append((K, dict(extra, **{key: _tbl(key, [[0.1, 0.2, 0.3]])}), "rows do not match vi"))
        R.append((K, dict(extra, **{key: _tbl(key, [[0.1, 0.2], [0.2, 0.3]])}), "columns do not match io"))
        # same number of entries as len(vi)*len(io), wrong shape
        R.append((K, dict(extra, **{key: _tbl(key, [[0.1, 0.2], [0.2, 0.3], [0.3, 0.4]])}), "transposed table (3x2 for 2 vi rows x 3 io columns)"))
        R.append((K, dict(extra, **{key: _tbl(key, [[0.1, 0.2, 0.3, 0.2, 0.3, 0.4]])}), "2-D table given as one flat row"))
        R.append((K, dict(extra, **{key: {"vi": [3.3], "io": [0.1, 0.5, 1.0], key: [[0.1], [0.2], [0.3]]}}), "1-D table given as a column"))
    for K, extra in (("LinReg", {"vo": 5.0}), ("PSwitch", {}), ("PMux", {}), ("Rectifier", {})):
        R.append((K, dict(extra, ig=_tbl("ig", [[0.1, -0.2, 0.3], [0.2, 0.3, 0.4]])), "negative tabulated ground current"))
    for K, good in (("Source", {"vo": 5.0}), ("PLoad", {"pwr": 1.0}), ("ILoad", {"ii": 1.0}), ("RLoad", {"rs": 1.0}), ("RLoss", {"rs": 1.0}), ("VLoss", {"vdrop": 1.0}), ("Converter", {"vo": 5.0, "eff": 0.8}),
                    ("LinReg", {"vo": 5.0}), ("PSwitch", {}), ("PMux", {}), ("Rectifier", {})):
        for lim in ({"vi": 5.0}, {"vo": [1.0]}, {"ii": [0.0, "x"]}, {"tp": [0, 1, 2]}, {"pl": (0, 1)}):
            R.append((K, dict(good, limits=lim), "malformed limits %s" % lim))
    for K in ("PMux", "Rectifier"):
        R.append((K, {"rs": [0.1, "a"]}, "non-numeric resistance list")); R.append((K, {"rs": [None, 0.1]}, "non-numeric resistance list"))
    R.append(("Rectifier", {"rs": "0.1"}, "non-numeric resistance"))
    return R


def ctor_case(args):
    seed, idx = args
    rnd = _rnd(seed, idx)
    out = {"hash": "ctor%d" % idx, "failures": [], "nontrivial": True, "sample": None, "outcome": "ctor"}
    def F(key, text, **kw): out["failures"].append(dict({"key": key, "text": text, "props": ["C11"]}, **kw))
    R = ctor_rejections()
    if idx < len(R):
        K, a, why = R[idx]
        out["hash"] = _hash([K, a])
        try:
            gen.make_comp({"kind": K, "name": "X", "args": a})
            F("ctor.accepted", "%s(%s) accepted although %s" % (K, {k: ("table" if isinstance(v, dict) and k != "limits" else v) for k, v in a.items()}, why), ctor=[K, a])
        except ValueError:
            pass
        except Exception as e:
            F("ctor.exctype", "%s rejected (%s) with %s instead of ValueError" % (K, why, type(e).__name__), ctor=[K, a])
        if idx < 3: out["sample"] = {"constructor": K, "why rejected": why}
        return out
    # sign normalisation: a component given with negative signs behaves exactly like its positive twin in a solved system
    kind = rnd.choice(gen.INNER + gen.LEAF + ["PMux", "Source"])
    sp = gen.comp_spec(rnd, kind, "X", 1, p_table=0.5, negsign=False)
    neg = copy.deepcopy(sp)
    for k, v in neg["args"].items():
        if k in ("rs", "rt", "pwr", "pwrs", "ii", "iis", "iq", "vdrop", "ig") and isinstance(v, (int, float)) and not isinstance(v, bool) and rnd.random() < 0.7: neg["args"][k] = -v
        elif isinstance(v, dict) and k in ("vdrop",) and rnd.random() < 0.5: neg["args"][k] = dict(v, **{k: [[-x for x in row] for row in v[k]]})
        elif isinstance(v, dict) and k in ("ig", "vdrop", "eff") and rnd.random() < 0.5: neg["args"][k] = dict(v, io=[x for x in v["io"]], vi=[-x for x in v["vi"]])
    if kind == "PMux" and rnd.random() < 0.5: sp["args"]["rs"] = [0.02, 0.05]; neg["args"]["rs"] = [-0.02, 0.05]
    def mk(spec):
        ops = [{"op": "system", "comp": {"kind": "Source", "name": "S0", "args": {"vo": 12.0, "rs": 0.02}}}]
        if kind == "Source": ops = [{"op": "system", "comp": dict(spec, name="S0")}]; tgt = "S0"
        elif kind == "PMux":
            ops.append({"op": "add_source", "comp": {"kind": "Source", "name": "S1", "args": {"vo": 0.0}}})
            ops.append({"op": "add_comp", "parent": ["S1", "S0"], "comp": spec}); tgt = "X"
        else:
            ops.append({"op": "add_comp", "parent": "S0", "comp": spec}); tgt = "X"
        if kind not in gen.LEAF: ops.append({"op": "add_comp", "parent": tgt, "comp": {"kind": "ILoad", "name": "L", "args": {"ii": 0.25, "rt": 4.0}}})
        return {"ops": ops}
    out["hash"] = _hash([sp, neg])
    try:
        s1, _ = gen.build(mk(sp)); s2, _ = gen.build(mk(neg))
    except Exception as e:
        F("ctor.sign.reject", "%s with negative signs %s was rejected: %s" % (kind, neg["args"], e), recipe=mk(neg)); return out
    o1, d1 = _solve_outcome(s1, ta=30.0); o2, d2 = _solve_outcome(s2, ta=30.0)
    if o1 != o2: F("ctor.sign.outcome", "%s: positive parameters -> %s, negative-sign parameters -> %s" % (kind, o1, o2), recipe=mk(neg))
    elif o1 == "table":
        d = frames_differ(d1, d2, ["Component"])
        if d: F("ctor.sign.values", "%s given with negative signs %s behaves differently: %s" % (kind, {k: v for k, v in neg["args"].items() if not isinstance(v, dict)}, d), recipe=mk(neg))
        m = Model.of(mk(neg))
        for f in oracle.check_table(m, d2, s2, ta=30.0):
            if set(f["props"]) & {"C11", "C02", "C03"} and f["key"] in ("row.lossrange", "row.eff", "row.polarity", "row.vout", "row.accounting"):
                F("ctor.physical:" + f["key"], "accepted component shows unphysical behaviour: " + f["text"], recipe=mk(neg))
    return out


def ctor_family(seed, n):
    nrej = len(ctor_rejections())
    res = summarize(run_pool(ctor_case, [(seed, i) for i in range(nrej + n)]),
                    "%d unphysical / malformed constructor calls that must raise ValueError (all 11 kinds: efficiency, dropout, zero load resistance, malformed / mismatched / non-monotonic tables, negative tabulated ig, malformed limits, non-numeric rs lists) + seeded sign-normalisation twins (scalar, list and table forms) compared in a solved probe system" % nrej,
                    "%d rejections (exhaustive list) + %d random twins" % (nrej, n))
    return res


# ============================================================================================================ C10
TABLE_FORMS = [("Converter", "eff", {"vo": 3.3}, (0.55, 1.0)), ("VLoss", "vdrop", {}, (0.0, 0.4)), ("LinReg", "ig", {"vo": 2.5}, (0.0, 0.01)), ("PSwitch", "ig", {}, (0.0, 0.01)),
               ("PMux", "ig", {}, (0.0, 0.01)), ("RectD", "vdrop", {}, (0.05, 0.4)), ("RectM", "ig", {}, (0.0, 0.01))]


def interp_case(args):
    seed, idx = args
    rnd = _rnd(seed, idx)
    kind, key, extra, (lo, hi) = TABLE_FORMS[idx % len(TABLE_FORMS)]
    ni, nv = rnd.randint(2, 5), rnd.choice([1, 1, 2, 3, 4])
    io = sorted(rnd.sample([0.0, 0.001, 0.005, 0.02, 0.1, 0.3, 0.8, 1.5, 3.0], ni))
    vi = sorted(rnd.sample([1.8, 3.3, 5.0, 9.0, 12.0, 24.0, 48.0], nv))
    if rnd.random() < 0.3: vi = vi[::-1]
    const = rnd.random() < 0.2
    cval = round(rnd.uniform(lo, hi), 4)
    tb = [[(cval if const else round(rnd.uniform(lo, hi), 5)) for _ in io] for _ in vi]
    form = rnd.random()
    if not const and form < 0.15: tb = [[round(rnd.uniform(lo, hi), 5)] * ni for _ in vi]             # rows flat over io, differing between rows
    elif not const and form < 0.3:
        col = [round(rnd.uniform(lo, hi), 5) for _ in io]; tb = [list(col) for _ in vi]                  # columns flat over vi
    neg_axis = rnd.random() < 0.2
    tbl = {"vi": [(-v if neg_axis else v) for v in vi], "io": io, key: tb}
    if rnd.random() < 0.2: tbl = dict(tbl, io=[-x for x in io[::-1]], **{key: [r[::-1] for r in tb]})      # current axis written with negative values (strictly increasing): same table by magnitude
    form_ = rnd.random()
    if form_ < 0.3:
        # the same table handed over in other legal container / number forms: tuples, numpy arrays, integer axis values
        import numpy as np
        conv = rnd.choice([tuple, np.array, lambda x: np.array(x, dtype=float)])
        tbl = dict(tbl)
        which = rnd.sample(["vi", "io", key], rnd.randint(1, 3))
        if "vi" in which: tbl["vi"] = conv(tbl["vi"])
        if "io" in which: tbl["io"] = conv(tbl["io"]) if (conv is tuple or nv == 1) else tuple(tbl["io"])      # (a numpy io axis of a 2-D table is refused by the constructor: the flattening repeats the list)
        if key in which: tbl[key] = np.array(tbl[key]) if conv is not tuple else tuple(tuple(r_) for r_ in tbl[key])
    elif form_ < 0.45 and not neg_axis:
        # integer-valued axes written as python ints (as a JSON / TOML file would give them)
        io_i = sorted(rnd.sample([0, 1, 2, 3, 5, 8], ni)); vi_i = sorted(rnd.sample([2, 3, 5, 9, 12, 24, 48], nv))
        if vi != sorted(vi): vi_i = vi_i[::-1]
        io[:] = io_i; vi[:] = vi_i
        tbl = {"vi": list(vi_i), "io": list(io_i), key: tb}
    spec = {"kind": kind, "name": "X", "args": dict(extra, **{key: tbl})}
    out = {"hash": _hash([idx, repr(spec)]), "failures": [], "nontrivial": True, "sample": None, "outcome": "interp"}
    def F(k, text): out["failures"].append({"key": k, "text": text, "props": ["C10"], "table": tbl, "component": kind})
    try:
        comp = gen.make_comp(spec)
    except Exception as e:
        F("interp.reject", "well-conditioned %dx%d table rejected: %s" % (nv, ni, e)); return out
    f = lambda x, y: float(comp._ipr._interp(x, y))
    order = sorted(range(nv), key=lambda j: vi[j]); vs = [vi[j] for j in order]; zs = [tb[j] for j in order]
    import math
    # on the grid
    for a, v in enumerate(vs):
        for b, i_ in enumerate(io):
            got = f(i_, v)
            if math.isnan(got) or not oracle.close(got, zs[a][b], 1e-9, 1e-12): F("interp.grid", "value at grid point (io=%g, vi=%g) is %r, tabulated %r" % (i_, v, got, zs[a][b]))
    # along grid lines: linear in io at a tabulated vi (and for 1-D tables at any vi)
    for _ in range(6):
        a = rnd.randrange(nv); x = rnd.uniform(io[0], io[-1])
        want = oracle.interp_1d(io, zs[a], x)
        got = f(x, vs[a] if nv > 1 else rnd.choice([0.0, 3.3, 100.0]))
        if math.isnan(got) or not oracle.close(got, want, 1e-7, 1e-10): F("interp.line", "along vi=%g at io=%g: %r, linear interpolation gives %r" % (vs[a], x, got, want))
    if nv > 1:
        for _ in range(6):
            b = rnd.randrange(ni); y = rnd.uniform(vs[0], vs[-1])
            want = oracle.interp_1d(vs, [zs[a][b] for a in range(nv)], y)
            got = f(io[b], y)
            if math.isnan(got) or not oracle.close(got, want, 1e-7, 1e-10): F("interp.line", "along io=%g at vi=%g: %r, linear interpolation gives %r" % (io[b], y, got, want))
        # inside a cell: within the range of its corner values
        for _ in range(8):
            x, y = rnd.uniform(io[0], io[-1]), rnd.uniform(vs[0], vs[-1])
            lo_, hi_ = oracle.cell_range_2d({"io": io, "vi": vs, key: zs}, key, x, y)
            got = f(x, y)
            if math.isnan(got) or got < lo_ - 1e-9 or got > hi_ + 1e-9: F("interp.cell", "value %r at (io=%g, vi=%g) outside the corner range [%g, %g] of its cell" % (got, x, y, lo_, hi_))
    # another component with a different table of the same shape, queried alternately at the same points: tables are independent
    if nv > 1:
        tb2 = [[round(rnd.uniform(lo, hi), 5) for _ in io] for _ in vi]
        try:
            comp2 = gen.make_comp({"kind": kind, "name": "Y", "args": dict(extra, **{key: {"vi": vi, "io": io, key: tb2}})})
            o2 = sorted(range(nv), key=lambda j: vi[j]); z2 = [tb2[j] for j in o2]
            for a in range(nv):
                for b in range(ni):
                    g1 = f(io[b], vs[a]); g2 = float(comp2._ipr._interp(io[b], vs[a])); g1b = f(io[b], vs[a])
                    if not (oracle.close(g1, zs[a][b], 1e-9, 1e-12) and oracle.close(g2, z2[a][b], 1e-9, 1e-12) and oracle.close(g1b, zs[a][b], 1e-9, 1e-12)):
                        F("interp.independent", "two components with different tables queried at the same point (io=%g, vi=%g): %r / %r, tabulated %r / %r" % (io[b], vs[a], g1, g2, zs[a][b], z2[a][b]))
        except ValueError:
            pass
    # outside: clamped to the nearest edge value, never NaN
    for _ in range(8):
        x = rnd.choice([io[0] * 0.5, io[-1] * 2 + 1.0, rnd.uniform(io[0], io[-1])]); y = rnd.choice([vs[0] * 0.5, vs[-1] * 3, rnd.uniform(vs[0], vs[-1])])
        cx, cy = min(max(x, io[0]), io[-1]), min(max(y, vs[0]), vs[-1])
        got, want = f(x, y), f(cx, cy)
        if math.isnan(got) or not oracle.close(got, want, 1e-9, 1e-12): F("interp.clamp", "outside the table at (io=%g, vi=%g): %r, nearest edge value %r" % (x, y, got, want))
    # in a solved system: both polarities mirror; a constant table gives the same result as the constant
    for pol in (1, -1):
        def mk(sp):
            ops = [{"op": "system", "comp": {"kind": "Source", "name": "S0", "args": {"vo": pol * rnd.choice([5.0, 12.0]), "rs": 0.0}}}]
            if kind == "PMux":
                ops.append({"op": "add_source", "comp": {"kind": "Source", "name": "S1", "args": {"vo": 0.0}}}); ops.append({"op": "add_comp", "parent": ["S1", "S0"], "comp": sp})
            else: ops.append({"op": "add_comp", "parent": "S0", "comp": sp})
            ops.append({"op": "add_comp", "parent": "X", "comp": {"kind": "ILoad", "name": "L", "args": {"ii": rnd.choice([0.004, 0.05, 0.5, 2.0])}}})
            return {"ops": ops}
        st = rnd.getstate(); r1 = mk(spec); rnd.setstate(st)
        s1, _ = gen.build(r1); m = Model.of(r1)
        o1, d1 = _solve_outcome(s1)
        if o1 == "table":
            for fl_ in oracle.check_table(m, d1, s1):
                if fl_["key"] in ("row.vout", "row.iin", "row.accounting", "table.range", "row.balance"):
                    F("interp.system:" + fl_["key"], "pol %+d: %s" % (pol, fl_["text"]))
            if const:
                csp = copy.deepcopy(spec); csp["args"][key] = cval
                rnd.setstate(st); r2 = mk(csp)
                s2, _ = gen.build(r2); o2, d2 = _solve_outcome(s2)
                d = frames_differ(d1, d2, ["Component"]) if o2 == "table" else "constant twin: %s" % o2
                if d: F("interp.const", "a table whose entries all equal %g behaves differently from the constant: %s" % (cval, d))
    if idx < 3: out["sample"] = {"component": kind, "table": tbl, "verdict": "%d failures" % len(out["failures"])}
    return out


def interp_family(seed, n):
    return summarize(run_pool(interp_case, [(seed, i) for i in range(n)]),
                     "random well-conditioned 1-D / 2-D tables (1..4 vi rows incl. descending order, 2..5 io points) of eff, vdrop, ig on the seven table-capable forms: exact on grid, linear along grid lines, inside corner range, clamped outside, no NaN; in a solved probe system with both polarities; constant table == constant",
                     "tables up to 4 x 5; ~40 query points per table")


# ============================================================================================================ C13
TOML_SECTION = {"Source": "source", "PLoad": "pload", "ILoad": "iload", "RLoad": "rload", "RLoss": "rloss", "VLoss": "vloss", "Converter": "converter", "LinReg": "linreg",
                "PSwitch": "pswitch", "PMux": "pmux", "Rectifier": "rectifier"}
MANDATORY = {"Source": ["vo"], "PLoad": ["pwr"], "ILoad": ["ii"], "RLoad": ["rs"], "RLoss": ["rs"], "VLoss": ["vdrop"], "Converter": ["vo", "eff"], "LinReg": ["vo"], "PSwitch": [], "PMux": [], "Rectifier": ["vdrop"]}


def toml_case(args):
    import tempfile, os, toml
    import sysloss.components as C
    seed, idx = args
    rnd = _rnd(seed, idx)
    kind = rnd.choice(["Source", "PLoad", "ILoad", "RLoad", "RLoss", "VLoss", "Converter", "LinReg", "PSwitch", "PMux", "RectD", "RectM"])
    sp = gen.comp_spec(rnd, kind, "X", 1, p_table=0.4, p_limits=0.5, negsign=True)
    cls = gen.cls_name(kind)
    a = copy.deepcopy(sp["args"])
    lim = a.pop("limits", None)
    if cls == "Rectifier": a.setdefault("vdrop", 0.0)
    if "loss" in a: a["loss"] = bool(a["loss"])         # in a file the flag is a TOML boolean (an integer there is a wrongly typed value)
    if cls == "PMux" and rnd.random() < 0.4: a["rs"] = [0.01, 0.03]
    if cls == "Converter" and isinstance(a["eff"], (int, float)): a["eff"] = float(a["eff"])
    keep = set()
    if cls == "LinReg" and rnd.random() < 0.5:
        # the deprecated iq key (scalar or table), alone or next to a different ig: the constructor lets iq win
        a.pop("iq", None)
        a["iq"] = rnd.choice([2e-3, 5e-4, 2e-3, 0.0, {"vi": [5.0], "io": [0.0, 0.1, 1.0], "iq": [[1e-3, 2e-3, 3e-3]]}])
        if rnd.random() < 0.3: a.pop("ig", None)
        else: a.setdefault("ig", 7e-4)
        keep = {"iq", "ig"}
    # optional keys are dropped at random: the constructor defaults must apply
    for k in list(a):
        if k not in MANDATORY[cls] and k not in keep and rnd.random() < 0.4: a.pop(k)
    doc = {TOML_SECTION[cls]: a}
    if lim is not None and rnd.random() < 0.12:
        # a malformed limits pair: loader and constructor must agree (both refuse it)
        k_ = rnd.choice(list(lim)); lim = dict(lim); lim[k_] = rnd.choice([[0.0, 0.5, 1.0], ["0", "6"], [1.0]])        # (TOML arrays are homogeneous)
    if lim is not None: doc["limits"] = lim
    mode = rnd.choice(["ok", "ok", "ok", "missing", "wrongtype"])
    if mode == "missing" and MANDATORY[cls]:
        doc[TOML_SECTION[cls]].pop(rnd.choice(MANDATORY[cls]))
    elif mode == "wrongtype" and cls != "LinReg":
        k = rnd.choice(list(a) or MANDATORY[cls] or ["rt"])
        from contracts.ctor import _PINNED_TYPES
        typ_ = _PINNED_TYPES.get(cls, {}).get(k, [])
        cands = [w for w in ("5.0", True, False, [1.0, 2.0], 0, 1, 0.0) if type(w).__name__ not in typ_] or ["5.0"]
        doc[TOML_SECTION[cls]][k] = rnd.choice(cands) if k not in ("loss",) else rnd.choice(["yes", 0, 1, 0.0])
        if cls in ("PMux", "Rectifier") and k == "rs" and isinstance(doc[TOML_SECTION[cls]][k], list): doc[TOML_SECTION[cls]][k] = "0.1"
    else:
        mode = "ok"
    out = {"hash": _hash([cls, doc, mode]), "failures": [], "nontrivial": True, "sample": None, "outcome": mode}
    def F(key, text): out["failures"].append({"key": key, "text": text, "props": ["C13"], "toml": doc, "kind": cls})
    fd, p = tempfile.mkstemp(suffix=".toml"); os.close(fd)
    try:
        # single-row tables are written as TOML inline tables now and then (decoded as a dict subclass)
        sec = TOML_SECTION[cls]
        inl = [k for k, v in doc[sec].items() if isinstance(v, dict) and len(v.get("vi", [])) == 1] if (mode == "ok" and rnd.random() < 0.35) else []
        if inl:
            d2 = copy.deepcopy(doc); lines = []
            for k in inl:
                t = d2[sec].pop(k)
                lines.append("%s = {%s}" % (k, ", ".join("%s = %s" % (a_, json.dumps(b_)) for a_, b_ in t.items())))
            txt = toml.dumps(d2)
            hdr = "[%s]" % sec
            txt = txt.replace(hdr + "\n", hdr + "\n" + "\n".join(lines) + "\n", 1) if hdr + "\n" in txt else txt + "\n" + hdr + "\n" + "\n".join(lines) + "\n"
            with open(p, "w") as f: f.write(txt)
            out["outcome"] = "ok-inline"
        else:
            with open(p, "w") as f: toml.dump(doc, f)
        K = getattr(C, cls)
        from sysloss.system import System
        def host(comp):
            if cls == "Source":
                s = System("h", comp); s.add_comp("X", comp=C.ILoad("L", ii=0.2)); return s
            s = System("h", C.Source("S0", vo=12.0, rs=0.02))
            s.add_comp("S0", comp=comp)
            if cls not in ("PLoad", "ILoad", "RLoad"): s.add_comp("X", comp=C.ILoad("L", ii=0.2, rt=3.0))
            return s
        # the constructor twin, its report rows and its solved host are evaluated BEFORE the file is loaded (the reference of the
        # property is the constructor call on its own); module-level defaults are snapshotted around the load
        mod0 = {k_: copy.deepcopy(v_) for k_, v_ in vars(C).items() if k_.isupper() and isinstance(v_, (dict, list))}
        c2 = e2 = h2 = row2 = o2 = d2 = None
        if mode == "ok":
            kw = dict(doc[TOML_SECTION[cls]])
            if lim is not None: kw["limits"] = lim
            try:
                c2 = K("X", **copy.deepcopy(kw))
            except Exception as e:
                e2 = e
            if c2 is not None:
                h2 = host(c2); row2 = h2.params(limits=True); o2, d2 = _solve_outcome(h2, ta=30.0)
        try:
            c1 = K.from_file("X", fname=p); e1 = None
        except Exception as e:
            c1, e1 = None, e
        mod1 = {k_: v_ for k_, v_ in vars(C).items() if k_ in mod0}
        for k_ in mod0:
            if mod1.get(k_) != mod0[k_]:
                F("toml.module-state", "%s.from_file changed the module-level default %s to %r (it was %r): components built afterwards no longer equal their constructor call in a fresh process" % (cls, k_, mod1.get(k_), mod0[k_]))
                # harness hygiene: later cases of this worker start from the pristine defaults again
                if isinstance(mod1.get(k_), dict): mod1[k_].clear(); mod1[k_].update(copy.deepcopy(mod0[k_]))
                elif isinstance(mod1.get(k_), list): mod1[k_][:] = copy.deepcopy(mod0[k_])
        if mode == "missing":
            if not isinstance(e1, KeyError): F("toml.missing", "%s file without a mandatory key: %s instead of KeyError" % (cls, type(e1).__name__ if e1 else "a component was built"))
            return out
        if mode == "wrongtype":
            if not isinstance(e1, ValueError): F("toml.wrongtype", "%s file with a wrongly typed value %r: %s instead of ValueError" % (cls, doc[TOML_SECTION[cls]], type(e1).__name__ if e1 else "a component was built"))
            return out
        if (e1 is None) != (e2 is None) or (e1 is not None and type(e1) != type(e2)):
            F("toml.accept", "%s: loader %s, constructor %s" % (cls, type(e1).__name__ if e1 else "ok", type(e2).__name__ if e2 else "ok")); return out
        if c1 is None: return out
        if cls != "LinReg" and rnd.random() < 0.25:
            # the same path is rewritten (one numeric parameter changed) and loaded again: the component follows the file
            nk = [k_ for k_, v_ in doc[TOML_SECTION[cls]].items() if isinstance(v_, float) and k_ != "eff" and v_ != 0.0]
            if nk:
                d3 = copy.deepcopy(doc); k3 = rnd.choice(nk); d3[TOML_SECTION[cls]][k3] = d3[TOML_SECTION[cls]][k3] * 1.5
                with open(p, "w") as f: toml.dump(d3, f)
                try:
                    c3 = K.from_file("X", fname=p)
                    kw3 = dict(d3[TOML_SECTION[cls]]); 
                    if lim is not None: kw3["limits"] = lim
                    if c3._params != K("X", **copy.deepcopy(kw3))._params: F("toml.reload", "%s: the file was rewritten (%s changed) and loaded again from the same path: the component still has %r" % (cls, k3, c3._params.get(k3)))
                except Exception as e:
                    F("toml.reload", "%s: loading the rewritten file raised %s" % (cls, type(e).__name__))
        if c1._params != c2._params: F("toml.params", "%s: loader _params %s != constructor _params %s" % (cls, c1._params, c2._params))
        if c1._limits != c2._limits: F("toml.limits", "%s: loader limits %s != constructor limits %s" % (cls, c1._limits, c2._limits))
        # same params()/limits() row and same behaviour in a solved system
        h1 = host(c1)
        d = frames_differ(h1.params(limits=True), row2, ["Component"])
        if d: F("toml.paramsrow", "%s: params()/limits() row differs: %s" % (cls, d))
        o1, d1 = _solve_outcome(h1, ta=30.0)
        if o1 != o2: F("toml.solve", "%s: host system with loaded component -> %s, with constructed twin -> %s" % (cls, o1, o2))
        elif o1 == "table":
            d = frames_differ(d1, d2, ["Component"])
            if d: F("toml.solve", "%s: solved host system differs: %s" % (cls, d))
    finally:
        try: os.unlink(p)
        except OSError: pass
    if idx < 3: out["sample"] = {"kind": cls, "toml": doc, "mode": mode}
    return out


def toml_family(seed, n):
    return summarize(run_pool(toml_case, [(seed, i) for i in range(n)]),
                     "real TOML files written to a temp dir for all 11 kinds (scalars, lists, 1-D/2-D tables, limits, optional keys dropped at random; LinReg's own loader included): loader vs constructor twin (_params, limits, params()/limits() row, solved host system); files lacking a mandatory key -> KeyError; wrongly typed values -> ValueError",
                     "one component per file; ~60 % well-formed, 20 % missing key, 20 % wrong type")


# ============================================================================================================ C17 / C18
class _NoBar:
    """progress bar stub: tqdm's multiprocessing write-lock can dead-lock inside forked pool workers; the bar is not part of any property"""
    total = 0
    def __init__(self, *a, **k): pass
    def __enter__(self): return self
    def __exit__(self, *a): return False
    def update(self, *a, **k): pass
    def close(self): pass


def _quiet_tqdm():
    import sysloss.system as SY
    SY.tqdm = _NoBar


def _battery_model(rnd, cap0, v0, r0, steps, shape=None):
    """battery model for the callbacks: every depletion call removes cap0/steps (so every run ends after <= steps+1 calls);
    voltage sags and impedance rises with the depth of discharge.  The callbacks record what they receive."""
    st = {"cap": cap0, "v": v0, "r": r0, "probe": 0, "deplete": 0, "calls": []}
    shape = shape or rnd.choice(["sag", "sag", "plateau", "steps", "const"])
    st["shape"] = shape
    def pfunc():
        st["probe"] += 1
        return (st["cap"], st["v"], st["r"])
    def dfunc(dt, cur):
        st["deplete"] += 1
        st["calls"].append((dt, float(cur), st["v"], st["r"]))
        st["cap"] -= cap0 / steps
        frac = max(st["cap"], 0.0) / cap0
        if shape == "sag": st["v"] = v0 * (0.75 + 0.25 * frac); st["r"] = r0 * (2.0 - frac)
        elif shape == "plateau": st["r"] = (r0 or 0.05) * (3.0 - 2.0 * frac)                                        # flat voltage, impedance rising as the cell empties
        elif shape == "steps": st["v"] = v0 * (1.0 if frac > 0.5 else 0.9); st["r"] = (r0 or 0.02) * (1 + st["deplete"] % 3)   # stepwise voltage, impedance wandering
        else: st["r"] = r0                                                                                             # constant battery
        return (st["cap"], st["v"], st["r"])
    return st, pfunc, dfunc


class _StopModel(BaseException):
    """a callback's own way out that is not an Exception"""


def analysis_case(args):
    """C17: every analysis leaves the system, its components and the arguments untouched; batt_life restores the battery"""
    import tempfile, os, io as _io, contextlib
    seed, idx = args
    rnd = _rnd(seed, idx)
    from . import hist
    _quiet_tqdm()
    recipe = gen.random_system(rnd, max_nodes=7, n_sources=(1, 2), p_mux=0.3, p_table=0.4, p_limits=0.7, p_phases=0.5, p_rails=0.4, p_groups=0.4)
    # limits given in non-ascending magnitude order / on negative rails, shared limit dict objects
    for op in recipe["ops"]:
        if "comp" in op and rnd.random() < 0.3:
            op["comp"]["args"].setdefault("limits", {})[rnd.choice(["vo", "vi", "io", "pl"])] = rnd.choice([[-5.5, -4.5], [6.0, 0.0], [-1e6, 0.0]])
        # bounds beyond the default +-1e6 ("no limit": inf, megawatt scale): legal, reported and saved as given
        if "comp" in op and rnd.random() < 0.25:
            op["comp"]["args"].setdefault("limits", {})[rnd.choice(["vi", "vo", "ii", "io", "pi", "po", "pl", "tp"])] = rnd.choice([[0.0, 5e6], [0.0, float("inf")], [-float("inf"), float("inf")], [-2e6, 1e6]])
    out = {"hash": _hash(recipe), "failures": [], "nontrivial": True, "sample": None, "outcome": None}
    def F(key, text): out["failures"].append({"key": key, "text": text, "props": ["C17"], "recipe": recipe})
    s, _ = gen.build(recipe)
    # the reference snapshot is taken on the freshly built system BEFORE its first analysis call
    def snap():
        d = hist.snap_internal(s)
        d.pop("objs", None)
        d["hidx"] = None
        d["ipr"] = {s._g[i]._params["name"]: repr(sorted((k, repr(v)) for k, v in vars(s._g[i]._ipr).items() if k != "_intp")) if s._g[i]._ipr is not None else None for i in s._g.node_indices()}
        import sysloss.components as C
        import sysloss.diagram as D_
        d["globals"] = json.dumps([C.LIMITS_DEFAULT, C.STATE_DEFAULT, C.STATE_OFF, {k: v for k, v in vars(D_).items() if k.isupper() and isinstance(v, (dict, list, tuple, str, int, float))}, D_.get_conf()], sort_keys=True, default=str)
        return d
    ref = snap()
    tags = {"Tag": "x"}; tags0 = copy.deepcopy(tags)
    conf = None
    first = None
    calls = ["solve", "rail_rep", "params", "limits", "phases", "tree", "save", "plot_interp", "make_diag", "make_hdiag", "batt_life", "solve_tags"]
    rnd.shuffle(calls)
    fd, p = tempfile.mkstemp(suffix=".json"); os.close(fd)
    import matplotlib
    matplotlib.use("Agg")
    import matplotlib.pyplot as plt
    try:
        for c in calls[: rnd.randint(3, len(calls))]:
            try:
                with contextlib.redirect_stdout(_io.StringIO()):
                    if c == "solve":
                        df = s.solve(ta=31.0)
                        if first is None: first = df.to_string()
                        elif df.to_string() != first: F("readonly.repeat", "repeating solve() gave a different table")
                    elif c == "solve_tags": s.solve(tags=tags, energy=True)
                    elif c == "rail_rep": s.rail_rep()
                    elif c == "params": s.params(limits=True)
                    elif c == "limits": s.limits()
                    elif c == "phases": s.phases()
                    elif c == "tree": s.tree()
                    elif c == "save": s.save(p)
                    elif c == "plot_interp":
                        for nm in list(s._g.attrs["nodes"])[:3]:
                            fig = s.plot_interp(nm, plot3d=rnd.random() < 0.3)
                            plt.close("all")
                    elif c in ("make_diag", "make_hdiag"):
                        import sysloss.diagram as D
                        conf = D.get_conf(); conf["node"]["Converter"] = {"fillcolor": "red"}; conf0 = copy.deepcopy(conf)
                        if rnd.random() < 0.5: getattr(D, c)(s, fname=p.replace(".json", ".dot"))            # no configuration: the module defaults are used (and must stay as they are)
                        else: getattr(D, c)(s, fname=p.replace(".json", ".dot"), config=conf)
                        if conf != conf0: F("readonly.config", "%s changed the caller's configuration dictionary" % c)
                        try: os.unlink(p.replace(".json", ".dot"))
                        except OSError: pass
                    elif c == "batt_life":
                        src = [n for n in s._g.attrs["nodes"] if type(s._g[s._g.attrs["nodes"][n]]).__name__ == "Source"][0]
                        st, pf, df_ = _battery_model(rnd, 0.002, abs(s._g[s._g.attrs["nodes"][src]]._params["vo"]) or 3.0, 0.05, 8)
                        kfail = rnd.choice([None, None, 1, 2, 3, 5])
                        exc_cls = rnd.choice([RuntimeError, RuntimeError, KeyboardInterrupt, _StopModel])     # an Exception, or a BaseException that is none (Ctrl-C, own class)
                        def dfx(dt, cur, df_=df_, st=st, kfail=kfail, exc_cls=exc_cls):
                            if kfail is not None and st["deplete"] + 1 == kfail: st["deplete"] += 1; raise exc_cls("battery model failed at call %d" % kfail)
                            return df_(dt, cur)
                        def pfx(pf=pf, kfail=kfail):
                            if kfail == 1 and rnd.random() < 0.3: raise RuntimeError("probe failed")
                            return pf()
                        try:
                            s.batt_life(src, cutoff=0.5, pfunc=pfx, dfunc=dfx)
                        except (RuntimeError, ValueError, ZeroDivisionError, KeyboardInterrupt, _StopModel):
                            pass
            except (ValueError, RuntimeError) as e:
                if "Unstable" not in str(e) and "Steady" not in str(e) and "valid" not in str(e): F("readonly.exception", "%s raised %s: %s" % (c, type(e).__name__, str(e)[:80]))
            except Exception as e:
                F("readonly.exception", "%s raised %s: %s" % (c, type(e).__name__, str(e)[:80]))
            now = snap()
            if now != ref:
                d = [k for k in ref if ref[k] != now[k]]
                F("readonly.state", "%s changed the system: %s" % (c, [(k, [(n_, ref[k].get(n_), now[k].get(n_)) for n_ in ref[k] if isinstance(ref[k], dict) and ref[k].get(n_) != now[k].get(n_)][:2] if isinstance(ref[k], dict) else None) for k in d])); break
            if tags != tags0: F("readonly.tags", "%s changed the caller's tags dictionary" % c); break
    finally:
        try: os.unlink(p)
        except OSError: pass
        plt.close("all")
    if idx < 3: out["sample"] = {"system": gen.short(recipe)[:6], "calls": calls[:6], "verdict": "%d failures" % len(out["failures"])}
    return out


def analysis_family(seed, n):
    return summarize(run_pool(analysis_case, [(seed, i) for i in range(n)]),
                     "random systems (tables, limits incl. non-ascending / negative pairs, rails, groups, phases); random interleavings of solve, rail_rep, params, limits, phases, tree, save, plot_interp, make_diag, make_hdiag, batt_life (callbacks raising at the k-th call, k in {1,2,3,5}); state snapshot (registries, graph, every component's _params/_limits/interpolator, module constants) taken BEFORE the first analysis and compared after every call; caller's tags/config compared",
                     "trees <= 7 components; 3..12 analysis calls per system")


def battlife_case(args):
    """C18 (+ C17 restoration): recording callbacks + independent re-solve of every step"""
    seed, idx = args
    rnd = _rnd(seed, idx)
    _quiet_tqdm()
    recipe = gen.random_system(rnd, max_nodes=6, n_sources=(1, 2), p_mux=0.2, p_phases=0.5, p_neg=0.0, p_dead_source=0.0, p_table=0.2)
    out = {"hash": _hash([recipe, idx]), "failures": [], "nontrivial": True, "sample": None, "outcome": None}
    def F(key, text, pr=("C18",)): out["failures"].append({"key": key, "text": text, "props": list(pr), "recipe": recipe})
    src_ops = [op for op in recipe["ops"] if "comp" in op and op["comp"]["kind"] == "Source"]
    batt = rnd.choice(src_ops)["comp"]["name"]
    if rnd.random() < 0.12:
        # the battery is declared with a placeholder voltage of 0 V: its model supplies the real one
        for op in src_ops:
            if op["comp"]["name"] == batt: op["comp"]["args"]["vo"] = 0.0
    s, _ = gen.build(recipe); m = Model.of(recipe)
    if rnd.random() < 0.3:
        # an earlier battery run, then a load moved to another parent under the same name (no report in between): the run below sees the new tree
        loads = [n for n in m.nodes if m.nodes[n].type == "LOAD" and len(m.nodes[n].parents) == 1]
        hosts = [n for n in m.nodes if m.nodes[n].type not in ("LOAD",) and m.nodes[n].kind != "PMux"]
        if loads and len(hosts) > 1:
            L = rnd.choice(loads); Q = rnd.choice([h for h in hosts if h != m.nodes[L].parents[0]])
            st0, pf0, df0 = _battery_model(rnd, 0.001, abs(s._g[s._g.attrs["nodes"][batt]]._params["vo"]) or 3.7, 0.02, 3)
            try:
                import io as _io0, contextlib as _cl0
                with _cl0.redirect_stderr(_io0.StringIO()): s.batt_life(batt, cutoff=0.1, pfunc=pf0, dfunc=df0)
            except Exception: pass
            spec = [op["comp"] for op in recipe["ops"] if "comp" in op and op["comp"]["name"] == L][-1]
            mv = [{"op": "del_comp", "name": L, "del_childs": True}, {"op": "add_comp", "parent": Q, "comp": copy.deepcopy(spec), "group": "", "rail": ""}]
            try:
                for op in mv: gen.apply_op(s, op)
                recipe = {"ops": recipe["ops"] + mv}; m = Model.of(recipe)
            except Exception:
                s, _ = gen.build(recipe); m = Model.of(recipe)
    bnode = s._g[s._g.attrs["nodes"][batt]]
    vo0, rs0 = bnode._params["vo"], bnode._params["rs"]
    big = rnd.random() < 0.15
    cap0 = rnd.choice([150.0, 400.0]) if big else rnd.choice([0.0004, 0.002, 0.01])
    # the battery replaces a source of the system: its voltage stays in the range the system was sized for (modest drops)
    v0 = abs(vo0) if vo0 else 3.7; r0 = rnd.choice([0.0, 0.02, 0.1]); cutoff = v0 * rnd.choice([0.5, 0.8, 0.9])
    steps = rnd.choice([3, 7, 12, 25])
    st, pf, df_ = _battery_model(rnd, cap0, v0, r0, steps)
    # name that is not a source -> ValueError
    others = [n for n in m.nodes if m.nodes[n].type != "SOURCE"]
    if others and idx % 5 == 0:
        try:
            s.batt_life(rnd.choice(others), cutoff=cutoff, pfunc=pf, dfunc=df_); F("batt.notsource", "a name that is not a Source was accepted")
        except ValueError: pass
        except Exception as e: F("batt.notsource", "non-source battery raised %s instead of ValueError" % type(e).__name__)
        st["probe"] = st["deplete"] = 0; st["calls"] = []
    import io as _io, contextlib
    if idx % 6 == 3:
        # a battery model that answers with a malformed state (no impedance / no capacity): whatever batt_life raises, the battery is as before
        bad = rnd.choice([lambda: (cap0, v0), lambda: (None, v0, r0), lambda: [cap0], lambda: (cap0, v0, r0)])
        calls = {"n": 0}
        nan_after = rnd.choice([0, 0, 1, 4])
        def df_bad(dt, cur):
            calls["n"] += 1
            # ... or, after some well-formed steps, a non-finite remaining capacity
            if calls["n"] <= nan_after: return (cap0 * (1 - 0.01 * calls["n"]), v0 * 0.99, r0 * 1.5)
            return rnd.choice([(cap0 / 2, v0), None, (cap0 / 2,), (float("nan"), v0 * 0.9, r0 * 2), (float("inf"), v0 * 0.9, r0 * 2), (-float("inf"), v0 * 0.9, r0 * 2)])
        try:
            with contextlib.redirect_stderr(_io.StringIO()):
                s.batt_life(batt, cutoff=cutoff, pfunc=bad, dfunc=df_bad)
        except Exception as e:
            out["outcome"] = "malformed:" + type(e).__name__
        if (bnode._params["vo"], bnode._params["rs"]) != (vo0, rs0):
            F("batt.restore", "battery vo/rs not restored after a malformed battery-model answer (%r, %r) != (%r, %r)" % (bnode._params["vo"], bnode._params["rs"], vo0, rs0), ("C17", "C18"))
        return out
    try:
        with contextlib.redirect_stderr(_io.StringIO()):
            log = s.batt_life(batt, cutoff=cutoff, pfunc=pf, dfunc=df_)
    except (ValueError, RuntimeError, ZeroDivisionError) as e:
        out["outcome"] = type(e).__name__
        if (bnode._params["vo"], bnode._params["rs"]) != (vo0, rs0): F("batt.restore", "battery vo/rs not restored after %s" % type(e).__name__, ("C17", "C18"))
        return out
    except Exception as e:
        out["outcome"] = type(e).__name__
        F("batt.exception", "batt_life() with a well-formed battery model raised %s: %s" % (type(e).__name__, str(e)[:80]))
        if (bnode._params["vo"], bnode._params["rs"]) != (vo0, rs0): F("batt.restore", "battery vo/rs not restored after %s" % type(e).__name__, ("C17", "C18"))
        return out
    out["outcome"] = "log"
    if (bnode._params["vo"], bnode._params["rs"]) != (vo0, rs0): F("batt.restore", "battery vo/rs not restored on return (%r, %r) != (%r, %r)" % (bnode._params["vo"], bnode._params["rs"], vo0, rs0), ("C17", "C18"))
    if st["probe"] != 1: F("batt.probe", "battery probed %d times" % st["probe"])
    calls = st["calls"]
    T, Cp, V, R = [list(log[c]) for c in ("Time (s)", "Capacity (Ah)", "Voltage (V)", "Resistance (Ohm)")]
    if not (T[0] == 0.0 and Cp[0] == cap0 and V[0] == v0 and R[0] == r0): F("batt.initial", "log does not start from the probed state")
    # replay the model independently to know the state sequence
    states = [(cap0, v0, r0)]
    st2, pf2, df2 = _battery_model(rnd, cap0, v0, r0, steps, st["shape"])
    phases = list(m.phases) if m.phases else [""]
    exp_rows, t = [(0.0, cap0, v0, r0)], 0.0
    alive = cap0 > 0 and v0 > cutoff
    k = 0
    while alive and k < len(calls) + 2:
        ph = phases[k % len(phases)]
        # independent steady state for the battery's present voltage and impedance in that phase
        # (a system built from scratch with the battery's present voltage and impedance as its source parameters - not the analysed object)
        r_ref = copy.deepcopy(recipe)
        for op in r_ref["ops"]:
            if "comp" in op and op["comp"]["name"] == batt and op["op"] in ("system", "add_source"):
                op["comp"]["args"]["vo"], op["comp"]["args"]["rs"] = states[-1][1], states[-1][2]
        try:
            s_ref, _ = gen.build(r_ref, strict=False)
            dfp = s_ref.solve(phase=ph, maxiter=500) if ph else s_ref.solve(maxiter=500)
        except (RuntimeError, ValueError):
            out["outcome"] = "no steady state at some step (case skipped)"; return out
        rows, _ = oracle.rows_by_key(dfp)
        ib = float(rows[(batt, ph)]["Iout (A)"])
        dt = m.phases[ph] if ph else (cap0 / ib * 3.6 if ib else float("inf"))
        if k >= len(calls): F("batt.calls", "depletion stopped after %d calls although the battery was still alive" % len(calls)); break
        cdt, ccur, cv, cr = calls[k]
        if not oracle.close(cdt, dt, 1e-4, 1e-12): F("batt.duration", "depletion call %d received duration %r, expected %r (phase %r)" % (k + 1, cdt, dt, ph)); break
        if not oracle.close(ccur, ib, 1e-4, 1e-9): F("batt.current", "depletion call %d received current %r, the battery's steady-state output current for (v=%g, r=%g, phase %r) is %r" % (k + 1, ccur, states[-1][1], states[-1][2], ph, ib)); break
        ns = df2(dt, ib)
        # follow the REAL model's own sequence (it saw the real currents): use recorded next state
        states.append(ns)
        t += dt
        alive = ns[0] > 0 and ns[1] > cutoff
        if alive: exp_rows.append((t, ns[0], ns[1], ns[2]))
        k += 1
    if not out["failures"]:
        if len(calls) != k: F("batt.calls", "%d depletion calls, expected %d" % (len(calls), k))
        if len(T) != len(exp_rows): F("batt.rows", "log has %d rows, expected %d (initial state + every later state with capacity > 0 and voltage > cutoff)" % (len(T), len(exp_rows)))
        else:
            for j, (a, b) in enumerate(zip(zip(T, Cp, V, R), exp_rows)):
                if not all(oracle.close(x, y, 1e-4, 1e-9) for x, y in zip(a, b)): F("batt.log", "log row %d = %s, expected %s" % (j, a, b)); break
        import math
        finite = all(math.isfinite(c[0]) and c[0] > 0 for c in calls)       # an idle battery without phases has an infinite step time: outside the quantifier
        if finite and any(T[j + 1] <= T[j] for j in range(len(T) - 1)): F("batt.time", "time column is not strictly increasing: %s" % T[:6])
    if idx < 3: out["sample"] = {"battery": batt, "cap0": cap0, "rows": len(T), "depletion calls": len(calls), "verdict": "%d failures" % len(out["failures"])}
    return out


def battlife_family(seed, n):
    return summarize(run_pool(battlife_case, [(seed, i) for i in range(n)]),
                     "random systems with/without phases, battery = any source, capacities below and above 100 Ah, random cutoffs, linear-sag battery model with recording callbacks; every depletion call is compared with an independent solve() of the system at the battery's present voltage / impedance in the cycling phase; log rows, times, restoration, non-source name",
                     "trees <= 6 components; runs of 3..26 depletion calls")



# ============================================================================================================ C07: re-timed phases
def retime_case(args):
    seed, idx = args
    rnd = _rnd(seed, idx)
    recipe = gen.random_system(rnd, max_nodes=6, n_sources=(1, 2), p_mux=0.3, p_phases=1.0)
    out = {"hash": _hash(recipe), "failures": [], "nontrivial": True, "sample": None, "outcome": None}
    s, _ = gen.build(recipe); m = Model.of(recipe)
    oc, df = _solve_outcome(s, energy=True); out["outcome"] = oc
    if oc != "table": return out
    new = {k: v * rnd.choice([0.1, 3.0, 7.5]) for k, v in m.phases.items()}
    if rnd.random() < 0.5 and hasattr(s, "get_sys_phases"):
        cur = s.get_sys_phases()            # read - modify - write back with the object the getter handed out
        for k, v in new.items(): cur[k] = v
        s.set_sys_phases(cur)
    else:
        s.set_sys_phases(new)
    oc2, df2 = _solve_outcome(s, energy=True)
    r2 = copy.deepcopy(recipe)
    for op in r2["ops"]:
        if op["op"] == "set_sys_phases": op["phases"] = new
    s3, _ = gen.build(r2); m3 = Model.of(r2)
    oc3, df3 = _solve_outcome(s3, energy=True)
    def F(key, text): out["failures"].append({"key": key, "text": text, "props": ["C07"], "recipe": recipe, "new_phases": new})
    if oc2 != oc3: F("retime.outcome", "re-timed system: %s, fresh system with the new durations: %s" % (oc2, oc3)); return out
    if oc2 == "table":
        d = frames_differ(df2, df3, ["Component", "Phase"])
        if d: F("retime.values", "after set_sys_phases with other durations the table differs from a fresh system's: %s" % d)
        for f in oracle.check_table(m3, df2, s, energy=True):
            if "C07" in f["props"]: F("retime:" + f["key"], f["text"])
    return out


def retime_family(seed, n):
    return summarize(run_pool(retime_case, [(seed, i) for i in range(n)]),
                     "phased random systems: solve(energy=True), set_sys_phases with the same names and other durations, solve again; compared with a fresh system built with the new durations and with the aggregate oracle",
                     "trees <= 6 components")


# ============================================================================================================ re-configured phases (C03, C04, C06, C16)
def _phase_conf_for(rnd, kind, pn):
    from .gen import PHASED_KINDS
    if kind in PHASED_KINDS or kind in ("RectD", "RectM"):
        return rnd.choice([rnd.sample(pn, rnd.randint(1, len(pn))), [], ["zz"], [pn[-1]]])
    if kind == "PLoad": return {p: rnd.choice([0.05, 0.3, 0.0]) for p in rnd.sample(pn, rnd.randint(1, len(pn)))}
    if kind == "ILoad": return {p: rnd.choice([0.02, 0.004, 0.0]) for p in rnd.sample(pn, rnd.randint(1, len(pn)))}
    if kind == "RLoad": return {p: rnd.choice([100.0, 1000.0]) for p in rnd.sample(pn, rnd.randint(1, len(pn)))}
    return None


def reconfig_case(args):
    """solve(); then ONLY phase (re-)configuration calls; solve() again: must equal a fresh system built with the final configuration"""
    seed, idx, props = args
    rnd = _rnd(seed, idx)
    recipe = gen.random_system(rnd, max_nodes=7, n_sources=(1, 2), p_mux=0.3, p_phases=rnd.choice([1.0, 1.0, 0.0]), p_table=0.15)
    out = {"hash": _hash([recipe, idx]), "failures": [], "nontrivial": True, "sample": None, "outcome": None}
    s, _ = gen.build(recipe); m = Model.of(recipe)
    oc, df = _solve_outcome(s); out["outcome"] = oc
    extra = []
    pn = list(m.phases) if m.phases else []
    if rnd.random() < 0.3:
        # a phase leaves the plan and comes back: configurations naming it mean again what they meant
        full = {"a": 4.0, "b": 6.0, "c": 2.0}; tgt = rnd.choice(list(m.nodes)); conf = _phase_conf_for(rnd, m.nodes[tgt].kind, ["a", "c"])
        seq = [{"op": "set_sys_phases", "phases": dict(full)}] + ([{"op": "set_comp_phases", "name": tgt, "conf": conf}] if conf is not None else []) + \
              [{"op": "set_sys_phases", "phases": {"a": 4.0, "b": 6.0}}, {"op": "set_sys_phases", "phases": dict(full)}]
        for op in seq:
            try: gen.apply_op(s, op); extra.append(op)
            except Exception: pass
        pn = list(full)
    for _ in range(rnd.randint(1, 3) if not extra else 0):
        r = rnd.random()
        if r < 0.25 or not pn:
            ph = rnd.choice([{"a": 4.0, "b": 6.0}, {"a": 1.0, "b": 2.0, "c": 3.0}, {"sleep": 100.0, "rx": 2.0, "tx": 1.0}, {"x": 5.0, "y": 1.0}])
            op = {"op": "set_sys_phases", "phases": ph}; pn = list(ph)
        else:
            name = rnd.choice(list(m.nodes)); conf = _phase_conf_for(rnd, m.nodes[name].kind, pn)
            if conf is None: continue
            op = {"op": "set_comp_phases", "name": name, "conf": conf}
        try:
            gen.apply_op(s, op); extra.append(op)
        except Exception:
            pass
    if not extra: return out
    r2 = {"ops": copy.deepcopy(recipe["ops"]) + copy.deepcopy(extra)}
    def F(key, text, pr): 
        if set(pr) & set(props): out["failures"].append({"key": key, "text": text, "props": pr, "recipe": recipe, "then": extra})
    oc2, df2 = _solve_outcome(s)
    try:
        s3, _ = gen.build(r2); m3 = Model.of(r2)
    except Exception as e:
        return out
    oc3, df3 = _solve_outcome(s3)
    out["outcome"] = "%s->%s" % (oc, oc2)
    if oc2 != oc3:
        F("reconfig.outcome", "solve, %s, solve: %s; a fresh system with that configuration: %s" % ([gen.short({"ops": [o]})[0] for o in extra], oc2, oc3), ["C03", "C06", "C16", "C04"]); return out
    if oc2 == "table":
        d = frames_differ(df2, df3, ["Component", "Phase"])
        if d: F("reconfig.values", "after solve() and the phase configuration calls %s the table differs from a fresh system's: %s" % ([gen.short({"ops": [o]})[0] for o in extra], d), ["C03", "C06", "C16", "C04"])
        for f in oracle.check_table(m3, df2, s):
            F("reconfig:" + f["key"], f["text"], f["props"])
    return out


def reconfig_family(seed, n, props):
    return summarize(run_pool(reconfig_case, [(seed, i, props) for i in range(n)]),
                     "random systems: solve(), then only set_sys_phases / set_comp_phases calls (new plans, empty lists, names no phase carries, zero-valued entries), solve() again; compared with a fresh system built with the final configuration and with the table oracle",
                     "trees <= 7 components, 1-3 configuration calls")


# ============================================================================================================ C04 with loose tolerances
def loose_dead_case(args):
    """dead rails are EXACT statements (0 V, 0 A, 0 W): they hold for every legal solver tolerance, not only the defaults"""
    from .runner import table_case
    seed, idx = args
    rnd = _rnd(seed, idx)
    kw = dict(itol=rnd.choice([1e-3, 1e-2, 1e-4]), vtol=rnd.choice([1e-3, 1e-5, 1e-2]))
    r = table_case((seed, idx, dict(p_dead_source=0.4, p_phases=0.8, p_mux=0.4, p_ghost=0.3, max_nodes=7), ["C04"], kw))
    r["failures"] = [f for f in r["failures"] if f["key"] in ("row.dead", "row.inactive", "gen.build")]
    return r


def loose_dead_family(seed, n):
    return summarize(run_pool(loose_dead_case, [(seed, i) for i in range(n)]),
                     "random systems with dead sources / inactive elements / micro-amp sleep loads solved with loose tolerances (itol, vtol in 1e-5..1e-2): rows below a dead rail are exactly zero, inactive elements draw exactly their sleep current",
                     "trees <= 7 components")


# ============================================================================================================ a component moved under its own name
def move_case(args):
    """solve(); a load is deleted and added again under the SAME name below another parent (node slot and name re-used, node and edge
    counts unchanged); solve() again: the table is that of the new tree (reference model, and a system built from scratch)"""
    seed, idx, props = args
    rnd = _rnd(seed, idx)
    recipe = gen.random_system(rnd, max_nodes=7, n_sources=(1, 2), p_mux=0.2, p_phases=0.3, p_dead_source=0.3, p_table=0.1)
    out = {"hash": _hash([recipe, idx]), "failures": [], "nontrivial": True, "sample": None, "outcome": None}
    s, _ = gen.build(recipe); m = Model.of(recipe)
    loads = [n for n in m.nodes if m.nodes[n].type == "LOAD" and len(m.nodes[n].parents) == 1]
    hosts = [n for n in m.nodes if m.nodes[n].type != "LOAD" and m.nodes[n].kind != "PMux"]
    if not loads or len(hosts) < 2: out["outcome"] = "no move possible"; return out
    L = rnd.choice(loads); Q = rnd.choice([h for h in hosts if h != m.nodes[L].parents[0]])
    oc0, _ = _solve_outcome(s)
    spec = [op["comp"] for op in recipe["ops"] if "comp" in op and op["comp"]["name"] == L][-1]
    mv = [{"op": "del_comp", "name": L, "del_childs": True}, {"op": "add_comp", "parent": Q, "comp": copy.deepcopy(spec), "group": "", "rail": ""}]
    try:
        for op in mv: gen.apply_op(s, op)
    except Exception:
        out["outcome"] = "move rejected"; return out
    r2 = {"ops": recipe["ops"] + mv}; m2 = Model.of(r2)
    def F(key, text, pr):
        if set(pr) & set(props): out["failures"].append({"key": key, "text": text, "props": pr, "recipe": r2})
    oc, df = _solve_outcome(s)
    s3, _ = gen.build(r2, strict=False); oc3, df3 = _solve_outcome(s3)
    out["outcome"] = "%s->%s" % (oc0, oc)
    if oc != oc3: F("move.outcome", "after solve, del_comp(%r), add_comp(%r, %r): solve %s; a system built from scratch that way: %s" % (L, Q, L, oc, oc3), ["C01", "C04", "C16", "C03"]); return out
    if oc == "table":
        d = frames_differ(df, df3, ["Component", "Phase"])
        if d: F("move.values", "after solve, del_comp(%r), add_comp(%r, %r) the table differs from a system built from scratch that way: %s" % (L, Q, L, d), ["C01", "C04", "C16", "C03"])
        for f in oracle.check_table(m2, df, s):
            F("move:" + f["key"], f["text"], f["props"])
    return out


def move_family(seed, n, props):
    return summarize(run_pool(move_case, [(seed, i, list(props)) for i in range(n)]),
                     "random systems (dead sources, phases): solve(), then a load is deleted and added again under the same name below another parent (same node / edge counts, same names), solve() again; compared with a system built from scratch and with the table oracle",
                     "trees <= 7 components")
