"""Layer B: shared argument objects.  Two systems (and two components of one system) are built from the SAME python objects
(PMux parent lists, phase lists / tables, limits dicts, table dicts, numpy axis arrays).  Edits and analyses of system A
must leave system B, the sibling component's configuration and the caller's own objects exactly as they were
(C14/C15/C16: what a system is depends on the calls made on it; C17: objects passed to the package are not changed;
C01/C06: the untouched system still solves to the same table)."""
import copy, json, random
import numpy as np
from . import gen, hist
from .runner import run_pool, summarize, _hash
from .families import _solve_outcome, frames_differ, _rnd


def _build(shared):
    """one system from the shared argument objects (components are constructed anew, their arguments are the shared objects)"""
    from sysloss.system import System
    import sysloss.components as C
    s = System("sys", C.Source("S0", vo=shared["v0"], rs=0.01, limits=shared["limits"]), rail="R0")
    s.add_source(C.Source("S1", vo=shared["v1"]), rail="R1")
    s.add_comp("S0", comp=C.RLoss("F0", rs=0.05), rail="RF")
    s.add_comp("S0", comp=C.Converter("C1", vo=3.3, eff=shared["eff"], limits=shared["limits"]), rail="RC")
    s.add_comp("C1", comp=C.LinReg("G1", vo=1.8, ig=shared["ig"]))
    s.add_comp("G1", comp=C.ILoad("L1", ii=0.02))
    s.add_comp("C1", comp=C.PSwitch("W1", rs=0.02))
    s.add_comp("W1", comp=C.PLoad("L2", pwr=0.05))
    s.add_comp(shared["mux_inputs"], comp=C.PMux("MX", rs=shared["mux_rs"]))
    s.add_comp("MX", comp=C.ILoad("L0", ii=0.03))
    s.set_sys_phases(shared["phases"])
    s.set_comp_phases("C1", shared["plist"])
    s.set_comp_phases("W1", shared["plist"])            # two components configured with the same list object
    s.set_comp_phases("L1", shared["ptable"])
    s.set_comp_phases("L0", shared["ptable"])
    return s


def _shared(rnd):
    io = np.array([-1.0, -0.5, -0.01]) if rnd.random() < 0.5 else np.array([0.01, 0.5, 1.0])
    return {"v0": rnd.choice([5.0, 9.0]), "v1": rnd.choice([12.0, 6.0]),
            "limits": {"vo": [0.0, 100.0], "io": [0.0, 0.5]},
            "eff": {"vi": [5.0], "io": io, "eff": [[0.8, 0.9, 0.85]]},
            "ig": {"vi": [3.3], "io": io, "ig": [[1e-4, 2e-4, 3e-4]]},
            "mux_inputs": rnd.choice([["F0", "S1"], ["RF", "R1"], ["S1", "F0", "R0"]]), "mux_rs": [0.01, 0.02, 0.03],
            "phases": {"a": 10.0, "b": 1.0, "c": 5.0}, "plist": ["a", "c"], "ptable": {"a": 0.01, "b": 0.002}}


def _freeze(x):
    if isinstance(x, np.ndarray): return ("nd", x.dtype.str, x.tolist())
    if isinstance(x, dict): return {k: _freeze(v) for k, v in x.items()}
    if isinstance(x, (list, tuple)): return [_freeze(v) for v in x]
    return x


def _ops(rnd):
    """edits of system A (public API): renames, replacements, deletions keeping children, re-configuration"""
    from sysloss import components as C
    pool = [
        lambda s: s.change_comp("F0", comp=C.RLoss("F0n", rs=0.07), rail="RFn"),
        lambda s: s.change_comp("C1", comp=C.Converter("C1", vo=3.0, eff=0.9)),
        lambda s: s.change_comp("W1", comp=C.PSwitch("W1n", rs=0.03)),
        lambda s: s.change_comp("L1", comp=C.ILoad("L1", ii=0.01)),
        lambda s: s.change_comp("S1", comp=C.Source("S1n", vo=7.0), rail="R1n"),
        lambda s: s.del_comp("F0", del_childs=False),
        lambda s: s.del_comp("W1", del_childs=False),
        lambda s: s.del_comp("G1", del_childs=True),
        lambda s: s.set_comp_phases("C1", ["b"]),
        lambda s: s.set_comp_phases("L0", {"c": 0.5}),
        lambda s: s.set_sys_phases({"a": 1.0, "b": 2.0}),
        lambda s: s.set_sys_phases({"x": 1.0, "y": 2.0}),
        lambda s: s.solve(),
        lambda s: s.params(limits=True),
        lambda s: s.rail_rep(),
        lambda s: s.phases(),
    ]
    return [rnd.choice(pool) for _ in range(rnd.randint(2, 6))], pool


def alias_case(args):
    seed, idx, props = args
    rnd = _rnd(seed, idx)
    hist_ = None
    out = {"hash": "alias%d-%d" % (seed, idx), "failures": [], "nontrivial": True, "sample": None, "outcome": None}
    def F(key, text, pr):
        if set(pr) & set(props): out["failures"].append({"key": key, "text": text, "props": pr})
    sh = _shared(rnd)
    frozen = _freeze(sh)
    try:
        A, B = _build(sh), _build(sh)
    except Exception as e:
        out["failures"].append({"key": "gen.build", "text": "alias base system rejected: %s: %s" % (type(e).__name__, e), "props": [], "fault": True}); return out
    if _freeze(sh) != frozen:
        F("alias.arguments", "building a system changed the caller's own objects %s" % [k for k in frozen if _freeze(sh)[k] != frozen[k]], ["C17", "C14", "C16", "C01", "C10", "C11"])
    refB = hist.snap_internal(B); refB.pop("objs", None)
    ocB, dfB = _solve_outcome(B)
    # sibling component inside A that shares its phase list with a component that will be replaced
    ops, _ = _ops(rnd)
    done = []
    for op in ops:
        try:
            op(A); done.append("ok")
        except Exception as e:
            done.append(type(e).__name__)
        nowB = hist.snap_internal(B); nowB.pop("objs", None)
        if nowB != refB:
            d = [k for k in refB if refB[k] != nowB[k]]
            F("alias.system", "a call on system A (step %d of %d) changed system B, which was built from the same argument objects: %s" % (len(done), len(ops), d), ["C14", "C15", "C16", "C17", "C01", "C05", "C06"]); break
        if _freeze(sh) != frozen:
            d = [k for k in frozen if _freeze(sh)[k] != frozen[k]]
            F("alias.arguments", "a call on system A (step %d) changed the caller's own objects %s" % (len(done), d), ["C17", "C14", "C16", "C01", "C10"]); break
    out["outcome"] = ",".join(done)
    if not out["failures"]:
        oc2, df2 = _solve_outcome(B)
        if oc2 != ocB: F("alias.solve", "system B solves to %s after edits of system A (before: %s)" % (oc2, ocB), ["C01", "C05", "C06", "C16"])
        elif ocB == "table":
            d = frames_differ(dfB, df2, ["Component", "Phase"])
            if d: F("alias.solve", "system B's table changed after edits of system A: %s" % d, ["C01", "C05", "C06", "C16"])
        # a third system built afterwards from the same objects equals B (the objects still mean what they meant)
        try:
            C_ = _build(sh)
            oc3, df3 = _solve_outcome(C_)
            if oc3 != ocB or (ocB == "table" and frames_differ(dfB, df3, ["Component", "Phase"])):
                F("alias.rebuild", "a system built from the same argument objects after the edits of A differs from the one built before", ["C10", "C01", "C16", "C17"])
        except Exception as e:
            F("alias.rebuild", "building a further system from the same argument objects raised %s: %s" % (type(e).__name__, e), ["C10", "C01", "C16", "C17"])
    if idx < 2: out["sample"] = {"system": "two systems from shared argument objects", "verdict": "%d failures; steps %s" % (len(out["failures"]), out["outcome"])}
    return out


def alias_family(seed, n, props):
    return summarize(run_pool(alias_case, [(seed, i, list(props)) for i in range(n)]),
                     "two systems built from the SAME argument objects (PMux parent list, phase list shared by two components, phase table, limits dict, table dicts with numpy axis arrays); 2-6 random edits / reports on system A; system B (registries, components, solve table), the caller's objects and a system built afterwards from the same objects must be unchanged",
                     "one 11-component base system with a 2-3 input mux, 3 phases")
