"""Layer B oracles: run-time versions of the contracts, evaluated on the reports of the REAL System against the
independent reference model (bounded/model.py) and the spec functions of contracts/spec.py (FloatOps)."""
import math, collections, bisect
from contracts import spec as S
from .model import Model, TABLE_PARAM

REL, ABS = 2e-4, 1e-7
FO = S.FloatOps(REL, ABS)


def close(a, b, rel=REL, abs_=ABS):
    try:
        return math.isclose(float(a), float(b), rel_tol=rel, abs_tol=abs_)
    except (TypeError, ValueError):
        return False


class Fail(dict):
    pass


def fail(key, text, props, **kw):
    return Fail(key=key, text=text, props=list(props), **kw)


# ------------------------------------------------------------------------------------------------ tabulated parameters
def interp_1d(xs, fs, x):
    """the C10 statement for a 1-D table: exact on the grid, linear between, clamped outside, signs ignored"""
    xs = [abs(v) for v in xs]; fs = [abs(v) for v in fs]; x = abs(x)
    o = sorted(range(len(xs)), key=lambda j: xs[j]); xs = [xs[j] for j in o]; fs = [fs[j] for j in o]      # an axis written with negative values falls in magnitude
    if x <= xs[0]: return fs[0]
    if x >= xs[-1]: return fs[-1]
    j = bisect.bisect_right(xs, x) - 1
    t = (x - xs[j]) / (xs[j + 1] - xs[j])
    return fs[j] + t * (fs[j + 1] - fs[j])


def cell_range_2d(tab, key, io, vi):
    """range of the corner values of the enclosing cell (after clamping) of a 2-D table"""
    xs = [abs(v) for v in tab["io"]]; ys = [abs(v) for v in tab["vi"]]
    order = sorted(range(len(ys)), key=lambda j: ys[j]); ys = [ys[j] for j in order]
    ox = sorted(range(len(xs)), key=lambda i_: xs[i_]); xs = [xs[i_] for i_ in ox]
    z = [[abs(tab[key][j][i_]) for i_ in ox] for j in order]
    x = min(max(abs(io), xs[0]), xs[-1]); y = min(max(abs(vi), ys[0]), ys[-1])
    i = min(max(bisect.bisect_right(xs, x) - 1, 0), len(xs) - 2) if len(xs) > 1 else 0
    j = min(max(bisect.bisect_right(ys, y) - 1, 0), len(ys) - 2) if len(ys) > 1 else 0
    cs = [z[jj][ii] for jj in {j, min(j + 1, len(ys) - 1)} for ii in {i, min(i + 1, len(xs) - 1)}]
    return min(cs), max(cs)


def g_value(node, io, vi, real_comp=None):
    """the tabulated / constant parameter of the kind at the operating point (|io|, |vi|)"""
    key = TABLE_PARAM.get(node.K)
    if key is None: return 0.0, None
    v = node.P.get(key, 0.0)
    if isinstance(v, dict):
        if len(v["vi"]) == 1:
            return interp_1d(v["io"], v[key][0], io), None
        rng = cell_range_2d(v, key, io, vi)
        if real_comp is None: return (rng[0] + rng[1]) / 2, rng
        return float(real_comp._ipr._interp(abs(io), abs(vi))), rng      # 2-D value inside a cell: assumed of scipy, range-checked
    return v, None


# ------------------------------------------------------------------------------------------------ table access
def rows_by_key(df):
    cols = list(df.columns)
    out = collections.OrderedDict(); dup = []
    for _, r in df.iterrows():
        k = (r["Component"], r["Phase"] if "Phase" in cols else "")
        if k in out: dup.append(k)
        out[k] = r
    return out, dup


def num(x):
    return float(x) if x != "" else None


class Blank(Exception):
    pass


def fl(x):
    """numeric cell that must not be blank"""
    if isinstance(x, str):
        raise Blank("blank / non-numeric cell %r where a number is required" % (x,))
    return float(x)


def inactive(node, ph):
    return bool(node.pc) and ph not in node.pc


def select_parent(model, node, rows, ph):
    """C05: the first declared input that is live (non-zero output voltage); None if no input is live"""
    for p in node.parents:
        r = rows.get((p, ph))
        if r is not None and float(r["Vout (V)"]) != 0.0:
            return p
    return None


def check_table(model, df, sys_=None, ta=25.0, energy=False, phase_arg="", tol=REL):
    """row-wise + aggregate run-time postcondition of solve() (C01, C02, C04, C05, C06, C07, C09).  -> list of Fail"""
    try:
        return _check_table(model, df, sys_, ta, energy, phase_arg, tol)
    except Blank as b:
        return [fail("table.blank", "solve() table malformed: %s" % b, ["C01", "C02", "C07", "C16"])]


def _check_table(model, df, sys_=None, ta=25.0, energy=False, phase_arg="", tol=REL):
    F = []
    cols = list(df.columns)
    rows, dup = rows_by_key(df)
    if dup: F.append(fail("rows.duplicate", "duplicate rows %s" % dup[:3], ["C01", "C16"]))
    phases = list(model.phases) if model.phases else [""]
    if phase_arg: phases = [phase_arg]
    nsrc = len(model.sources())
    has_rails = any(n.rail for n in model.nodes.values())
    pcol = "Rail in" if has_rails else "Parent"
    if pcol not in cols: F.append(fail("cols.parent", "column %s missing" % pcol, ["C01", "C08"])); return F
    has_temp = "Temp. rise (°C)" in cols
    expect_names = set()
    FOt = S.FloatOps(tol, ABS)
    def cl(a, b): return close(a, b, tol, ABS)
    totals = {}
    for ph in phases:
        dom = {}; sel = {}
        order = model.topo()
        for name in order:
            node = model.nodes[name]
            expect_names.add((name, ph))
            r = rows.get((name, ph))
            if r is None:
                F.append(fail("rows.missing", "no row for component %s phase %r" % (name, ph), ["C01", "C16"])); continue
            if r["Type"] != node.type: F.append(fail("rows.type", "%s: Type %s != %s" % (name, r["Type"], node.type), ["C16"]))
            vin, vout, iin, iout = fl(r["Vin (V)"]), fl(r["Vout (V)"]), fl(r["Iin (A)"]), fl(r["Iout (A)"])
            pw, ls, ef = fl(r["Power (W)"]), fl(r["Loss (W)"]), fl(r["Efficiency (%)"])
            for x in (vin, vout, iin, iout, pw, ls, ef):
                if math.isnan(x) or math.isinf(x): F.append(fail("row.notfinite", "%s: NaN/inf in row" % name, ["C03"]))
            ina = inactive(node, ph)
            real = None
            if sys_ is not None and node.table is not None:
                try: real = sys_._g[sys_._g.attrs["nodes"][name]]
                except Exception: real = None
            # ---------------- neighbours
            if node.type == "SOURCE":
                sp = None; dom[name] = name
                vnom = 0.0 if ina else node.P["vo"]
                if not cl(vin, vnom): F.append(fail("source.vin", "%s: Vin %g != nominal %g" % (name, vin, vnom), ["C01", "C07"]))
                off_in = False
            else:
                sp = select_parent(model, node, rows, ph); sel[name] = sp
                feed = sp if sp is not None else node.parents[0]
                pr = rows.get((feed, ph))
                if pr is not None and not cl(vin, fl(pr["Vout (V)"])):
                    F.append(fail("row.vin", "%s [%s]: Vin %g != Vout %g of the feeding component %s" % (name, ph, vin, fl(pr["Vout (V)"]), feed), ["C01", "C05"] if len(node.parents) > 1 else ["C01"]))
                dom[name] = dom.get(feed, "?")
                off_in = sp is None
                if sp is not None or len(node.parents) == 1:
                    exp_parent = (model.nodes[feed].rail if has_rails else feed)
                    if r[pcol] != exp_parent:
                        F.append(fail("row.parent", "%s [%s]: %s column %r != %r (the component that feeds it)" % (name, ph, pcol, r[pcol], exp_parent), ["C05", "C08", "C01"]))
            if nsrc > 1 and "Domain" in cols and (node.type == "SOURCE" or sp is not None or len(node.parents) == 1):
                if r["Domain"] != dom[name]:
                    F.append(fail("row.domain", "%s [%s]: Domain %r != %r (the source that powers it)" % (name, ph, r["Domain"], dom[name]), ["C07", "C05", "C16"]))
            kids = [c for c in model.children(name)]
            isum = 0.0
            for c in kids:
                cn = model.nodes[c]
                csel = select_parent(model, cn, rows, ph) if len(cn.parents) > 1 else name
                cr = rows.get((c, ph))
                if cr is not None and csel == name: isum += fl(cr["Iin (A)"])
            if not cl(iout, isum):
                F.append(fail("row.iout", "%s [%s]: Iout %g != sum of the input currents of the children it feeds %g" % (name, ph, iout, isum), ["C01", "C05", "C04"]))
            # ---------------- laws
            K, P = node.K, node.P
            dead_in = (vin == 0.0)
            g, rng = g_value(node, iout, vin, real)
            if rng is not None and not (rng[0] - 1e-9 <= g <= rng[1] + 1e-9):
                F.append(fail("table.range", "%s: interpolated value %g outside the cell's corner range %s" % (name, g, rng), ["C10"]))
            r_sel = None
            if K == "PMux":
                rsv = P["rs"]
                if isinstance(rsv, list):
                    idx = node.parents.index(sp) if sp is not None else 0
                    r_sel = rsv[idx] if idx < len(rsv) else 0.0
                else: r_sel = rsv
            vol = S.vo_law(FOt, K, P, P["vo"] if K == "Source" else vin, iout, g, False if K != "Source" else False, ina, r_sel=r_sel)
            if K != "Source" and (dead_in or off_in):
                exp_vo, exp_raise = 0.0, False
            else:
                exp_vo, exp_raise = vol["value"], vol["raises"]
            known_d2 = (K == "Source" and P["vo"] < 0 and P["rs"] > 0)
            if exp_raise and not known_d2:
                F.append(fail("row.unstable", "%s [%s]: a row was returned although |Vin| - drop <= 0 (unstable)" % (name, ph), ["C03", "C01"]))
            elif not known_d2 and not cl(vout, exp_vo):
                F.append(fail("row.vout", "%s [%s]: Vout %g != law %g (Vin %g, Iout %g)" % (name, ph, vout, exp_vo, vin, iout), ["C01", "C05"] if K == "PMux" else ["C01"]))
            if (K in S.SERIES or K == "Source") and vout != 0.0 and not known_d2:
                vref = P["vo"] if K == "Source" else vin
                if abs(vout) > abs(vref) * (1 + tol) + ABS or ((vout > 0) != (vref > 0) and not K.startswith("Rectifier")):
                    F.append(fail("row.polarity", "%s [%s]: output %g inverted/amplified w.r.t. input %g" % (name, ph, vout, vref), ["C03", "C11"]))
            pcn = bool(node.pc); pcc = (ph in node.pc) if pcn else False
            pcv = (node.pc[ph] if (pcc and isinstance(node.pc, dict)) else 0.0)
            exp_ii = S.ii_law(FOt, K, P, P["vo"] if K == "Source" else vin, iout, g, off_in if K != "Source" else False, ina,
                              pc_nonempty=pcn, pc_contains=pcc, pc_value=pcv)
            if not cl(iin, exp_ii):
                F.append(fail("row.iin", "%s [%s]: Iin %g != law %g (Vin %g, Iout %g)" % (name, ph, iin, exp_ii, vin, iout), ["C01", "C06"] if node.type == "LOAD" else ["C01"]))
            # ---------------- dead supply (C04)
            if K != "Source" and (dead_in or off_in):
                if not (vout == 0.0 and iin == 0.0 and pw == 0.0 and ls == 0.0 and iout == 0.0):
                    F.append(fail("row.dead", "%s [%s]: supply is at 0 V but row is not all-zero (Vout %g Iin %g P %g L %g)" % (name, ph, vout, iin, pw, ls), ["C04", "C05"]))
            elif K in S.PHASED and K != "Source" and ina and not dead_in:
                sleepp = P["iis"] * abs(vin)
                if not (vout == 0.0 and cl(iin, P["iis"]) and cl(pw, sleepp) and cl(ls, sleepp)):
                    F.append(fail("row.inactive", "%s [%s]: inactive element must output 0 V and draw exactly its sleep current (Vout %g Iin %g P %g L %g)" % (name, ph, vout, iin, pw, ls), ["C04", "C06"]))
            # ---------------- accounting (C02)
            acc = S.pwr_law(FOt, K, P, vin, vout, iin, iout, g, ta, ina)
            slack = 20 * (2e-6)
            if not known_d2:
                if not cl(pw, acc["pwr"]) or not close(ls, acc["loss"], tol, ABS + 20 * tol * abs(pw)):
                    F.append(fail("row.accounting", "%s [%s]: Power/Loss %g/%g != documented %g/%g" % (name, ph, pw, ls, acc["pwr"], acc["loss"]), ["C02"]))
                if node.type != "LOAD":
                    if not close(pw - ls, abs(vout) * iout, tol, 1e-6 * max(1.0, pw)):
                        F.append(fail("row.balance", "%s [%s]: Power-Loss %g != |Vout|*Iout %g" % (name, ph, pw - ls, abs(vout) * iout), ["C02"]))
                    if ls < -slack * max(pw, 1e-3) or ls > pw * (1 + slack) + ABS:
                        F.append(fail("row.lossrange", "%s [%s]: Loss %g outside [0, Power %g]" % (name, ph, ls, pw), ["C02", "C11"]))
                    if pw > 0:
                        if not close(ef, 100 * (pw - ls) / pw, tol, 100 * tol) or ef > 100 * (1 + slack) or ef < -slack:
                            F.append(fail("row.eff", "%s [%s]: Efficiency %g != 100*(P-L)/P %g" % (name, ph, ef, 100 * (pw - ls) / pw), ["C02", "C11"]))
                else:
                    if pw != 0.0 and ls != 0.0: F.append(fail("row.loadboth", "%s: load reports both Power and Loss" % name, ["C02"]))
            if has_temp:
                trv, tpv = r["Temp. rise (°C)"], r["Peak temp. (°C)"]
                if node.type == "SOURCE":
                    if trv != "" or tpv != "": F.append(fail("row.srctemp", "%s: source has temperature cells" % name, ["C02"]))
                elif trv == "" or tpv == "":
                    pass        # temperature columns are blank in a phase where no component has a temperature rise
                else:
                    exp_tr = P["rt"] * (ls if node.type != "LOAD" else (abs(vin) * abs(iin)))     # loads: D18 pinned (rise follows consumption)
                    if not close(float(trv), exp_tr, tol, ABS + 20 * tol * abs(pw) * P["rt"]): F.append(fail("row.trise", "%s [%s]: Temp. rise %g != rt*Loss %g" % (name, ph, float(trv), exp_tr), ["C02"]))
                    if not close(float(tpv), ta + float(trv), tol, 1e-9): F.append(fail("row.tpeak", "%s [%s]: Peak temp. %g != ambient %g + rise %g" % (name, ph, float(tpv), ta, float(trv)), ["C02"]))
            # ---------------- warnings (C09)
            F.extend(check_warnings(node, r, ph, vin, vout, iin, iout, pw, ls, ta, has_temp))
            # ---------------- energy (C07)
            if energy and "24h energy (Wh)" in cols:
                exp_e = energy_of(model, ph, pw)
                if not cl(fl(r["24h energy (Wh)"]), exp_e): F.append(fail("row.energy", "%s [%s]: 24h energy %g != %g" % (name, ph, fl(r["24h energy (Wh)"]), exp_e), ["C07"]))
            for cname, val, tag in (("Group", node.group, "group"), ("Rail out", node.rail, "railout")):
                if cname in cols and r[cname] != val: F.append(fail("row." + tag, "%s: %s %r != %r" % (name, cname, r[cname], val), ["C16", "C08"]))
        # ---------------- aggregates (C07, C09 roll-up, C02 system balance)
        comp_rows = [(n, rows[(n, ph)]) for n in order if (n, ph) in rows]
        srcp = sum(fl(r["Power (W)"]) for n, r in comp_rows if model.nodes[n].type == "SOURCE")
        loadp = sum(fl(r["Power (W)"]) for n, r in comp_rows if model.nodes[n].type == "LOAD")
        losses = sum(fl(r["Loss (W)"]) for n, r in comp_rows)
        d2 = any(model.nodes[n].K == "Source" and model.nodes[n].P["vo"] < 0 and model.nodes[n].P["rs"] > 0 for n in order)
        if not d2 and not close(srcp, loadp + losses, tol, 1e-6 * max(1.0, srcp)):
            F.append(fail("sys.balance", "[%s] power from sources %g != load power %g + losses %g" % (ph, srcp, loadp, losses), ["C02"]))
        anywarn = any(r["Warnings"] != "" for n, r in comp_rows)
        tr_ = rows.get(("System total", ph))
        if tr_ is None: F.append(fail("total.missing", "no System total row [%s]" % ph, ["C07"]))
        else:
            tp_, tl_ = fl(tr_["Power (W)"]), fl(tr_["Loss (W)"])
            if not cl(tp_, srcp) or not cl(tl_, losses): F.append(fail("total.sums", "[%s] System total %g/%g != sum of source powers %g / all losses %g" % (ph, tp_, tl_, srcp, losses), ["C07", "C02"]))
            te = fl(tr_["Efficiency (%)"])
            if tp_ > 0 and (not close(te, 100 * (tp_ - tl_) / tp_, tol, 100 * tol) or te > 100 * (1 + 1e-4)): F.append(fail("total.eff", "[%s] total efficiency %g" % (ph, te), ["C07"]))
            if (tr_["Warnings"] == "Yes") != anywarn: F.append(fail("total.warn", "[%s] System total warning %r but component warnings %s" % (ph, tr_["Warnings"], anywarn), ["C09"]))
            if energy and "24h energy (Wh)" in cols and not cl(fl(tr_["24h energy (Wh)"]), energy_of(model, ph, tp_)): F.append(fail("total.energy", "[%s] total energy" % ph, ["C07"]))
            totals[ph] = (tp_, tl_, te, fl(tr_["24h energy (Wh)"]) if (energy and "24h energy (Wh)" in cols) else None)
        if nsrc > 1:
            for s_ in model.sources():
                sr = rows.get(("Subsystem " + s_, ph)); srow = rows.get((s_, ph))
                if sr is None: F.append(fail("sub.missing", "no Subsystem row for %s [%s]" % (s_, ph), ["C07"])); continue
                members = [r for n, r in comp_rows if dom.get(n) == s_]
                ml = sum(fl(r["Loss (W)"]) for r in members)
                if not cl(fl(sr["Loss (W)"]), ml): F.append(fail("sub.loss", "[%s] Subsystem %s loss %g != sum over the components it powers %g" % (ph, s_, fl(sr["Loss (W)"]), ml), ["C07", "C16"]))
                if srow is not None:
                    if not cl(fl(sr["Power (W)"]), fl(srow["Power (W)"])) or not cl(fl(sr["Iout (A)"]), fl(srow["Iout (A)"])) or not cl(fl(sr["Vin (V)"]), fl(srow["Vin (V)"])):
                        F.append(fail("sub.source", "[%s] Subsystem %s voltage/current/power differ from its source row" % (ph, s_), ["C07"]))
                if energy and "24h energy (Wh)" in cols and srow is not None and sr["24h energy (Wh)"] != "":
                    if not cl(fl(sr["24h energy (Wh)"]), energy_of(model, ph, fl(srow["Power (W)"]))):
                        F.append(fail("sub.energy", "[%s] Subsystem %s 24h energy %g != power x the phase's share of 24 h %g" % (ph, s_, fl(sr["24h energy (Wh)"]), energy_of(model, ph, fl(srow["Power (W)"]))), ["C07"]))
                mw = any(r["Warnings"] != "" for r in members)
                if (sr["Warnings"] == "Yes") != mw: F.append(fail("sub.warn", "[%s] Subsystem %s warning %r but members' warnings %s" % (ph, s_, sr["Warnings"], mw), ["C09", "C07"]))
                expect_names.add(("Subsystem " + s_, ph))
        expect_names.add(("System total", ph))
    if len(phases) > 1:
        av = rows.get(("System average", "")) if ("System average", "") in rows else next((r for (n, p), r in rows.items() if n == "System average"), None)
        if av is None: F.append(fail("avg.missing", "no System average row", ["C07"]))
        elif all(p in totals for p in phases):
            T = sum(model.phases[p] for p in phases)
            ap = sum(totals[p][0] * model.phases[p] for p in phases) / T; al = sum(totals[p][1] * model.phases[p] for p in phases) / T
            ae = sum(totals[p][2] * model.phases[p] for p in phases) / T
            if not cl(fl(av["Power (W)"]), ap) or not cl(fl(av["Loss (W)"]), al) or not close(fl(av["Efficiency (%)"]), ae, tol, 100 * tol):
                F.append(fail("avg.mean", "System average %g/%g/%g != duration-weighted means %g/%g/%g" % (fl(av["Power (W)"]), fl(av["Loss (W)"]), fl(av["Efficiency (%)"]), ap, al, ae), ["C07"]))
            if energy and "24h energy (Wh)" in cols:
                se = sum(totals[p][3] for p in phases)
                if not cl(fl(av["24h energy (Wh)"]), se) or not cl(fl(av["24h energy (Wh)"]), 24.0 * ap):
                    F.append(fail("avg.energy", "per-phase energies %g do not add up to the energy of the average %g" % (se, fl(av["24h energy (Wh)"])), ["C07"]))
        for k in list(rows):
            if k[0] == "System average": expect_names.add(k)
    extra = [k for k in rows if k not in expect_names]
    if extra: F.append(fail("rows.extra", "unexpected rows %s" % extra[:3], ["C01", "C16"]))
    return F


def energy_of(model, ph, pwr):
    if ph == "": return pwr * 24.0
    T = sum(model.phases.values())
    return pwr * 24.0 * model.phases[ph] / T


def check_warnings(node, r, ph, vin, vout, iin, iout, pw, ls, ta, has_temp):
    """C09: the Warnings cell names exactly the exceeded applicable limits (boundary cases within solver tolerance skipped)"""
    F = []
    got = set(str(r["Warnings"]).replace(",", " ").split())
    gated = node.type not in ("SOURCE", "SLOSS", "RECTIFIER") and bool(node.pc) and ph not in node.pc
    if gated:
        if got: F.append(fail("warn.gated", "%s [%s]: warnings %s although the phase is not in its configuration" % (node.name, ph, got), ["C09"]))
        return F
    if node.type == "SOURCE":
        tr = tp = 0.0
    else:
        tr = node.P["rt"] * (ls if node.type != "LOAD" else abs(vin) * abs(iin)); tp = ta + tr
        if not (abs(vin) > 0):      # dead: D17 fixed -> ambient
            tp = ta
    q = S.quantities(S.FloatOps(), vin, vout, iin, iout, pw, ls, tr, tp)
    if node.type == "SOURCE" and bool(node.pc) and ph not in node.pc:
        q["io"] = iout
    DEF = {k: [0.0, 1e6] for k in S.ALL_KEYS}; DEF["tp"] = [-1e6, 1e6]
    for k in node.limit_keys():
        lo, hi = node.limits.get(k, DEF[k])
        x = q[k]
        edge = any(close(abs(x) if k != "tp" else x, abs(b) if k != "tp" else b, 1e-4, 1e-9) for b in (lo, hi))
        if edge: continue
        exp = (x > hi or x < lo) if k == "tp" else (abs(x) > abs(hi) or abs(x) < abs(lo))
        if exp != (k in got):
            F.append(fail("warn.key", "%s [%s]: limit %s=[%g,%g], quantity %g: warning %s but cell is %r" % (node.name, ph, k, lo, hi, x, "expected" if exp else "not expected", r["Warnings"]), ["C09"]))
    stray = got - set(node.limit_keys())
    if stray: F.append(fail("warn.stray", "%s: warnings %s not applicable to its kind" % (node.name, stray), ["C09"]))
    return F


def nontrivial(df):
    try:
        return bool((df[df["Type"] == "LOAD"]["Iin (A)"].astype(float) > 0).any())
    except Exception:
        return False
