"""Layer B generator: seeded random power trees / edit operations as *recipes* (plain data, replayable) together with an
independent structural reference model (bounded/model.py).  Parameters come from grids chosen so that a steady state with
modest series drops exists unless a case is deliberately over-loaded."""
import math, random, copy, json, warnings, os, sys
warnings.filterwarnings("ignore")

SRC = os.environ.get("SYSLOSS_SRC")
if SRC and SRC not in sys.path:
    sys.path.insert(0, SRC)

INNER = ["Converter", "LinReg", "RLoss", "VLoss", "PSwitch", "RectD", "RectM"]
LEAF = ["PLoad", "ILoad", "RLoad"]
CLASS_OF = {"RectD": "Rectifier", "RectM": "Rectifier"}
PHASED_KINDS = ("Source", "Converter", "LinReg", "PSwitch", "PMux")
LIMKEYS = ["vi", "vo", "vd", "ii", "io", "pi", "po", "pl", "tr", "tp"]


def cls_name(kind):
    return CLASS_OF.get(kind, kind)


def make_comp(spec):
    import sysloss.components as C
    return getattr(C, cls_name(spec["kind"]))(spec["name"], **copy.deepcopy(spec["args"]))


def table_1d(rnd, key, lo, hi, n=None):
    n = n or rnd.randint(2, 4)
    io = sorted(rnd.sample([0.0, 0.001, 0.01, 0.05, 0.1, 0.5, 1.0, 2.0], n))
    row = [round(rnd.uniform(lo, hi), 4) for _ in io]
    if rnd.random() < 0.15: io, row = [-x for x in io[::-1]], row[::-1]       # the current axis of a negative rail written with its sign (still strictly increasing)
    return {"vi": [rnd.choice([3.3, 5.0, 12.0])], "io": io, key: [row]}


def table_2d(rnd, key, lo, hi):
    ni, nv = rnd.randint(2, 4), rnd.randint(2, 3)
    io = sorted(rnd.sample([0.0, 0.001, 0.01, 0.05, 0.1, 0.5, 1.0, 2.0], ni))
    vi = sorted(rnd.sample([2.5, 3.3, 5.0, 9.0, 12.0, 24.0], nv))
    form = rnd.random()
    if form < 0.12:      # each row flat over io, rows differ (parameter depends on vi only)
        rows = [[round(rnd.uniform(lo, hi), 4)] * ni for _ in vi]
    elif form < 0.24:    # each column flat over vi (parameter depends on io only)
        col = [round(rnd.uniform(lo, hi), 4) for _ in io]; rows = [list(col) for _ in vi]
    else:
        rows = [[round(rnd.uniform(lo, hi), 4) for _ in io] for _ in vi]
    if rnd.random() < 0.2: vi = [-v for v in vi]           # the voltage axis of a negative rail written with its sign
    if rnd.random() < 0.15: vi, rows = vi[::-1], rows[::-1]  # descending rows
    if rnd.random() < 0.1: io, rows = [-x for x in io[::-1]], [r[::-1] for r in rows]
    return {"vi": vi, "io": io, key: rows}


def maybe_table(rnd, key, lo, hi, const, p_table):
    r = rnd.random()
    if r < p_table / 2: return table_1d(rnd, key, lo, hi)
    if r < p_table: return table_2d(rnd, key, lo, hi)
    return const


def rand_limits(rnd, p):
    if rnd.random() >= p: return None
    lim = {}
    for k in rnd.sample(LIMKEYS, rnd.randint(1, 4)):
        if k == "tp": lim[k] = rnd.choice([[-40.0, 85.0], [0.0, 30.0], [-10.0, 26.0], [31.0, 1000.0]])
        elif k == "tr": lim[k] = rnd.choice([[0.0, 0.5], [0.0, 50.0], [0.001, 1e6]])
        elif k in ("vi", "vo"): lim[k] = rnd.choice([[0.0, 4.0], [0.0, 10.0], [3.0, 13.0], [-6.0, 1e6], [0, 100], [-4.5, -5.5], [-2.0, -13.0]])     # limits of a negative rail written with their sign: compared by magnitude
        elif k == "vd": lim[k] = rnd.choice([[0.0, 0.05], [0.0, 3.0], [0.5, 100.0]])
        elif k in ("ii", "io"): lim[k] = rnd.choice([[0.0, 0.005], [0.0, 0.05], [0.001, 5.0], [0.0, 100.0], [-0.001, -5.0]])
        else: lim[k] = rnd.choice([[0.0, 0.01], [0.0, 0.2], [0.05, 1e6], [0.0, 1000.0]])
    return lim


def _flag(rnd, p):
    """a boolean parameter as users pass it: mostly a python bool, now and then the int 0 / 1 (e.g. read from a table)"""
    f = rnd.random() < p
    return int(f) if rnd.random() < 0.2 else f


P_ZERO_OUT = 0.06


def comp_spec(rnd, kind, name, pol=1, p_table=0.0, p_limits=0.0, negsign=True):
    """args as a user would give them (negative signs allowed for magnitudes: C11 normalisation)"""
    sg = (lambda x: -x if (negsign and rnd.random() < 0.15) else x)
    ch = rnd.choice
    if kind == "Source":
        args = {"vo": pol * ch([3.3, 5.0, 9.0, 12.0, 24.0]), "rs": ch([0.0, 0.01, 0.05]) if pol > 0 else 0.0}
    elif kind == "Converter":
        args = {"vo": ch([1.8, 3.3, 5.0]) * ch([1, 1, 1, -1]), "eff": maybe_table(rnd, "eff", 0.6, 1.0, round(rnd.uniform(0.6, 1.0), 3), p_table),
                "iq": sg(ch([0.0, 1e-4])), "iis": sg(ch([0.0, 1e-5])), "rt": sg(ch([0.0, 20.0]))}
    elif kind == "LinReg":
        args = {"vo": ch([1.2, 2.5, 3.0]) * ch([1, 1, -1]), "vdrop": sg(ch([0.0, 0.2])), "ig": maybe_table(rnd, "ig", 0.0, 2e-3, sg(ch([0.0, 1e-3])), p_table),
                "iis": sg(ch([0.0, 1e-5])), "rt": sg(ch([0.0, 30.0]))}
    elif kind == "RLoss":
        args = {"rs": sg(ch([0.0, 0.05, 0.1])), "rt": sg(ch([0.0, 5.0]))}
    elif kind == "VLoss":
        args = {"vdrop": maybe_table(rnd, "vdrop", 0.0, 0.2, sg(ch([0.0, 0.05, 0.1])), p_table), "rt": sg(ch([0.0, 5.0]))}
    elif kind == "PSwitch":
        args = {"rs": sg(ch([0.0, 0.05])), "ig": maybe_table(rnd, "ig", 0.0, 2e-4, sg(ch([0.0, 1e-4])), p_table), "iis": sg(ch([0.0, 1e-6])), "rt": sg(ch([0.0, 5.0]))}
    elif kind == "PMux":
        args = {"rs": sg(ch([0.0, 0.02, 0.05])), "ig": maybe_table(rnd, "ig", 0.0, 2e-4, sg(ch([0.0, 1e-5])), p_table), "iis": sg(ch([0.0, 1e-6])), "rt": sg(ch([0.0, 5.0]))}
    elif kind == "RectD":
        args = {"vdrop": maybe_table(rnd, "vdrop", 0.02, 0.15, sg(ch([0.05, 0.1])), p_table), "rt": sg(ch([0.0, 5.0]))}
    elif kind == "RectM":
        args = {"rs": sg(ch([0.0, 0.02])), "ig": maybe_table(rnd, "ig", 0.0, 2e-4, sg(ch([0.0, 1e-4])), p_table), "iq": sg(ch([0.0, 1e-5])), "rt": sg(ch([0.0, 5.0]))}
    elif kind == "PLoad":
        args = {"pwr": sg(ch([0.01, 0.1, 0.05])), "pwrs": sg(ch([0.0, 1e-4])), "rt": sg(ch([0.0, 10.0])), "loss": _flag(rnd, 0.3)}
    elif kind == "ILoad":
        args = {"ii": sg(ch([0.001, 0.02, 0.01])), "iis": sg(ch([0.0, 1e-5])), "rt": sg(ch([0.0, 10.0])), "loss": _flag(rnd, 0.3)}
    elif kind == "RLoad":
        args = {"rs": sg(ch([100.0, 1000.0, 470.0])), "rt": sg(ch([0.0, 10.0])), "loss": _flag(rnd, 0.3)}
    else:
        raise KeyError(kind)
    # live-but-0-V output: a regulator whose drop-out voltage exceeds most supplies of the generator's range (on, yet delivering 0 V).
    # Converters set to 0 V are outside the properties' domain ("regulated outputs non-zero", C01) and are not generated.
    if kind == "LinReg" and rnd.random() < 0.12:
        # the deprecated iq keyword (scalar or table keyed 'iq') instead of ig
        ig = args.pop("ig")
        args["iq"] = {("iq" if k_ == "ig" else k_): v_ for k_, v_ in ig.items()} if isinstance(ig, dict) else ig
    if kind == "LinReg" and rnd.random() < P_ZERO_OUT: args["vo"], args["vdrop"] = math.copysign(24.0, args["vo"]), 20.0
    lim = rand_limits(rnd, p_limits)
    if lim is not None: args["limits"] = lim
    return {"kind": kind, "name": name, "args": args}


DEFAULT_OPTS = dict(p_names=0.15, max_nodes=8, max_depth=4, n_sources=(1, 1), p_neg=0.2, p_mux=0.0, p_table=0.0, p_limits=0.0, p_phases=0.0, p_rails=0.0,
                    p_groups=0.0, p_dead_source=0.05, p_byrail=0.0, negsign=True, mux_inputs=(1, 4), p_rs_list=0.5)


def random_system(rnd, **opts):
    """-> recipe dict {'ops': [...]} describing a well-formed system (public-API calls in order)"""
    o = dict(DEFAULT_OPTS); o.update(opts)
    ops = []
    nsrc = rnd.randint(*o["n_sources"])
    pol = -1 if rnd.random() < o["p_neg"] else 1
    nodes = []      # (name, kind, depth, rail)
    def rail_for(name, kind):
        return ("R_" + name) if (kind not in LEAF and rnd.random() < o["p_rails"]) else ""
    def group_for():
        return rnd.choice(["g1", "g2", ""]) if rnd.random() < o["p_groups"] else ""
    src_names = ["S%d" % k for k in range(nsrc)]
    if rnd.random() < o.get("p_names", 0.15): src_names = rnd.choice([["5V", "15V", "115V"], ["Vin", "Vin2", "Vin 3"], ["bat", "bat-b", "a/bat"]])[:nsrc]
    for k in range(nsrc):
        sp = comp_spec(rnd, "Source", src_names[k], pol, negsign=o["negsign"], p_limits=o["p_limits"])
        if rnd.random() < o["p_dead_source"]: sp["args"]["vo"] = 0.0
        rail = rail_for(sp["name"], "Source")
        ops.append({"op": "system" if k == 0 else "add_source", "comp": sp, "group": group_for(), "rail": rail})
        nodes.append((sp["name"], "Source", 0, rail))
    n = rnd.randint(2, o["max_nodes"])
    have_mux = False
    for k in range(n):
        cand = [x for x in nodes if x[1] not in LEAF and x[2] < o["max_depth"]]
        leaf = (k > n // 2 or rnd.random() < 0.35)
        if (not have_mux) and rnd.random() < o["p_mux"] and not leaf:
            kk = rnd.randint(o["mux_inputs"][0], min(o["mux_inputs"][1], len(cand)))
            pars = rnd.sample(cand, kk)
            sp = comp_spec(rnd, "PMux", "MX", pol, o["p_table"], o["p_limits"], o["negsign"])
            if rnd.random() < o["p_rs_list"]:
                sp["args"]["rs"] = [rnd.choice([0.0, 0.01, 0.05, -0.02]) for _ in pars]
            rail = rail_for("MX", "PMux")
            pref = [(p[3] if (p[3] and rnd.random() < o["p_byrail"]) else p[0]) for p in pars]
            ops.append({"op": "add_comp", "parent": pref if (kk > 1 or rnd.random() < 0.5) else pref[0], "comp": sp, "group": group_for(), "rail": rail})
            nodes.append(("MX", "PMux", max(p[2] for p in pars) + 1, rail)); have_mux = True
            continue
        par = rnd.choice(cand)
        kind = rnd.choice(LEAF if leaf else INNER)
        name = "%s%d" % (kind, k)
        if rnd.random() < o.get("p_names", 0.15): name = rnd.choice(["System %s%d", "Sys.%s-%d", "%s %d (main)", "Subsys_%s%d", "Subsystem %s%d", "System total %s%d"]) % (kind, k)
        sp = comp_spec(rnd, kind, name, pol, o["p_table"], o["p_limits"], o["negsign"])
        rail = rail_for(name, kind)
        pref = par[3] if (par[3] and rnd.random() < o["p_byrail"]) else par[0]
        ops.append({"op": "add_comp", "parent": pref, "comp": sp, "group": group_for(), "rail": rail})
        nodes.append((name, kind, par[2] + 1, rail))
    # every non-leaf end gets at least a chance of a load so currents flow
    r_ph = rnd.random()
    if r_ph >= o["p_phases"] and rnd.random() < o.get("p_orphan_conf", 0.08):
        # component phase configurations although the system has no load phases (set before the plan, or after it was cleared)
        for (name, kind, _, _) in nodes:
            if rnd.random() < 0.6: continue
            if kind in PHASED_KINDS: conf = rnd.choice([["a"], ["a", "b"]])
            elif kind == "PLoad": conf = {"a": 0.03}
            elif kind == "ILoad": conf = {"a": 0.004}
            else: continue
            ops.append({"op": "set_comp_phases", "name": name, "conf": conf})
    if r_ph < o["p_phases"]:
        phases = rnd.choice([{"a": 10.0, "b": 1.0}, {"a": 10.0, "b": 1.0, "c": 100.0}, {"sleep": 3600.0, "rx": 2.5, "tx": 0.5}])
        r_ = rnd.random()
        if r_ < o.get("p_oddphases", 0.12) / 2: phases = rnd.choice([{"a": 10.0, "b": 0.0, "c": 5.0}, {"on": 60, "off": 0}])          # a phase switched out of the duty cycle (duration 0), int durations
        elif r_ < o.get("p_oddphases", 0.12): phases = rnd.choice([{"sleep": 302400.0, "tx": 90.0}, {"a": 86400.0, "b": 86400.0}, {"tx": 2.0, "TX": 5.0, "Tx": 1.0}])       # one load cycle longer than a day; names differing by case only
        ops.append({"op": "set_sys_phases", "phases": phases})
        pn = list(phases)
        ghost = o.get("p_ghost", 0.12)
        for (name, kind, _, _) in nodes:
            if rnd.random() < 0.5: continue
            if kind in PHASED_KINDS or kind in ("RectD", "RectM") and rnd.random() < 0.3:
                conf = rnd.sample(pn, rnd.randint(1, len(pn) - 1))
                g_ = rnd.random()
                if g_ < ghost / 2: conf = ["zz"] if rnd.random() < 0.5 else ["zz", "yy"]        # names no phase of the plan carries: active in none of the defined phases
                elif g_ < ghost: conf = conf + ["zz"]
            elif kind == "PLoad": conf = {p: rnd.choice([0.02, 0.2, 0.001, 0.02, 0.0]) for p in rnd.sample(pn, rnd.randint(1, len(pn)))}
            elif kind == "ILoad": conf = {p: rnd.choice([0.005, 0.002, 0.01, 0.005, 0.0]) for p in rnd.sample(pn, rnd.randint(1, len(pn)))}
            elif kind == "RLoad": conf = {p: rnd.choice([220.0, 50.0, 5000.0]) for p in rnd.sample(pn, rnd.randint(1, len(pn)))}
            else: continue
            if isinstance(conf, dict) and rnd.random() < ghost: conf = dict(conf, zz=0.05 if kind != "RLoad" else 330.0)
            ops.append({"op": "set_comp_phases", "name": name, "conf": conf})
    return {"ops": ops}


def apply_op(sys_, op):
    """execute one recipe op on the real System (public API).  Returns the new System for 'system'."""
    from sysloss.system import System
    k = op["op"]
    if op.get("werror"):       # the caller runs with warnings turned into errors (python -W error): a warning issued by the call raises
        import warnings
        op2 = {a: b for a, b in op.items() if a != "werror"}
        comp = make_comp(op2["comp"]) if "comp" in op2 else None
        with warnings.catch_warnings():
            warnings.simplefilter("error")
            if k == "add_comp": sys_.add_comp(copy.deepcopy(op["parent"]), comp=comp, group=op.get("group", ""), rail=op.get("rail", ""))
            elif k == "change_comp": sys_.change_comp(op["name"], comp=comp, group=op.get("group", ""), rail=op.get("rail", ""))
            else: return apply_op(sys_, op2)
        return sys_
    if k == "system":
        return System(op.get("sysname", "sys"), make_comp(op["comp"]), group=op.get("group", ""), rail=op.get("rail", ""))
    if k == "add_source":
        sys_.add_source(make_comp(op["comp"]), group=op.get("group", ""), rail=op.get("rail", ""))
    elif k == "add_comp":
        sys_.add_comp(copy.deepcopy(op["parent"]), comp=make_comp(op["comp"]), group=op.get("group", ""), rail=op.get("rail", ""))
    elif k == "change_comp":
        sys_.change_comp(op["name"], comp=make_comp(op["comp"]), group=op.get("group", ""), rail=op.get("rail", ""))
    elif k == "del_comp":
        sys_.del_comp(op["name"], del_childs=op.get("del_childs", True))
    elif k == "set_sys_phases":
        sys_.set_sys_phases(copy.deepcopy(op["phases"]))
    elif k == "set_comp_phases":
        sys_.set_comp_phases(op["name"], copy.deepcopy(op["conf"]))
    else:
        raise KeyError(k)
    return sys_


def build(recipe, strict=True):
    """-> (System, log) ; log = [(op index, exception type name or None)]"""
    s, log = None, []
    for i, op in enumerate(recipe["ops"]):
        try:
            s = apply_op(s, op)
            log.append((i, None))
        except Exception as e:
            if strict: raise
            log.append((i, type(e).__name__))
    return s, log


def short(recipe):
    out = []
    for op in recipe["ops"]:
        if "comp" in op:
            c = op["comp"]; a = {k: ("table" if isinstance(v, dict) and k != "limits" else v) for k, v in c["args"].items()}
            out.append("%s %s<-%s %s(%s)" % (op["op"], c["name"], op.get("parent", op.get("name", "")), c["kind"], a))
        else:
            out.append(json.dumps(op))
    return out
