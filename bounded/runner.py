"""Layer B driver: runs oracle families over seeded recipes in a process pool; returns the res dict for Run.add_bounded."""
import os, sys, json, random, hashlib, warnings, traceback, multiprocessing as mp
warnings.filterwarnings("ignore")
from . import gen, oracle
from .model import Model

NPROC = min(16, os.cpu_count() or 4)


def _hash(obj):
    return hashlib.sha1(json.dumps(obj, sort_keys=True, default=str).encode()).hexdigest()[:16]


def table_case(args):
    """one generated system: build, solve, table oracle.  -> dict(failures, hash, nontrivial, sample)"""
    seed, idx, opts, props, solve_kw = args
    rnd = random.Random((seed * 1000003 + idx) & 0xFFFFFFFF)
    recipe = gen.random_system(rnd, **opts)
    out = {"hash": _hash(recipe), "failures": [], "nontrivial": False, "sample": None, "outcome": None}
    try:
        s, log = gen.build(recipe)
        m = Model.of(recipe)
    except Exception as e:
        out["failures"].append({"key": "gen.build", "text": "generator produced a recipe the API rejects: %s: %s" % (type(e).__name__, e), "props": [], "recipe": recipe, "fault": True})
        return out
    kw = dict(solve_kw or {})
    try:
        df = s.solve(**kw)
    except ValueError as e:
        out["outcome"] = "ValueError" if "Unstable" in str(e) else "ValueError?"
        if "Unstable" not in str(e):
            out["failures"].append({"key": "solve.valueerror", "text": "solve() raised ValueError(%s)" % e, "props": ["C03"], "recipe": recipe, "solve": kw})
        return out
    except RuntimeError as e:
        out["outcome"] = "RuntimeError"
        return out
    except Exception as e:
        out["failures"].append({"key": "solve.exception", "text": "solve() raised %s: %s" % (type(e).__name__, e), "props": ["C03", "C16"], "recipe": recipe, "solve": kw})
        return out
    out["outcome"] = "table"
    fs = oracle.check_table(m, df, s, ta=kw.get("ta", 25.0), energy=kw.get("energy", False), phase_arg=kw.get("phase", ""))
    for f in fs:
        if props is None or set(f["props"]) & set(props):
            f = dict(f); f["recipe"] = recipe; f["solve"] = kw
            out["failures"].append(f)
    out["nontrivial"] = oracle.nontrivial(df)
    if idx < 3:
        out["sample"] = {"system": gen.short(recipe)[:12], "verdict": "solved, %d rows, %d oracle failures" % (len(df), len(out["failures"]))}
    return out


CASE_TIMEOUT_S = float(os.environ.get("VERIF_CASE_TIMEOUT_S", "90"))


class _CaseTimeout(BaseException):
    pass


def _guarded(args):
    """one case under a wall-clock watchdog: a call into the package that does not come back (solve() / batt_life() must
    terminate) is reported as a failure of the case instead of hanging the check"""
    import signal
    fn, job = args
    def on_alarm(signum, frame): raise _CaseTimeout()
    old = signal.signal(signal.SIGALRM, on_alarm)
    signal.setitimer(signal.ITIMER_REAL, CASE_TIMEOUT_S)
    try:
        return fn(job)
    except _CaseTimeout:
        return {"hash": _hash(["timeout", fn.__name__, job]), "nontrivial": True, "sample": None, "outcome": "timeout",
                "failures": [{"key": "case.timeout", "text": "%s%r: a call into the package did not return within %g s (solve() and batt_life() must terminate)" % (fn.__name__, tuple(job) if isinstance(job, (list, tuple)) else job, CASE_TIMEOUT_S), "props": ["C03", "C18"]}]}
    except Exception:
        # an exception escaping a case is a fault of that case's harness (never a violation); it must not take the verdicts of
        # the other cases and of the P layer with it: recorded, reported as CHECKER-FAULT unless a violation is reported anyway
        import traceback
        return {"hash": _hash(["crash", fn.__name__, job]), "nontrivial": False, "sample": None, "outcome": "harness-crash", "failures": [],
                "crash": "%s%r: %s" % (fn.__name__, tuple(job) if isinstance(job, (list, tuple)) else job, traceback.format_exc()[-600:])}
    finally:
        signal.setitimer(signal.ITIMER_REAL, 0)
        signal.signal(signal.SIGALRM, old)


def run_pool(fn, jobs, nproc=None):
    nproc = nproc or NPROC
    if len(jobs) < 4 or nproc == 1:
        res = [_guarded((fn, j)) for j in jobs]
    else:
        ctx = mp.get_context("fork")
        with ctx.Pool(nproc) as pool:
            res = pool.map(_guarded, [(fn, j) for j in jobs], chunksize=max(1, len(jobs) // (nproc * 4)))
    for r, j in zip(res, jobs):
        for f in r.get("failures", []):
            f.setdefault("case", [fn.__module__, fn.__name__, list(j) if isinstance(j, (tuple, list)) else j])      # replayable: same function, same arguments
    return res


def summarize(results, rule, bound):
    seen, dn, fails, samples, outcomes = set(), 0, [], [], {}
    crashes = [r["crash"] for r in results if r.get("crash")]
    for r in results:
        if r["hash"] not in seen:
            seen.add(r["hash"])
            if r.get("nontrivial"): dn += 1
        fails.extend(r["failures"])
        if r.get("sample"): samples.append(r["sample"])
        outcomes[r.get("outcome")] = outcomes.get(r.get("outcome"), 0) + 1
    return {"evaluations": len(results), "distinct_nontrivial": dn, "failures": fails, "samples": samples, "rule": rule, "bound": bound, "outcomes": {str(k): v for k, v in outcomes.items()},
            **({"crashes": crashes[:5]} if crashes else {})}


def table_family(seed, n, opts, props, solve_kw=None, label="table"):
    jobs = [(seed, i, opts, props, solve_kw) for i in range(n)]
    res = summarize(run_pool(table_case, jobs),
                    "seeded random power trees (bounded/gen.py, opts %s); distinct by hash of the recipe; non-trivial = at least one load draws current" % json.dumps(opts, sort_keys=True),
                    "trees <= %d components + sources, depth <= %d, %s sources" % (opts.get("max_nodes", 8), opts.get("max_depth", 4), opts.get("n_sources", (1, 1))))
    return res
