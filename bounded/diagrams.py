"""Layer B oracle for C19: make_diag / make_hdiag read back through Graphviz' structured JSON output."""
import json, os, tempfile, copy, math, re, random, warnings
warnings.filterwarnings("ignore")
from . import gen, oracle
from .model import Model
from .runner import run_pool, summarize, _hash
from .families import _rnd, _solve_outcome

SI = {"p": 1e-12, "n": 1e-9, "u": 1e-6, "m": 1e-3, "": 1.0, "k": 1e3, "M": 1e6}


def parse_label_value(txt):
    """'1.23mW' / '456uW' / '0.0W' / '1.00e-14W' -> float"""
    t = txt.strip()
    if t.endswith("W"): t = t[:-1]
    m = re.fullmatch(r"([-+]?[0-9.]+(?:e[-+]?[0-9]+)?)([pnumkM]?)", t)
    if not m: return None
    return float(m.group(1)) * SI[m.group(2)]


def parse(j):
    objs = j.get("objects", [])
    nodes = {o["_gvid"]: o for o in objs if "nodes" not in o and "subgraphs" not in o and not o["name"].startswith("cluster_")}
    clusters = {o["name"]: o for o in objs if o["name"].startswith("cluster_")}
    edges = [(nodes[e["tail"]]["name"], nodes[e["head"]]["name"]) for e in j.get("edges", []) if e["tail"] in nodes and e["head"] in nodes]
    return nodes, clusters, edges, objs


def hex_mix(col):
    """position of a colour on the cold (#2120ff) -> warm (#ff1210) line, from the red channel"""
    r = int(col[1:3], 16)
    return (r - 0x21) / float(0xff - 0x21)


def diagram_case(args):
    import sysloss.diagram as D
    seed, idx = args
    rnd = _rnd(seed, idx)
    if idx % 3 == 1:
        from . import hist
        ops = copy.deepcopy(rnd.choice(hist.BASES)); shadow = Model.of({"ops": ops}); s_sh, _ = gen.build({"ops": ops})
        for i in range(5):
            op = hist.random_op(rnd, shadow, 300 + i)
            if op["op"] == "set_comp_phases" and not isinstance(op["conf"], (dict, list)): continue
            try:
                gen.apply_op(s_sh, copy.deepcopy(op)); shadow.apply(op); ops.append(op)
            except Exception:
                pass
        recipe = {"ops": ops}
    else:
        recipe = gen.random_system(rnd, max_nodes=8, n_sources=(1, 3), p_mux=0.4, p_phases=0.5, p_groups=0.6, p_rails=0.2, p_dead_source=0.1)
        # names with blanks / duty-cycled dominant loads
        if rnd.random() < 0.3:
            for op in recipe["ops"]:
                if "comp" in op and op["comp"]["kind"] == "PLoad": op["comp"]["args"]["pwr"] = rnd.choice([0.5, 2.0])
    if rnd.random() < 0.12:
        # nano-power system: every loss is positive but far below 1e-8 W (the heat scale is relative to the largest loss, whatever its size)
        for op in recipe["ops"]:
            if "comp" not in op: continue
            a_ = op["comp"]["args"]
            for k_, f_ in (("pwr", 1e-9), ("pwrs", 1e-9), ("ii", 1e-9), ("iis", 1e-9), ("iq", 1e-9), ("ig", 1e-9)):
                if k_ in a_ and isinstance(a_[k_], (int, float)) and not isinstance(a_[k_], bool): a_[k_] = a_[k_] * f_
            if op["comp"]["kind"] == "RLoad": a_["rs"] = a_["rs"] * 1e9
            if isinstance(a_.get("ig"), dict): a_["ig"] = 0.0
            if isinstance(a_.get("iq"), dict): a_["iq"] = 0.0
        for op in recipe["ops"]:
            if op["op"] == "set_comp_phases" and isinstance(op["conf"], dict): op["conf"] = {k_: (v_ * 1e-9 if v_ < 1e3 else v_ * 1e9) for k_, v_ in op["conf"].items()}
        if idx % 3 == 1: shadow = Model.of(recipe)
    if rnd.random() < 0.15:
        # a group name made of blanks only is still a non-empty group
        gs = sorted({op.get("group", "") for op in recipe["ops"]} - {""})
        if gs:
            g0 = rnd.choice(gs)
            for op in recipe["ops"]:
                if op.get("group") == g0: op["group"] = rnd.choice([" ", "  "])
            if idx % 3 == 1: shadow = Model.of(recipe)
    out = {"hash": _hash(recipe), "failures": [], "nontrivial": True, "sample": None, "outcome": None}
    def F(key, text): out["failures"].append({"key": key, "text": text, "props": ["C19"], "recipe": recipe})
    try:
        s, _ = gen.build(recipe, strict=False)
    except Exception as e:
        out["failures"].append({"key": "gen.build", "text": str(e), "props": [], "fault": True}); return out
    m = Model.of(recipe, [(i, None) for i in range(len(recipe["ops"]))]) if idx % 3 != 1 else shadow
    fd, p = tempfile.mkstemp(suffix=".json"); os.close(fd)
    def load(fn, **kw):
        fn(s, fname=p, **kw); return json.load(open(p))
    want_nodes = set(m.nodes); want_edges = sorted((pa, n) for n, nd in m.nodes.items() for pa in nd.parents)
    groups = {}
    for n, nd in m.nodes.items():
        if nd.group: groups.setdefault(nd.group, set()).add(n)
    try:
        # ---------------- the default rendering before anything else was drawn (compared with the same call at the end)
        conf_def0 = copy.deepcopy(D.get_conf())
        def node_attrs(j_):
            nd_, _, _, _ = parse(j_)
            return {n_["name"]: {k_: n_.get(k_) for k_ in ("label", "fillcolor", "fontcolor", "shape", "style", "penwidth", "color")} for n_ in nd_.values()}
        first_default = node_attrs(load(D.make_diag))
        # ---------------- make_diag, grouping on, with a configuration exercising default -> kind -> name precedence
        conf = D.get_conf()
        kinds = sorted({gen.cls_name(nd.kind) for nd in m.nodes.values()})
        k1 = rnd.choice(kinds); n1 = rnd.choice(sorted(m.nodes))
        conf["node"]["default"]["fillcolor"] = "yellow"; conf["node"]["default"]["shape"] = "ellipse"
        conf["node"][k1] = {"fillcolor": "red", "penwidth": "3.0"}
        conf["node"][n1] = {"fillcolor": "green"}
        if groups: conf["cluster"][sorted(groups)[0]] = {"fillcolor": "lightblue"}
        conf0 = copy.deepcopy(conf)
        j = load(D.make_diag, config=conf)
        if conf != conf0: F("diag.config", "make_diag changed the caller's configuration")
        nodes, clusters, edges, objs = parse(j)
        names = [n["name"] for n in nodes.values()]
        if sorted(names) != sorted(want_nodes): F("diag.nodes", "make_diag nodes %s != components %s" % (sorted(names), sorted(want_nodes)))
        if sorted(edges) != want_edges: F("diag.edges", "make_diag edges %s != parent->child links %s" % (sorted(edges)[:6], want_edges[:6]))
        byn = {n["name"]: n for n in nodes.values()}
        for n, nd in m.nodes.items():
            o = byn.get(n)
            if o is None: continue
            exp_fill = "green" if n == n1 else ("red" if gen.cls_name(nd.kind) == k1 else "yellow")
            if o.get("fillcolor") != exp_fill: F("diag.precedence", "%s: fillcolor %r, expected %r (default -> kind %s -> name %s)" % (n, o.get("fillcolor"), exp_fill, k1, n1))
            exp_pen = "3.0" if gen.cls_name(nd.kind) == k1 else "1.5"
            if o.get("penwidth") != exp_pen: F("diag.precedence", "%s: penwidth %r, expected %r" % (n, o.get("penwidth"), exp_pen))
            if o.get("shape") != "ellipse": F("diag.precedence", "%s: shape %r, expected the configured default 'ellipse'" % (n, o.get("shape")))
        got_cl = {k[len("cluster_"):]: {nodes[i]["name"] for i in v.get("nodes", []) if i in nodes} for k, v in clusters.items()}
        if got_cl != groups: F("diag.clusters", "clusters %s != non-empty groups %s" % (got_cl, groups))
        if groups and clusters.get("cluster_" + sorted(groups)[0], {}).get("fillcolor") != "lightblue": F("diag.clusterconf", "cluster attribute override by group name not applied")
        # ---------------- grouping off
        nodes, clusters, edges, objs = parse(load(D.make_diag, group=False))
        if clusters: F("diag.nogroup", "group=False but clusters %s are drawn" % list(clusters))
        if sorted(n["name"] for n in nodes.values()) != sorted(want_nodes) or sorted(edges) != want_edges: F("diag.nogroup", "group=False changes nodes/edges")
        # ---------------- heat diagram
        oc, df = _solve_outcome(s)
        out["outcome"] = oc
        if oc == "table":
            if rnd.random() < 0.4:
                # a configuration that sets Graphviz labels / colours itself: the heat diagram still shows every loss
                hconf = D.get_conf(); where = rnd.choice(["default", k1, n1])
                hconf["node"].setdefault(where, {}); hconf["node"][where] = dict(hconf["node"][where], label="custom text", fillcolor="white")
                hconf0 = copy.deepcopy(hconf)
                jh = load(D.make_hdiag, config=hconf)
                if hconf != hconf0: F("diag.config", "make_hdiag changed the caller's configuration")
            else:
                jh = load(D.make_hdiag)
            nodes, clusters, edges, objs = parse(jh)
            byn = {n["name"]: n for n in nodes.values()}
            if sorted(k for k in byn if k != "Scale") != sorted(want_nodes) or "Scale" not in byn: F("hdiag.nodes", "make_hdiag nodes %s != components + Scale" % sorted(byn))
            if sorted(edges) != want_edges: F("hdiag.edges", "make_hdiag edges differ from the parent->child links")
            rows, _ = oracle.rows_by_key(df)
            T = sum(m.phases.values()) if m.phases else 1.0
            loss = {}
            for n in m.nodes:
                loss[n] = (sum(float(rows[(n, ph)]["Loss (W)"]) * m.phases[ph] for ph in m.phases) / T) if m.phases else float(rows[(n, "")]["Loss (W)"])
            mx = max(loss.values()) if loss else 0.0
            for n, l in loss.items():
                o = byn.get(n)
                if o is None: continue
                lab = o.get("label", "")
                parts = lab.split("\\n") if "\\n" in lab else lab.split("\n")
                if parts[0] != n: F("hdiag.label", "%s: label %r does not start with the component name" % (n, lab)); continue
                v = parse_label_value(parts[-1]) if len(parts) > 1 else None
                if v is None: F("hdiag.label", "%s: loss label %r cannot be parsed" % (n, lab)); continue
                if not (abs(v - l) <= 0.006 * abs(l) + 1e-15): F("hdiag.value", "%s: label shows %g W, duration-weighted loss is %g W (3 significant digits required)" % (n, v, l))
            if mx > 0:
                mixes = {n: hex_mix(byn[n]["fillcolor"]) for n in loss if n in byn and str(byn[n].get("fillcolor", "")).startswith("#")}
                top = [n for n, l in loss.items() if l == mx]
                for n in top:
                    if n in mixes and mixes[n] < 0.98: F("hdiag.warm", "%s has the largest loss %g W but is not fully warm (colour %s)" % (n, mx, byn[n]["fillcolor"]))
                for n, l in loss.items():
                    if l <= 0 and n in mixes and mixes[n] > 0.02: F("hdiag.cold", "%s has zero loss but is not fully cold (colour %s)" % (n, byn[n]["fillcolor"]))
                ns = sorted(mixes, key=lambda n: loss[n])
                for a, b in zip(ns, ns[1:]):
                    if loss[b] > loss[a] * 1.05 + 1e-12 and mixes[b] < mixes[a] - 0.01: F("hdiag.order", "colours are not ordered as the losses: %s (%g W, %s) vs %s (%g W, %s)" % (a, loss[a], byn[a]["fillcolor"], b, loss[b], byn[b]["fillcolor"])); break
                lg = byn.get("Scale", {}).get("label", "")
                mv = re.search(r"([-+0-9.e]+[pnumkM]?)W", lg)
                lv = parse_label_value(mv.group(0)) if mv else None
                if lv is None or not (abs(lv - mx) <= 0.006 * mx + 1e-15): F("hdiag.legend", "legend %r does not show the maximum loss %g W" % (lg, mx))
        # ---------------- after everything above (heat diagrams with and without a configuration): the default rendering is what it was
        if D.get_conf() != conf_def0: F("diag.defaults", "the module's default configuration changed while diagrams were drawn")
        again = node_attrs(load(D.make_diag))
        if again != first_default:
            d_ = [(n_, first_default.get(n_), again.get(n_)) for n_ in first_default if first_default.get(n_) != again.get(n_)][:2]
            F("diag.defaults", "make_diag with the default configuration renders differently after a heat diagram was drawn: %s" % (d_,))
    except Exception as e:
        F("diag.exception", "%s: %s" % (type(e).__name__, str(e)[:120]))
    finally:
        try: os.unlink(p)
        except OSError: pass
    if idx < 3: out["sample"] = {"system": gen.short(recipe)[:6], "verdict": "%d failures" % len(out["failures"])}
    return out


def nice_float_case(args):
    """_nice_float: for finite f >= 0 the text parses back (with its SI prefix) to f within 0.5 % (>= 3 significant digits)"""
    import sysloss.diagram as D
    seed, idx = args
    rnd = _rnd(seed, idx)
    out = {"hash": "nf%d" % idx, "failures": [], "nontrivial": True, "sample": None, "outcome": "nice_float"}
    vals = [0.0, 1.0, 999.5, 0.9995, 1e-3, 1e3, 123456.7, 9.99949e-7, 0.01234567, 1e-12, 5e7]
    vals += [rnd.uniform(1, 10) * 10 ** rnd.randint(-13, 7) for _ in range(200)]
    for f in vals:
        try:
            t = D._nice_float(f)
        except Exception as e:
            out["failures"].append({"key": "nice.exception", "text": "_nice_float(%r) raised %s" % (f, type(e).__name__), "props": ["C19"]}); continue
        v = parse_label_value(str(t))
        if v is None or abs(v - f) > 0.005 * abs(f) + 1e-30:
            out["failures"].append({"key": "nice.value", "text": "_nice_float(%r) = %r which reads back as %r" % (f, t, v), "props": ["C19"]})
    return out


def diagram_family(seed, n):
    res = summarize(run_pool(diagram_case, [(seed, i) for i in range(n)]) + run_pool(nice_float_case, [(seed, i) for i in range(4)]),
                    "random systems (groups, multi-source, PMux, phases, names) and systems reached through edit histories; make_diag / make_hdiag rendered by Graphviz to JSON and read back: node set, edge set, clusters, default->kind->name precedence, caller's config untouched, heat labels (>= 3 significant digits of the duration-weighted loss), colour order, warm/cold extremes, legend; _nice_float on 200 random magnitudes per seed",
                    "trees <= 8 components; 5-edit histories")
    return res


def helper_family(seed, n):
    """validation of the assumed contracts behind the P obligations of diagram.py on concrete values: exponent of '{:e}'.format,
    digits kept by round()/'{}'.format, _gcolor against the clamped linear mix through matplotlib"""
    import sysloss.diagram as D, matplotlib as mpl
    from contracts.diagram import _shown_ok
    rnd = _rnd(seed, 977)
    fails, ev = [], 0
    vals = [0.0, 1.0, -1.0, 999.5, 0.9995, 9.9999996e-4, 9.9999994e-4, 1e-13, 9.99e-14, 9.9999999e7, 1e8, 1e-3, 1e3, 123456.7, 5e7]
    vals += [rnd.choice((1, 1, 1, -1)) * rnd.uniform(1, 10) * 10.0 ** rnd.randint(-15, 9) for _ in range(n)]
    for f in vals:
        ev += 1
        pw = int("{:e}".format(f).split("e")[1])
        if f != 0 and not (10.0 ** pw * (1 - 5e-7) <= abs(f) < 10.0 ** (pw + 1)):
            fails.append({"key": "helper.assumed-exponent", "text": "'{:e}'.format(%r) has exponent %d outside the assumed contract" % (f, pw), "props": ["C19"]}); continue
        try:
            t = D._nice_float(f)
        except Exception as e:
            fails.append({"key": "nice.exception", "text": "_nice_float(%r) raised %s" % (f, type(e).__name__), "props": ["C19"]}); continue
        if not (isinstance(t, str) and _shown_ok(t, f)):
            fails.append({"key": "nice.value", "text": "_nice_float(%r) = %r does not denote the value to 3 significant digits" % (f, t), "props": ["C19"]})
    k1, k2 = mpl.colors.to_rgb(D._COLD_RGB), mpl.colors.to_rgb(D._WARM_RGB)
    for m in [0.0, 1.0, -0.25, 1.75, 0.5] + [rnd.uniform(-0.2, 1.2) for _ in range(min(n, 2000))]:
        ev += 1
        c = min(max(m, 0.0), 1.0)
        want = mpl.colors.to_hex([(1 - c) * x + c * y for x, y in zip(k1, k2)])
        got = D._gcolor(m)
        if got != want:
            fails.append({"key": "gcolor.mix", "text": "_gcolor(%r) = %r, clamped linear mix is %r" % (m, got, want), "props": ["C19"]})
    return {"evaluations": ev, "distinct_nontrivial": ev, "failures": fails[:20], "samples": [{"call": "_nice_float(123456.7)", "observed": D._nice_float(123456.7)}],
            "bound": "%d magnitudes in 1e-15..1e10, %d mix values" % (len(vals), min(n, 2000) + 5), "rule": "label denotes the value to >= 3 significant digits; colour = clamped linear mix", "contract_evaluations": ev}
