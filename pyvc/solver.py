"""Discharging obligations: z3 (python API) first, /usr/bin/cvc5 on the SMT-LIB text when z3 says unknown."""
import time, subprocess, tempfile, os, re
from fractions import Fraction
import z3

DISCHARGED, REFUTED, UNDECIDED = "discharged", "refuted", "undecided"


def _model_dict(m):
    out = {}
    for d in m.decls():
        if d.arity() != 0:
            continue
        v = m[d]
        try:
            if z3.is_rational_value(v):
                out[d.name()] = Fraction(v.numerator_as_long(), v.denominator_as_long())
            elif z3.is_algebraic_value(v):
                out[d.name()] = Fraction(v.approx(20).numerator_as_long(), v.approx(20).denominator_as_long())
            elif z3.is_int_value(v):
                out[d.name()] = v.as_long()
            elif z3.is_true(v) or z3.is_false(v):
                out[d.name()] = z3.is_true(v)
            else:
                out[d.name()] = str(v)
        except Exception:
            out[d.name()] = str(v)
    return out


def check(hyps, goal, timeout_s=10, want_model=True, use_cvc5=True, second_opinion=False):
    """returns dict(verdict, backend, time_s, model, reason[, second])"""
    t0 = time.time()
    s = z3.Solver()
    s.set("timeout", int(timeout_s * 1000))
    s.add(*hyps)
    s.add(z3.Not(goal))
    r = s.check()
    dt = time.time() - t0
    if r == z3.unsat:
        out = {"verdict": DISCHARGED, "backend": "z3", "time_s": dt, "model": None, "reason": "unsat"}
        if second_opinion and os.path.exists("/usr/bin/cvc5"):
            t1 = time.time(); out["second"] = _cvc5(s.to_smt2(), 3); out["second_time_s"] = time.time() - t1      # 'unsat' confirms, 'sat' is a solver disagreement, anything else: no opinion
            out["time_s"] = time.time() - t0
        return out
    if r == z3.sat:
        m = s.model()
        return {"verdict": REFUTED, "backend": "z3", "time_s": dt, "model": _model_dict(m) if want_model else None, "reason": "sat", "z3model": m}
    reason = s.reason_unknown()
    if use_cvc5 and os.path.exists("/usr/bin/cvc5"):
        r2 = _cvc5(s.to_smt2(), timeout_s)
        dt = time.time() - t0
        if r2 == "unsat":
            return {"verdict": DISCHARGED, "backend": "cvc5", "time_s": dt, "model": None, "reason": "unsat (z3: %s)" % reason}
        if r2 == "sat":
            return {"verdict": REFUTED, "backend": "cvc5", "time_s": dt, "model": {}, "reason": "sat (cvc5; z3: %s)" % reason}
    return {"verdict": UNDECIDED, "backend": "z3", "time_s": dt, "model": None, "reason": "unknown: " + str(reason)}


def _cvc5(smt2, timeout_s):
    with tempfile.NamedTemporaryFile("w", suffix=".smt2", delete=False) as f:
        f.write("(set-logic ALL)\n" + smt2)
        path = f.name
    try:
        p = subprocess.run(["/usr/bin/cvc5", "--tlimit=%d" % int(timeout_s * 1000), path], capture_output=True, text=True, timeout=timeout_s + 5)
        out = p.stdout.strip().splitlines()
        return out[0].strip() if out else "unknown"
    except Exception:
        return "unknown"
    finally:
        os.unlink(path)


def satisfiable(conds, timeout_s=5):
    s = z3.Solver(); s.set("timeout", int(timeout_s * 1000)); s.add(*conds)
    r = s.check()
    return r == z3.sat, (s.model() if r == z3.sat else None)


def eval_model(m, term):
    return m.eval(term, model_completion=True)


def frac(v):
    if z3.is_rational_value(v): return Fraction(v.numerator_as_long(), v.denominator_as_long())
    if z3.is_int_value(v): return Fraction(v.as_long())
    if z3.is_algebraic_value(v):
        a = v.approx(20); return Fraction(a.numerator_as_long(), a.denominator_as_long())
    if z3.is_true(v): return True
    if z3.is_false(v): return False
    raise ValueError("not a value: %s" % v)
