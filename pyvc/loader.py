"""Binding to the real source: parse $SYSLOSS_SRC/sysloss/*.py (default /repo/src) on every run, index classes,
functions and literal module-level constants.  Nothing is copied by hand."""
import ast, os, enum, hashlib

SRC_ROOT = os.environ.get("SYSLOSS_SRC", "/repo/src")
MODULES = ("components", "system", "utils", "diagram")


class FunctionMissing(Exception):
    """the function a contract is keyed on does not exist (any more) -> obligations undecided, never 'failed'"""


class Module:
    def __init__(self, name, path):
        self.name, self.path = name, path
        raw = open(path, "rb").read()
        self.sha256 = hashlib.sha256(raw).hexdigest()
        self.text = raw.decode("utf-8").replace("\r\n", "\n")
        self.tree = ast.parse(self.text, filename=path)
        self.classes = {n.name: n for n in self.tree.body if isinstance(n, ast.ClassDef)}
        self.functions = {n.name: n for n in self.tree.body if isinstance(n, ast.FunctionDef)}
        self.consts = {}
        # module-level loggers (x = logging.getLogger(...)): calls on them have no effect on the program state
        self.loggers = {n.targets[0].id for n in self.tree.body if isinstance(n, ast.Assign) and len(n.targets) == 1 and isinstance(n.targets[0], ast.Name)
                        and isinstance(n.value, ast.Call) and isinstance(n.value.func, ast.Attribute) and n.value.func.attr == "getLogger"}
        self._eval_static()

    # -- literal constants and Enum classes are evaluated from the AST (pure, whitelisted node kinds only)
    def _eval_static(self):
        env = {"Enum": enum.Enum, "unique": enum.unique}
        for n in self.tree.body:
            if isinstance(n, ast.Assign) and len(n.targets) == 1 and isinstance(n.targets[0], ast.Name):
                if _is_literalish(n.value):
                    try:
                        env[n.targets[0].id] = eval(compile(ast.Expression(n.value), self.path, "eval"), {"__builtins__": {}}, env)
                    except Exception:
                        pass
            elif isinstance(n, ast.ClassDef) and any(isinstance(b, ast.Name) and b.id == "Enum" for b in n.bases):
                body_ok = all(isinstance(s, ast.Assign) or (isinstance(s, ast.Expr) and isinstance(s.value, ast.Constant)) for s in n.body)
                if body_ok:
                    m = ast.Module(body=[n], type_ignores=[])
                    exec(compile(m, self.path, "exec"), {"__builtins__": {"__build_class__": __build_class__, "__name__": "sysloss_static"},
                                                          "Enum": enum.Enum, "unique": enum.unique}, env)
        env.pop("Enum", None); env.pop("unique", None)
        self.consts = env


def _is_literalish(node):
    ok = (ast.Constant, ast.List, ast.Tuple, ast.Dict, ast.Name, ast.UnaryOp, ast.BinOp, ast.USub, ast.UAdd, ast.Add, ast.Sub,
          ast.Mult, ast.Div, ast.Load, ast.Set, ast.Attribute, ast.Pow, ast.FloorDiv, ast.Mod)      # Attribute: members of the Enum classes evaluated above
    return all(isinstance(x, ok) for x in ast.walk(node))


class Source:
    """index of the real source tree"""

    def __init__(self, root=None):
        self.root = root or SRC_ROOT
        self.modules = {}
        for m in MODULES:
            p = os.path.join(self.root, "sysloss", m + ".py")
            if os.path.exists(p):
                self.modules[m] = Module(m, p)

    # ---- lookups --------------------------------------------------------------------------------------------
    def module_of_class(self, cls):
        for m in self.modules.values():
            if cls in m.classes:
                return m
        raise FunctionMissing("class " + cls)

    def bases(self, cls):
        node = self.module_of_class(cls).classes[cls]
        return [b.id for b in node.bases if isinstance(b, ast.Name)]

    def mro(self, cls):
        """linearisation for the single-inheritance chains used in the source"""
        out, todo = [], [cls]
        while todo:
            c = todo.pop(0)
            if c in out:
                continue
            try:
                self.module_of_class(c)
            except FunctionMissing:
                continue
            out.append(c)
            todo = self.bases(c) + todo
        return out

    def is_subclass(self, cls, base):
        return base in self.mro(cls)

    def class_attr_node(self, cls, attr):
        """first definition of attr (FunctionDef or Assign) along the MRO -> (owner class, node)"""
        for c in self.mro(cls):
            node = self.module_of_class(c).classes[c]
            for s in node.body:
                if isinstance(s, ast.FunctionDef) and s.name == attr:
                    return c, s
                if isinstance(s, ast.Assign) and any(isinstance(t, ast.Name) and t.id == attr for t in s.targets):
                    return c, s
        return None, None

    def method(self, cls, name):
        c, node = self.class_attr_node(cls, name)
        if node is None or not isinstance(node, ast.FunctionDef):
            raise FunctionMissing("%s.%s" % (cls, name))
        return c, node

    def function(self, module, name):
        m = self.modules.get(module)
        if m is None or name not in m.functions:
            raise FunctionMissing("%s.%s" % (module, name))
        return m.functions[name]

    def resolve(self, qual):
        """'components.Converter._solv_pwr_loss' | 'utils.trace_res' -> (module, owner class or None, FunctionDef)"""
        parts = qual.split(".")
        if len(parts) == 2:
            return self.modules[parts[0]], None, self.function(parts[0], parts[1])
        mod, cls, name = parts
        owner, node = self.method(cls, name)
        return self.module_of_class(owner), owner, node

    def const(self, module, name):
        return self.modules[module].consts[name]

    def class_literal(self, cls, attr):
        """evaluate a literal class attribute (e.g. _cparams) from the AST, with the module constants in scope"""
        c, node = self.class_attr_node(cls, attr)
        if node is None or not isinstance(node, ast.Assign):
            raise FunctionMissing("%s.%s" % (cls, attr))
        m = self.module_of_class(c)
        env = dict(m.consts); env.update({"int": int, "float": float, "bool": bool, "dict": dict, "list": list, "str": str, "tuple": tuple, "set": set, "frozenset": frozenset,
                                          "len": len, "sorted": sorted, "range": range, "abs": abs, "min": min, "max": max})
        # other literal attributes of the same class (and its bases) may be referred to by name inside the class body
        for k_, cn in [(x, self.class_attr_node(cls, x)[1]) for x in self._class_assign_names(cls)]:
            if k_ == attr or k_ in env or not isinstance(cn, ast.Assign): continue
            try: env[k_] = eval(compile(ast.Expression(cn.value), m.path, "eval"), {"__builtins__": {}}, dict(env))
            except Exception: pass
        try:
            return eval(compile(ast.Expression(node.value), m.path, "eval"), {"__builtins__": {}}, env)
        except Exception as e:
            raise FunctionMissing("%s.%s cannot be evaluated statically (%s: %s)" % (cls, attr, type(e).__name__, e))

    def _class_assign_names(self, cls):
        out = []
        for c in self.mro(cls) if hasattr(self, "mro") else [cls]:
            cn = None
            for m in self.modules.values():
                if c in m.classes: cn = m.classes[c]
            if cn is None: continue
            for st in cn.body:
                if isinstance(st, ast.Assign) and len(st.targets) == 1 and isinstance(st.targets[0], ast.Name): out.append(st.targets[0].id)
        return out

    def digest(self):
        return {k: v.sha256 for k, v in self.modules.items()}


def is_property(fn):
    return any(isinstance(d, ast.Name) and d.id == "property" for d in fn.decorator_list)


def is_staticmethod(fn):
    return any(isinstance(d, ast.Name) and d.id == "staticmethod" for d in fn.decorator_list)


def is_classmethod(fn):
    return any(isinstance(d, ast.Name) and d.id == "classmethod" for d in fn.decorator_list)
