"""pyvc.engine - symbolic executor / VC generator over the Python AST of the real source.

Direct-style interpreter over mixed concrete / tagged-symbolic values.  A symbolic branch asks `decide()`, which follows
a decision log; the driver (`explore`) re-executes the unit once per feasible decision vector, so every path of the real
function body is enumerated (no bound other than loops, which need a side-car invariant unless their iterable is concrete).
Callees are executed from their real bodies unless the contract registers an override (modular use of a callee contract,
or an assumed contract for an external library).
"""
import ast, itertools, enum, os
import z3
from .values import *
from .loader import Source, FunctionMissing, is_property, is_classmethod, is_staticmethod

MUTATORS = {"append", "extend", "remove", "pop", "update", "clear", "insert", "setdefault", "sort", "reverse", "popitem", "add", "discard"}


class PyRaise(Exception):
    def __init__(self, etype, msg="", node=None, implicit=False):
        Exception.__init__(self, etype)
        self.etype, self.msg, self.node, self.implicit = etype, msg, node, implicit


class _Return(Exception):
    def __init__(self, value):
        self.value = value


class _Break(Exception):
    pass


class _Continue(Exception):
    pass


class PathEnd(Exception):
    """path terminated by the engine (after an inv-preserved obligation, or infeasible assumption)"""

    def __init__(self, why):
        self.why = why


class Path:
    def __init__(self, pc, kind, value, side, events, writes, decisions, extra):
        self.pc, self.kind, self.value, self.side, self.events, self.writes, self.decisions, self.extra = pc, kind, value, side, events, writes, decisions, extra

    def __repr__(self):
        return "Path<%s %d conds>" % (self.kind, len(self.pc))


class Frame:
    def __init__(self, module, cls, locals_, fn=None):
        self.module, self.cls, self.locals, self.fn = module, cls, locals_, fn


def _fits(fn, what):
    """side-car callables are written against the locals of one loop: when they do not fit the loop at hand (renamed / restructured
    locals) the unit is outside the contract, not a crash"""
    if fn is None: return None
    def wrapped(*a, **k):
        try:
            return fn(*a, **k)
        except (KeyError, AttributeError, TypeError, IndexError) as ex:
            raise Unsupported("the side-car %s does not fit this loop (%s: %s)" % (what, type(ex).__name__, ex))
    return wrapped


class LoopSpec:
    """side-car loop contract, keyed by (function qualname, loop kind, ordinal) - not by the text of the condition.
    inv(env, k) -> z3 Bool;  variant(env) -> z3 Int (optional);  havoc: names -> callable(engine, old) (optional)"""

    def __init__(self, name, inv, variant=None, havoc=None, modifies=None, ghost=(), heap_havoc=None):
        self.name, self.inv, self.variant, self.modifies, self.ghost = name, _fits(inv, "invariant"), _fits(variant, "variant"), modifies, list(ghost)
        self.havoc = {k_: _fits(v_, "havoc rule") for k_, v_ in (havoc or {}).items()}
        self.heap_havoc = _fits(heap_havoc, "heap havoc rule")


class Engine:
    def __init__(self, source=None, feas_timeout_ms=2000, max_paths=20000, max_seconds=None):
        self.src = source or Source()
        self.overrides = {}          # qualname -> f(engine, recv, args, kwargs)
        self.loop_specs = {}         # (qualname, 'While'|'For', ordinal) -> LoopSpec
        self.merge_ifs = False
        self.fmt_model = None        # hook: structured model of str.format (diagram labels); default: opaque "<fmt>"
        self.opaque_slice = None     # hook: slice of a value of uninterpreted sort (vectors in _solve)
        self.feas_timeout_ms, self.max_paths = feas_timeout_ms, max_paths
        # wall-clock budget of one explore() call: a unit whose path space explodes on some code shape becomes undecided, not a hang
        self.max_seconds = max_seconds if max_seconds is not None else float(os.environ.get("PYVC_EXPLORE_BUDGET_S", "150"))
        self._seen_obl = set()
        self.obligations = []        # filled by oblige() during exploration (loop obligations) and by contracts
        self.np = self._make_np()
        self.extra_globals = {}
        self.assumed_used = set()    # names of assumed/opaque contracts actually exercised
        self.inlined = set()         # qualnames of real bodies executed (functions under contract / inlined helpers)
        self._reset_path([])

    # ------------------------------------------------------------------------------------------ path machinery
    def _reset_path(self, prefix):
        self.log, self.pos = list(prefix), 0
        self.pc, self.side, self.events, self.writes = [], [], [], []
        self.fresh_n = 0
        self.frames = []
        self.path_extra = {}

    def explore(self, thunk):
        """thunk(engine) runs the unit from a fresh initial state.  Returns the list of Paths."""
        results, self._stack = [], [[]]
        import time as _time
        t_end = _time.time() + self.max_seconds
        while self._stack:
            if len(results) > self.max_paths:
                raise Unsupported("more than %d paths" % self.max_paths)
            if _time.time() > t_end:
                raise Unsupported("exploration budget of %g s exceeded after %d paths" % (self.max_seconds, len(results)))
            prefix = self._stack.pop()
            self._reset_path(prefix)
            try:
                v = thunk(self)
                kind = "return"
            except PyRaise as e:
                kind, v = "raise", e
            except PathEnd as e:
                kind, v = "end", e
            results.append(Path(list(self.pc), kind, v, list(self.side), list(self.events), list(self.writes), list(self.log), dict(self.path_extra)))
        return results

    def feasible(self, extra):
        # quantified hypotheses are left out: feasibility is over-approximated (more paths), which is sound
        s = z3.Solver(); s.set("timeout", self.feas_timeout_ms)
        s.add(*[c for c in self.pc if not z3.is_quantifier(c)]); s.add(*distinct_names()); s.add(extra)
        return s.check() != z3.unsat

    def decide(self, cond):
        """cond: python bool or z3 Bool -> python bool (forks through the decision log)"""
        if isinstance(cond, bool):
            return cond
        cond = z3.simplify(cond)
        if z3.is_true(cond):
            return True
        if z3.is_false(cond):
            return False
        if self.pos < len(self.log):
            choice = self.log[self.pos]
        else:
            ft, ff = self.feasible(cond), self.feasible(z3.Not(cond))
            if ft and ff:
                self._stack.append(self.log[:self.pos] + [False]); choice = True
            elif ft:
                choice = True
            elif ff:
                choice = False
            else:
                raise PathEnd("infeasible")
            self.log.append(choice)
        self.pos += 1
        self.pc.append(cond if choice else z3.Not(cond))
        return choice

    def choose(self, n):
        """engine-level n-ary choice (loop rule alternatives)"""
        if self.pos < len(self.log):
            c = self.log[self.pos]
        else:
            for alt in range(n - 1, 0, -1):
                self._stack.append(self.log[:self.pos] + [alt])
            c = 0
            self.log.append(c)
        self.pos += 1
        return c

    def assume(self, cond):
        if isinstance(cond, bool):
            if not cond:
                raise PathEnd("assume False")
            return
        self.pc.append(cond)

    def fresh(self, hint, sort="real"):
        self.fresh_n += 1
        nm = "%s!%d" % (hint, self.fresh_n)
        if isinstance(sort, z3.SortRef):
            return SV(z3.Const(nm, sort))
        t = {"real": z3.Real, "int": z3.Int, "bool": z3.Bool}[sort](nm) if sort != "name" else z3.Const(nm, NAME)
        return SV(t, sort)

    def oblige(self, oid, goal, kind="post", meta=None, pc=None):
        key = (oid, z3.And(*(self.pc if pc is None else pc)).sexpr() if (self.pc if pc is None else pc) else "", goal.sexpr() if hasattr(goal, "sexpr") else str(goal))
        if key in self._seen_obl:
            return
        self._seen_obl.add(key)
        self.obligations.append({"id": oid, "hyps": list(self.pc if pc is None else pc) + distinct_names(), "goal": goal, "kind": kind, "meta": meta or {}})

    def side_oblige(self, what, goal, node=None):
        """safety side-obligation (divisor != 0, key present, index in range) on the current path"""
        try: txt = ast.unparse(node)[:60] if node is not None else None
        except Exception: txt = None
        # 'at' identifies the site by its source text (stable under line shifts); 'line' is kept for messages
        self.side.append({"what": what, "hyps": list(self.pc), "goal": goal, "line": getattr(node, "lineno", None), "at": txt or ("L%s" % getattr(node, "lineno", None))})

    def event(self, name, **kw):
        self.events.append((name, kw))

    def log_write(self, obj, key, node=None, how="store"):
        self.writes.append({"obj": obj, "label": getattr(obj, "label", None) or type(obj).__name__, "key": key, "line": getattr(node, "lineno", None), "how": how})

    # ------------------------------------------------------------------------------------------ running real code
    def call_function(self, qual, args=(), kwargs=None):
        """run module-level function 'module.name'"""
        mod, _, node = self.src.resolve(qual)
        return self._invoke(mod.name, None, node, qual, None, list(args), dict(kwargs or {}))

    def call_method(self, recv, name, args=(), kwargs=None):
        val = self.getattr_(recv, name, None)
        return self.call_value(val, list(args), dict(kwargs or {}), None)

    def new_object(self, cls, args=(), kwargs=None, label=None):
        return self._instantiate(cls, list(args), dict(kwargs or {}), label)

    def _instantiate(self, cls, args, kwargs, label=None):
        obj = PyObj(cls, {}, label)
        try:
            owner, node = self.src.method(cls, "__init__")
        except FunctionMissing:
            return obj
        qual = "%s.%s.__init__" % (self.src.module_of_class(owner).name, owner)
        self._invoke(self.src.module_of_class(owner).name, owner, node, qual, obj, args, kwargs)
        return obj

    def _invoke(self, module, owner, node, qual, recv, args, kwargs):
        if qual in self.overrides:
            return self.overrides[qual](self, recv, args, kwargs)
        self.inlined.add(qual)
        a = node.args
        params = [p.arg for p in a.posonlyargs + a.args]
        loc = {}
        pos = list(args)
        if recv is not None:
            pos = [recv] + pos
        if len(pos) > len(params) and a.vararg is None:
            raise PyRaise("TypeError", "too many positional arguments for " + qual, node)
        for p, v in zip(params, pos):
            loc[p] = v
        if a.vararg is not None:
            loc[a.vararg.arg] = tuple(pos[len(params):])
        frame = Frame(module, owner, loc, node)
        ndef = len(a.defaults)
        for i, p in enumerate(params):
            if p in loc:
                if p in kwargs:
                    raise PyRaise("TypeError", "multiple values for " + p, node)
                continue
            if p in kwargs:
                loc[p] = kwargs.pop(p)
            else:
                j = i - (len(params) - ndef)
                if j < 0:
                    raise PyRaise("TypeError", "missing argument %s of %s" % (p, qual), node)
                loc[p] = self._default(a.defaults[j], module)
        for p, d in zip(a.kwonlyargs, a.kw_defaults):
            if p.arg in kwargs:
                loc[p.arg] = kwargs.pop(p.arg)
            elif d is not None:
                loc[p.arg] = self._default(d, module)
            else:
                raise PyRaise("TypeError", "missing keyword argument %s of %s" % (p.arg, qual), node)
        if kwargs:
            if a.kwarg is not None:
                loc[a.kwarg.arg] = dict(kwargs)
            else:
                raise PyRaise("TypeError", "unexpected keyword argument %s for %s" % (sorted(kwargs)[0], qual), node)
        self.frames.append(frame)
        try:
            self.exec_block(node.body)
            return None
        except _Return as r:
            return r.value
        finally:
            self.frames.pop()

    def _default(self, node, module):
        # default-argument objects: a fresh copy per call is sound only if they are never mutated (assumption 7;
        # the frame analysis flags writes through parameters with mutable defaults)
        f = Frame(module, None, {})
        self.frames.append(f)
        try:
            return self.ev(node)
        finally:
            self.frames.pop()

    def run_block(self, module, cls, stmts, env, fn=None):
        """execute a mechanically located slice (list of statements) in the given environment"""
        frame = Frame(module, cls, env, fn)
        frame.is_slice = True       # locals come from the contract: a name it does not provide is unknown, not unbound
        self.frames.append(frame)
        try:
            self.exec_block(stmts)
            return None
        except _Return as r:
            return r.value
        finally:
            self.frames.pop()

    # ------------------------------------------------------------------------------------------ names
    def lookup(self, name, node=None):
        fr = self.frames[-1]
        if name in fr.locals:
            return fr.locals[name]
        if name in self.extra_globals:
            return self.extra_globals[name]
        mods = [fr.module] + [m for m in ("components",) if m != fr.module]
        for mn in mods:
            m = self.src.modules.get(mn)
            if m is None:
                continue
            if name in m.consts:
                return m.consts[name]
            if name in getattr(m, "loggers", ()):
                noop = lambda e, *a, **k: None
                return Opaque("logger", methods={k_: noop for k_ in ("debug", "info", "warning", "error", "exception", "critical", "log", "isEnabledFor")})
            if name in m.functions:
                return FuncRef(mn, m.functions[name], "%s.%s" % (mn, name))
            if name in m.classes:
                return ClassRef(name)
        if name in BUILTINS:
            return BUILTINS[name]
        if name == "np":
            return self.np
        if fr.fn is not None and name in self._assigned_names(fr.fn.body):
            if getattr(fr, "is_slice", False):
                raise Unsupported("the slice contract provides no value for the local %r (line %s)" % (name, getattr(node, "lineno", "?")))
            raise PyRaise("UnboundLocalError", name, node, implicit=True)      # a local read before any assignment on this path
        raise Unsupported("free name %r (line %s)" % (name, getattr(node, "lineno", "?")))

    # ------------------------------------------------------------------------------------------ expressions
    def ev(self, x):
        m = getattr(self, "ev_" + type(x).__name__, None)
        if m is None:
            raise Unsupported("expression %s (line %s)" % (type(x).__name__, getattr(x, "lineno", "?")))
        return m(x)

    def ev_Constant(self, x):
        return x.value

    def ev_Name(self, x):
        return self.lookup(x.id, x)

    def ev_Tuple(self, x):
        return tuple(self.ev(e) for e in x.elts)

    def ev_List(self, x):
        return [self.ev(e) for e in x.elts]

    def ev_Set(self, x):
        return set(self.ev(e) for e in x.elts)

    def ev_Dict(self, x):
        d = {}
        for k, v in zip(x.keys, x.values):
            d[self.ev(k)] = self.ev(v)
        return d

    def ev_JoinedStr(self, x):
        return "<fmt>"

    def ev_IfExp(self, x):
        c = self.truth(self.ev(x.test))
        return self.ev(x.body) if self.decide(c) else self.ev(x.orelse)

    def ev_UnaryOp(self, x):
        v = self.ev(x.operand)
        if isinstance(x.op, ast.Not):
            t = self.truth(v)
            return (not t) if isinstance(t, bool) else SV(z3.Not(t), "bool")
        if isinstance(x.op, ast.USub):
            if is_sym(v):
                if v.sort == "bool":
                    return SV(-to_z(v, "real"), "real")
                return SV(-v.z, v.sort)
            return -v
        if isinstance(x.op, ast.UAdd):
            return v
        raise Unsupported("unary op")

    def ev_BoolOp(self, x):
        # faithful short-circuit semantics: fork on each symbolic operand (later operands may raise)
        is_and = isinstance(x.op, ast.And)
        last = None
        for i, e in enumerate(x.values):
            last = self.ev(e)
            if i == len(x.values) - 1:
                return last
            t = self.truth(last)
            b = self.decide(t)
            if is_and and not b:
                return False if (is_sym(last) and last.sort == "bool") else last
            if (not is_and) and b:
                return True if (is_sym(last) and last.sort == "bool") else last
        return last

    def ev_BinOp(self, x):
        return self.binop(x.op, self.ev(x.left), self.ev(x.right), x)

    def binop(self, op, a, b, node=None):
        if isinstance(a, NVec) or isinstance(b, NVec):
            n = len(a.items) if isinstance(a, NVec) else len(b.items)
            xs = a.items if isinstance(a, NVec) else [a] * n
            ys = b.items if isinstance(b, NVec) else [b] * n
            if len(xs) != len(ys): raise PyRaise("ValueError", "operands could not be broadcast together", node, implicit=True)
            return NVec([self.binop(op, x_, y_, node) for x_, y_ in zip(xs, ys)])
        if isinstance(a, CondStr) or isinstance(b, CondStr):
            if isinstance(op, ast.Add):
                return CondStr.of(a).plus(b)
            raise Unsupported("CondStr op")
        if isinstance(a, AccList) and isinstance(op, ast.Add):
            raise Unsupported("AccList + list outside +=")
        if isinstance(a, str) and isinstance(op, ast.Mod):
            return "<fmt>"
        if not is_sym(a) and not is_sym(b):
            if isinstance(a, (list, tuple, str)) or isinstance(b, (list, tuple, str)):
                if isinstance(op, ast.Add):
                    return a + b
                if isinstance(op, ast.Mult):
                    return a * b
                raise Unsupported("sequence binop")
            if not (_isnumber(a) and _isnumber(b)):
                raise Unsupported("binop on %s, %s" % (type(a).__name__, type(b).__name__))
            try:
                return _PYOPS[type(op)](a, b)
            except ZeroDivisionError:
                self.side_oblige("divisor != 0 (concrete zero divisor)", z3.BoolVal(False), node)
                raise PyRaise("ZeroDivisionError", "", node, implicit=True)
            except KeyError:
                raise Unsupported("operator " + type(op).__name__)
        # symbolic arithmetic
        if isinstance(a, (list, tuple)) or isinstance(b, (list, tuple)):
            if isinstance(op, ast.Mult):   # n * [v]
                seq, n = (a, b) if isinstance(a, (list, tuple)) else (b, a)
                raise Unsupported("symbolic repetition of a list")
            raise Unsupported("list binop with symbolic operand")
        ints = all((is_sym(v) and v.sort == "int") or (isinstance(v, int) and not isinstance(v, bool)) for v in (a, b))
        if ints and not isinstance(op, (ast.Div,)):
            za, zb = to_z(a), to_z(b)
            if isinstance(op, ast.Add): return SV(za + zb, "int")
            if isinstance(op, ast.Sub): return SV(za - zb, "int")
            if isinstance(op, ast.Mult): return SV(za * zb, "int")
            if isinstance(op, ast.Mod):
                self.side_oblige("modulus != 0", zb != 0, node); return SV(za % zb, "int")
            if isinstance(op, ast.FloorDiv):
                self.side_oblige("divisor != 0", zb != 0, node); return SV(za / zb, "int")
            if isinstance(op, ast.Pow) and isinstance(b, int) and 0 <= b <= 4:
                r = z3.IntVal(1)
                for _ in range(b): r = r * za
                return SV(r, "int")
            raise Unsupported("int op " + type(op).__name__)
        za, zb = to_z(a, "real"), to_z(b, "real")
        if isinstance(op, ast.Add): return SV(za + zb, "real")
        if isinstance(op, ast.Sub): return SV(za - zb, "real")
        if isinstance(op, ast.Mult): return SV(za * zb, "real")
        if isinstance(op, ast.Div):
            self.side_oblige("divisor != 0", zb != 0, node)
            return SV(za / zb, "real")
        if isinstance(op, ast.Pow) and isinstance(b, int) and not isinstance(b, bool) and 0 <= b <= 4:
            r = z3.RealVal(1)
            for _ in range(b): r = r * za
            return SV(r, "real")
        raise Unsupported("real op " + type(op).__name__)

    def ev_Compare(self, x):
        left = self.ev(x.left)
        res = None
        for op, c in zip(x.ops, x.comparators):
            right = self.ev(c)
            r = self.compare(op, left, right, x)
            if res is None:
                res = r
            else:
                if isinstance(res, bool) and isinstance(r, bool):
                    res = res and r
                else:
                    res = SV(z3.And(to_z(res), to_z(r)), "bool")
            left = right
        return res

    def compare(self, op, a, b, node=None):
        t = type(op)
        a, b = _as_type(a), _as_type(b)
        if t in (ast.Is, ast.IsNot):
            if is_sym(a) or is_sym(b):
                if a is None or b is None:
                    return t is ast.IsNot
                raise Unsupported("'is' on symbolic values")
            r = (a is b) if not (_isnumber(a) and _isnumber(b)) else (a is b or (type(a) == type(b) and a == b))
            return r if t is ast.Is else not r
        if t in (ast.In, ast.NotIn):
            r = self.contains(b, a, node)
            if isinstance(r, bool):
                return r if t is ast.In else not r
            return SV(r if t is ast.In else z3.Not(r), "bool")
        if t in (ast.Eq, ast.NotEq):
            r = self.equal(a, b)
            if isinstance(r, bool):
                return r if t is ast.Eq else not r
            return SV(r if t is ast.Eq else z3.Not(r), "bool")
        # ordering
        if not is_sym(a) and not is_sym(b):
            if not (_isnumber(a) and _isnumber(b)) and not (isinstance(a, str) and isinstance(b, str)):
                raise Unsupported("ordering on %s,%s" % (type(a).__name__, type(b).__name__))
            return {ast.Lt: a < b, ast.LtE: a <= b, ast.Gt: a > b, ast.GtE: a >= b}[t]
        ints = all((is_sym(v) and v.sort == "int") or (isinstance(v, int) and not isinstance(v, bool)) for v in (a, b))
        za, zb = (to_z(a), to_z(b)) if ints else (to_z(a, "real"), to_z(b, "real"))
        return SV({ast.Lt: za < zb, ast.LtE: za <= zb, ast.Gt: za > zb, ast.GtE: za >= zb}[t], "bool")

    def equal(self, a, b):
        """python == ; returns python bool or z3 Bool"""
        if isinstance(a, Opt) or isinstance(b, Opt):
            o, other = (a, b) if isinstance(a, Opt) else (b, a)
            if isinstance(other, int) and other == -1:
                return o.isnone
            raise Unsupported("Opt == %r" % (other,))
        for x_, y_ in ((a, b), (b, a)):
            if isinstance(x_, Opaque) and "eq" in x_.methods:
                return x_.methods["eq"](self, y_)
        if isinstance(a, CondStr) or isinstance(b, CondStr):
            c, other = (a, b) if isinstance(a, CondStr) else (b, a)
            if other == "":
                return z3.Not(c.nonempty())
            raise Unsupported("CondStr == %r" % (other,))
        if (isinstance(a, FiltSeq) and b == []) or (isinstance(b, FiltSeq) and a == []):
            fs = a if isinstance(a, FiltSeq) else b
            j = z3.Int("fj!%d" % id(fs))
            return z3.Not(z3.Exists([j], z3.And(j >= 0, j < fs.seq.ln, fs.pred(j))))
        if (isinstance(a, Seq) and isinstance(b, list)) or (isinstance(b, Seq) and isinstance(a, list)):
            sq, ls = (a, b) if isinstance(a, Seq) else (b, a)
            parts = [sq.ln == len(ls)]
            for j, el in enumerate(ls):
                r = self.equal(sq.elem(z3.IntVal(j)), el)
                parts.append(z3.BoolVal(r) if isinstance(r, bool) else r)
            return z3.And(*parts)
        if not is_sym(a) and not is_sym(b):
            if isinstance(a, (list, tuple)) and isinstance(b, (list, tuple)) and type(a) == type(b):
                if len(a) != len(b):
                    return False
                rs = [self.equal(p, q) for p, q in zip(a, b)]
                if all(isinstance(r, bool) for r in rs):
                    return all(rs)
                return z3.And(*[to_z(r) for r in rs])
            if isinstance(a, dict) and isinstance(b, dict):
                if set(a.keys()) != set(b.keys()):
                    return False
                rs = [self.equal(a[k], b[k]) for k in a]
                if all(isinstance(r, bool) for r in rs):
                    return all(rs)
                return z3.And(*[to_z(r) for r in rs])
            if isinstance(a, (PyObj, Opaque, HMap, Seq, AccList, PhaseConf)) or isinstance(b, (PyObj, Opaque, HMap, Seq, AccList, PhaseConf)):
                if isinstance(a, PhaseConf) or isinstance(b, PhaseConf):
                    p, other = (a, b) if isinstance(a, PhaseConf) else (b, a)
                    if other == {} or other == []:
                        return z3.Not(p.nonempty)
                    raise Unsupported("PhaseConf == %r" % (other,))
                if (isinstance(a, Opaque) and isinstance(b, enum.Enum)) or (isinstance(b, Opaque) and isinstance(a, enum.Enum)):
                    raise Unsupported("comparison of an opaque object with an Enum member (the side-car model gives it no meaning)")
                for x_, y_ in ((a, b), (b, a)):
                    if isinstance(x_, (Opaque, HMap)) and isinstance(y_, (list, dict, tuple, str, set)) and not isinstance(y_, CondStr):
                        # an abstract container compared with a literal container: its model has to say (eq method), guessing 'different' would be unsound
                        raise Unsupported("comparison of an abstract container (%s) with a literal %s" % (getattr(x_, "tag", getattr(x_, "label", "?")), type(y_).__name__))
                return a is b
            try:
                return bool(a == b)
            except Unsupported:
                raise
        sa = a.sort if is_sym(a) else None
        sb = b.sort if is_sym(b) else None
        if "name" in (sa, sb):
            if (is_sym(a) and a.sort != "name") or (is_sym(b) and b.sort != "name"):
                return False
            if not is_sym(a) and not isinstance(a, str): return False
            if not is_sym(b) and not isinstance(b, str): return False
            return to_z(a) == to_z(b)
        if (not is_sym(a) and not _isnumber(a)) or (not is_sym(b) and not _isnumber(b)):
            return False       # number vs str/None/list: never equal
        if "bool" in (sa, sb) and all(s in ("bool", None) for s in (sa, sb)) and all(is_sym(v) or isinstance(v, bool) for v in (a, b)):
            return to_z(a) == to_z(b)
        ints = all((is_sym(v) and v.sort == "int") or (isinstance(v, int) and not isinstance(v, bool)) for v in (a, b))
        if ints:
            return to_z(a) == to_z(b)
        return to_z(a, "real") == to_z(b, "real")

    def contains(self, cont, item, node=None):
        item = _as_type(item)
        if isinstance(cont, (list, tuple)) and any(isinstance(c, Builtin) for c in cont):
            cont = [_as_type(c) for c in cont]
        if isinstance(cont, PhaseConf):
            return cont.contains(item)
        if isinstance(cont, Opaque) and cont.contains is not None:
            return cont.contains(self, item)
        if isinstance(cont, HMap) and cont.contains is not None:
            return cont.contains(item)
        if isinstance(cont, Seq):
            j = z3.Int("cj!%d" % id(cont))
            r = self.equal(cont.elem(j), item)
            return z3.Exists([j], z3.And(j >= 0, j < cont.ln, z3.BoolVal(r) if isinstance(r, bool) else r))
        if isinstance(cont, HavocDict):
            if not is_sym(item) and dict.__contains__(cont, item):
                return True
            raise Unsupported("membership test on a havoc'd dict")
        if isinstance(cont, (dict, set, frozenset)):
            if is_sym(item):
                ks = list(cont)
                rs = [self.equal(item, k) for k in ks]
                rs = [r for r in rs if not (isinstance(r, bool) and not r)]
                if any(isinstance(r, bool) and r for r in rs): return True
                return z3.Or(*rs) if rs else False
            return item in cont
        if isinstance(cont, type(dict().keys())) or isinstance(cont, type(dict().values())):
            cont = list(cont)
        if isinstance(cont, (list, tuple)):
            rs = [self.equal(item, k) for k in cont]
            if any(isinstance(r, bool) and r for r in rs): return True
            rs = [r for r in rs if not isinstance(r, bool)]
            return z3.Or(*rs) if rs else False
        if isinstance(cont, str) and isinstance(item, str):
            return item in cont
        if isinstance(cont, type) and issubclass(cont, enum.Enum):
            return item in cont
        raise Unsupported("'in' on %s (line %s)" % (type(cont).__name__, getattr(node, "lineno", "?")))

    def truth(self, v):
        """python truthiness -> python bool or z3 Bool"""
        if is_sym(v):
            if v.sort == "bool": return v.z
            if v.sort == "name": return v.z != name_const("")
            return v.z != 0
        if isinstance(v, PhaseConf): return v.nonempty
        if isinstance(v, CondStr): return v.nonempty()
        if isinstance(v, Opaque):
            if v.truth is not None: return v.truth(self)
            return True
        if isinstance(v, (PyObj, HMap, ClassRef, FuncRef, BoundMethod, Builtin)): return True
        if isinstance(v, FiltSeq):
            j = z3.Int("fj!%d" % id(v))
            return z3.Exists([j], z3.And(j >= 0, j < v.seq.ln, v.pred(j)))
        if isinstance(v, Seq): return v.ln > 0
        if isinstance(v, AccList):
            if v.items: return True
            raise Unsupported("truth of havoc'd list")
        if isinstance(v, HavocDict):
            if len(v): return True
            raise Unsupported("truth of havoc'd dict")
        if isinstance(v, Opt): raise Unsupported("truth of Opt")
        return bool(v)

    def ev_Attribute(self, x):
        return self.getattr_(self.ev(x.value), x.attr, x)

    def getattr_(self, base, attr, node=None):
        if isinstance(base, PyObj):
            if attr in base.attrs:
                return base.attrs[attr]
            owner, n = self.src.class_attr_node(base.cls, attr)
            if n is None:
                if attr == "__class__": return ClassRef(base.cls)
                raise PyRaise("AttributeError", "%s.%s" % (base.cls, attr), node, implicit=True)
            mod = self.src.module_of_class(owner).name
            if isinstance(n, ast.FunctionDef):
                qual = "%s.%s.%s" % (mod, owner, attr)
                if is_property(n):
                    return self._invoke(mod, owner, n, qual, base, [], {})
                if is_classmethod(n):
                    return BoundMethod(ClassRef(base.cls), owner, n, qual)
                if is_staticmethod(n):
                    return FuncRef(mod, n, qual)
                return BoundMethod(base, owner, n, qual)
            return self.src.class_literal(base.cls, attr)
        if isinstance(base, Opaque):
            if attr in base.attrs: return base.attrs[attr]
            if attr in base.methods: return Builtin(base.tag + "." + attr, base.methods[attr])
            if base.cls is not None:
                owner, n = self.src.class_attr_node(base.cls, attr)
                if isinstance(n, ast.FunctionDef):
                    mod = self.src.module_of_class(owner).name
                    qual = "%s.%s.%s" % (mod, owner, attr)
                    if is_property(n): return self._invoke(mod, owner, n, qual, base, [], {})
                    if is_staticmethod(n): return FuncRef(mod, n, qual)
                    if is_classmethod(n): return BoundMethod(ClassRef(base.cls), owner, n, qual)
                    return BoundMethod(base, owner, n, qual)
            raise Unsupported("attribute %s of opaque %s (line %s)" % (attr, base.tag, getattr(node, "lineno", "?")))
        if isinstance(base, ClassRef):
            owner, n = self.src.class_attr_node(base.cls, attr)
            if n is None:
                if attr == "__name__": return base.cls
                raise PyRaise("AttributeError", "%s.%s" % (base.cls, attr), node, implicit=True)
            mod = self.src.module_of_class(owner).name
            if isinstance(n, ast.FunctionDef):
                qual = "%s.%s.%s" % (mod, owner, attr)
                if is_classmethod(n): return BoundMethod(base, owner, n, qual)
                return FuncRef(mod, n, qual)        # plain function or staticmethod reached through the class
            return self.src.class_literal(base.cls, attr)
        if isinstance(base, PhaseConf):
            if attr == "get":
                def pc_get(e, key, default=None, _b=base):
                    return SV(_b.value(key), "real") if e.decide(_b.contains(key)) else default
                return Builtin("PhaseConf.get", pc_get)
            if attr == "keys":
                return Builtin("PhaseConf.keys", lambda e, _b=base: _b)
            raise Unsupported("PhaseConf." + attr)
        if isinstance(base, CondStr):
            if attr == "strip": return Builtin("CondStr.strip", lambda e: CondStr(base.segs, True))
            raise Unsupported("CondStr." + attr)
        if isinstance(base, AccList):
            if attr == "append": return Builtin("AccList.append", lambda e, v: base.append(v))
            raise Unsupported("AccList." + attr)
        if isinstance(base, str):
            if attr == "format":
                if self.fmt_model is not None:
                    return Builtin("str.format", lambda e, *a, _t=base, **k: e.fmt_model(e, _t, a, k))
                return Builtin("str.format", lambda e, *a, **k: "<fmt>")
            if attr in ("strip", "split", "join", "upper", "lower", "startswith", "endswith"):
                f = getattr(base, attr)
                if attr == "join":
                    def join(e, items, _sep=base):
                        items = e.iterate(items)
                        if any(isinstance(x_, GTok) for x_ in items):
                            if _sep.strip() != "": raise Unsupported("join of guarded tokens with a non-blank separator")
                            return CondStr([((x_.guard, x_.item + " ") if isinstance(x_, GTok) else (z3.BoolVal(True), x_ + " ")) for x_ in items], True)
                        return _sep.join(items)
                    return Builtin("str.join", join)
                return Builtin("str." + attr, lambda e, *a: f(*a))
        if isinstance(base, (dict, list, set)):
            if (attr in ("keys", "values", "items", "get", "copy", "index", "count", "tolist") or attr in MUTATORS) and hasattr(base, attr):
                f = getattr(base, attr)
                def call(e, *a, _f=f, _attr=attr, _base=base, **k):
                    if _attr in MUTATORS:
                        e.log_write(_base, a[0] if a and not is_sym(a[0]) and not isinstance(a[0], (list, dict)) else None, node, how=_attr)
                    if _attr in ("remove", "index", "count") and isinstance(_base, list):
                        for i, el in enumerate(_base):
                            r = e.equal(el, a[0])
                            if e.decide(r if isinstance(r, bool) else r):
                                if _attr == "remove": del _base[i]; return None
                                if _attr == "index": return i
                        if _attr == "count": raise Unsupported("list.count")
                        raise PyRaise("ValueError", "list.%s(x): x not in list" % _attr, node, implicit=True)
                    if _attr in ("get", "pop") and isinstance(_base, dict) and a and is_sym(a[0]):
                        raise Unsupported("dict.%s with symbolic key" % _attr)
                    try:
                        r = _f(*a, **k)
                    except KeyError:
                        raise PyRaise("KeyError", "", node, implicit=True)
                    except IndexError:
                        raise PyRaise("IndexError", "", node, implicit=True)
                    if _attr in ("keys", "values", "items"): return list(r)
                    return r
                return Builtin("%s.%s" % (type(base).__name__, attr), call)
        if isinstance(base, enum.Enum) and attr in ("name", "value"):
            return getattr(base, attr)
        if isinstance(base, type) and issubclass(base, enum.Enum):
            return getattr(base, attr)
        if isinstance(base, HMap) and hasattr(base, "attrs") and attr in base.attrs:
            return base.attrs[attr]
        raise Unsupported("attribute %s on %s (line %s)" % (attr, type(base).__name__, getattr(node, "lineno", "?")))

    def ev_Subscript(self, x):
        base = self.ev(x.value)
        if isinstance(x.slice, ast.Slice):
            lo = self.ev(x.slice.lower) if x.slice.lower else None
            hi = self.ev(x.slice.upper) if x.slice.upper else None
            st = self.ev(x.slice.step) if x.slice.step else None
            if isinstance(base, Seq) and lo is None and hi is None and st == -1:
                return Seq(base.ln, lambda j, b=base: b.elem(b.ln - 1 - j), base.label)
            if isinstance(base, Seq) and lo is None and st is None and hi is not None:
                hz = to_z(hi)
                return Seq(z3.If(hz < 0, z3.IntVal(0), z3.If(hz < base.ln, hz, base.ln)), base.elem, base.label)
            if isinstance(base, (list, tuple, str)) and all(v is None or isinstance(v, int) for v in (lo, hi, st)):
                return base[lo:hi:st]
            if is_sym(base) and base.sort == "name" and self.opaque_slice is not None:
                return self.opaque_slice(self, base, lo, hi, st)
            raise Unsupported("slice")
        return self.getitem(base, self.ev(x.slice), x)

    def getitem(self, base, idx, node=None):
        if isinstance(base, HMap):
            return self._model_call(base.get, idx)
        if isinstance(base, Opaque):
            if base.getitem is None: raise Unsupported("subscript of opaque " + base.tag)
            return self._model_call(base.getitem, self, idx)
        if isinstance(base, FiltSeq):
            if not (isinstance(idx, int) and idx == 0): raise Unsupported("FiltSeq[%r]" % (idx,))
            j = z3.Int("fj!%d" % id(base))
            ex = z3.Exists([j], z3.And(j >= 0, j < base.seq.ln, base.pred(j)))
            if not self.decide(ex): raise PyRaise("IndexError", "", node, implicit=True)
            k = self.fresh("first", "int").z
            q = z3.Int("fq!%d" % id(base))
            self.assume(z3.And(k >= 0, k < base.seq.ln, base.pred(k), z3.ForAll([q], z3.Implies(z3.And(q >= 0, q < k), z3.Not(base.pred(q))))))
            return base.seq.elem(k)
        if isinstance(base, Opt):
            return base.seq.elem(to_z(idx))
        if isinstance(base, Seq):
            zi = to_z(idx)
            self.side_oblige("index in range", z3.And(zi >= 0, zi < base.ln) if not (isinstance(idx, int) and idx < 0) else z3.BoolVal(True), node)
            if isinstance(idx, int) and idx < 0:
                return base.elem(base.ln + idx)
            return base.elem(zi)
        if isinstance(base, AccList):
            if isinstance(idx, int) and idx < 0: return base.neg_index(idx)
            if isinstance(idx, int) and idx == 0 and base.first is not None: return base.first
            raise Unsupported("index into havoc'd list")
        if isinstance(base, PhaseConf):
            return SV(base.value(idx), "real")
        if isinstance(base, dict):
            if is_sym(idx):
                raise Unsupported("dict lookup with symbolic key (line %s)" % getattr(node, "lineno", "?"))
            try:
                return base[idx]
            except KeyError:
                raise PyRaise("KeyError", repr(idx), node, implicit=True)
            except TypeError:
                raise Unsupported("unhashable key")
        if isinstance(base, (list, tuple)):
            if is_sym(idx):
                if idx.sort != "int": raise Unsupported("non-int symbolic index")
                n = len(base)
                if n == 0: raise PyRaise("IndexError", "", node, implicit=True)
                self.side_oblige("index in range", z3.And(idx.z >= -n, idx.z < n), node)
                if not all(is_sym(e) or _isnumber(e) for e in base):
                    # fork over the index value
                    for k in range(n):
                        if self.decide(z3.Or(idx.z == k, idx.z == k - n)): return base[k]
                    raise PyRaise("IndexError", "", node, implicit=True)
                allint = all((is_sym(e) and e.sort == "int") or (isinstance(e, int) and not isinstance(e, bool)) for e in base)
                allbool = all((is_sym(e) and e.sort == "bool") or isinstance(e, bool) for e in base)
                want = None if (allint or allbool) else "real"
                r = to_z(base[n - 1], want)
                for k in range(n - 2, -1, -1):
                    r = z3.If(z3.Or(idx.z == k, idx.z == k - n), to_z(base[k], want), r)
                return SV(r)
            try:
                return base[idx]
            except IndexError:
                raise PyRaise("IndexError", "", node, implicit=True)
            except TypeError:
                raise Unsupported("bad index %r" % (idx,))
        if isinstance(base, str) and isinstance(idx, int):
            return base[idx]
        raise Unsupported("subscript on %s (line %s)" % (type(base).__name__, getattr(node, "lineno", "?")))

    def _comp(self, x, kind):
        if len(x.generators) != 1:
            raise Unsupported("nested comprehension")
        g = x.generators[0]
        it = self.ev(g.iter)
        if isinstance(it, Opt): it = it.seq
        fr = self.frames[-1]
        if isinstance(it, AccList):
            return AccList(it.name + "#" + ast.unparse(x) + "#%d" % len(it.items))
        if isinstance(it, Seq) and g.ifs and kind == "list":
            saved = dict(fr.locals)
            def pred(j, it=it, g=g, saved=saved, fr=fr):
                self.frames.append(Frame(fr.module, fr.cls, dict(saved), fr.fn))
                try:
                    self.assign(g.target, it.elem(j))
                    cs = []
                    for c in g.ifs:
                        # the filter is a TERM over the bound index j: it must not fork the path (a decision on j would leak the bound variable)
                        try:
                            t = self._pure_cond(c)
                        except Unsupported:
                            pos0, npc0 = self.pos, len(self.pc)
                            t = self.truth(self.ev(c))
                            if self.pos != pos0 or len(self.pc) != npc0:
                                raise Unsupported("comprehension filter forks on the element (line %s)" % getattr(c, "lineno", "?"))
                        cs.append(z3.BoolVal(t) if isinstance(t, bool) else to_z(t))
                    return z3.And(*cs)
                finally:
                    self.frames.pop()
            def elem(j, it=it, g=g, x=x, saved=saved, fr=fr):
                self.frames.append(Frame(fr.module, fr.cls, dict(saved), fr.fn))
                try:
                    self.assign(g.target, it.elem(j))
                    return self.ev(x.elt)
                finally:
                    self.frames.pop()
            return FiltSeq(Seq(it.ln, elem), pred)
        if isinstance(it, Seq):
            if g.ifs or kind != "list": raise Unsupported("filtered comprehension over symbolic sequence")
            saved = dict(fr.locals)
            def elem(j, it=it, g=g, x=x, saved=saved, fr=fr):
                # lazily evaluated element (possibly after the enclosing call returned): own frame over the captured locals
                self.frames.append(Frame(fr.module, fr.cls, dict(saved), fr.fn))
                try:
                    self.assign(g.target, it.elem(j))
                    return self.ev(x.elt)
                finally:
                    self.frames.pop()
            return Seq(it.ln, elem)
        items = self.iterate(it, x)
        out = [] if kind != "dict" else {}
        shadow = {n.id for n in ast.walk(g.target) if isinstance(n, ast.Name)}
        saved = {k: fr.locals[k] for k in shadow if k in fr.locals}
        try:
            for v in items:
                self.assign(g.target, v)
                if all(self.decide(self.truth(self.ev(c))) for c in g.ifs):
                    if kind == "dict": out[self.ev(x.key)] = self.ev(x.value)
                    else: out.append(self.ev(x.elt))
        finally:
            for k in shadow:
                fr.locals.pop(k, None)
            fr.locals.update(saved)
        return out if kind != "set" else set(out)

    def ev_ListComp(self, x): return self._comp(x, "list")
    def ev_GeneratorExp(self, x): return self._comp(x, "list")
    def ev_SetComp(self, x): return self._comp(x, "set")
    def ev_DictComp(self, x): return self._comp(x, "dict")

    def iterate(self, it, node=None):
        """concrete iteration (unrolled)"""
        if isinstance(it, (list, tuple, set, frozenset, range, str)): return list(it)
        if isinstance(it, dict): return list(it.keys())
        if isinstance(it, type) and issubclass(it, enum.Enum): return list(it)
        if isinstance(it, (type({}.keys()), type({}.values()), type({}.items()), zip, enumerate, reversed, map)): return list(it)
        if isinstance(it, HavocDict): raise Unsupported("iteration over havoc'd dict")
        raise Unsupported("iteration over %s (line %s)" % (type(it).__name__, getattr(node, "lineno", "?")))

    def ev_Call(self, x):
        f = self.ev(x.func)
        args = []
        for a in x.args:
            if isinstance(a, ast.Starred):
                args.extend(self.iterate(self.ev(a.value)))
            else:
                args.append(self.ev(a))
        kwargs = {}
        for k in x.keywords:
            if k.arg is None:
                d = self.ev(k.value)
                if not isinstance(d, dict): raise Unsupported("** of non-dict")
                kwargs.update(d)
            else:
                kwargs[k.arg] = self.ev(k.value)
        return self.call_value(f, args, kwargs, x)

    def _model_call(self, fn, *a, **k):
        """a side-car model (heap map, opaque method, builtin stub) that has no answer for this use means the code left the
        modelled subset: UNDECIDED, never a crash of the checker"""
        try:
            return fn(*a, **k)
        except (KeyError, IndexError, TypeError, AttributeError, AssertionError, NotImplementedError) as ex:
            raise Unsupported("side-car model has no answer: %s: %s" % (type(ex).__name__, str(ex)[:80]))

    def call_value(self, f, args, kwargs, node):
        if isinstance(f, Builtin):
            return self._model_call(f.fn, self, *args, **kwargs)
        if isinstance(f, FuncRef):
            return self._invoke(f.module, None, f.node, f.qual, None, args, kwargs)
        if isinstance(f, BoundMethod):
            mod = self.src.module_of_class(f.owner).name
            return self._invoke(mod, f.owner, f.node, f.qual, f.recv, args, kwargs)
        if isinstance(f, ClassRef):
            qual = "%s.%s" % (self.src.module_of_class(f.cls).name, f.cls)
            if qual in self.overrides:
                return self.overrides[qual](self, None, args, kwargs)
            return self._instantiate(f.cls, args, kwargs)
        if isinstance(f, type) and f in (int, float, str, bool, list, dict, tuple, set):
            return BUILTINS[f.__name__].fn(self, *args, **kwargs)
        raise Unsupported("call of %r (line %s)" % (f, getattr(node, "lineno", "?")))

    # ------------------------------------------------------------------------------------------ statements
    def exec_block(self, stmts):
        for s in stmts:
            self.exec_stmt(s)

    def exec_stmt(self, s):
        m = getattr(self, "st_" + type(s).__name__, None)
        if m is None:
            raise Unsupported("statement %s (line %s)" % (type(s).__name__, getattr(s, "lineno", "?")))
        return m(s)

    def st_Expr(self, s):
        if isinstance(s.value, ast.Constant): return
        self.ev(s.value)

    def st_Pass(self, s): pass
    def st_Import(self, s): pass
    def st_ImportFrom(self, s): pass

    def st_Assign(self, s):
        v = self.ev(s.value)
        for t in s.targets:
            self.assign(t, v, s)

    def st_AnnAssign(self, s):
        if s.value is not None:
            self.assign(s.target, self.ev(s.value), s)

    def assign(self, t, v, node=None):
        if isinstance(t, ast.Name):
            self.frames[-1].locals[t.id] = v
        elif isinstance(t, (ast.Tuple, ast.List)):
            if isinstance(v, (Seq, Opt, HMap, SV)): raise Unsupported("unpacking a symbolic value")
            vals = self.iterate(v, node)
            if len(vals) != len(t.elts):
                raise PyRaise("ValueError", "unpack", node, implicit=True)
            for a, b in zip(t.elts, vals):
                self.assign(a, b, node)
        elif isinstance(t, ast.Subscript):
            base = self.ev(t.value); idx = self.ev(t.slice)
            self.setitem(base, idx, v, t)
        elif isinstance(t, ast.Attribute):
            base = self.ev(t.value)
            if isinstance(base, (PyObj, Opaque)):
                self.log_write(base, "." + t.attr, t)
                base.attrs[t.attr] = v
            else:
                raise Unsupported("attribute store on %s" % type(base).__name__)
        else:
            raise Unsupported("assignment target " + type(t).__name__)

    def setitem(self, base, idx, v, node=None):
        if isinstance(base, HMap):
            if base.set is None: raise Unsupported("store into read-only heap map " + str(base.label))
            self.log_write(base, idx if not is_sym(idx) else str(idx.z), node)
            base.set(idx, v); return
        if isinstance(base, Opaque):
            if base.setitem is None: raise Unsupported("store into opaque " + base.tag)
            self.log_write(base, idx if not is_sym(idx) else str(idx.z), node)
            base.setitem(self, idx, v); return
        if isinstance(base, MSeq):
            zi = to_z(idx)
            self.side_oblige("index in range", z3.And(zi >= 0, zi < base.ln), node)
            base.store(idx, v); return
        if isinstance(base, dict):
            if is_sym(idx): raise Unsupported("dict store with symbolic key (line %s)" % getattr(node, "lineno", "?"))
            self.log_write(base, idx, node)
            dict.__setitem__(base, idx, v); return
        if isinstance(base, list):
            if is_sym(idx): raise Unsupported("list store with symbolic index")
            self.log_write(base, idx, node)
            try:
                base[idx] = v
            except IndexError:
                raise PyRaise("IndexError", "", node, implicit=True)
            return
        raise Unsupported("store into %s (line %s)" % (type(base).__name__, getattr(node, "lineno", "?")))

    def st_AugAssign(self, s):
        cur = self.ev(s.target)
        val = self.ev(s.value)
        if isinstance(cur, AccList) and isinstance(s.op, ast.Add):
            cur.extend(self.iterate(val, s)); return
        if isinstance(cur, list) and isinstance(s.op, ast.Add):
            self.log_write(cur, None, s, how="+=")
            cur.extend(self.iterate(val, s)); return
        self.assign(s.target, self.binop(s.op, cur, val, s), s)

    def st_Return(self, s):
        raise _Return(self.ev(s.value) if s.value is not None else None)

    def st_Raise(self, s):
        et = "Exception"
        if s.exc is not None:
            e = s.exc
            if isinstance(e, ast.Call):
                et = ast.unparse(e.func)
                # message formatting is dropped (types are kept); arguments are still evaluated for their side conditions
                for a in e.args:
                    try:
                        self.ev(a)
                    except Unsupported:
                        pass
            else:
                et = ast.unparse(e)
        raise PyRaise(et, "", s)

    def st_Break(self, s): raise _Break()
    def st_Continue(self, s): raise _Continue()

    def st_Assert(self, s):
        if not self.decide(self.truth(self.ev(s.test))):
            raise PyRaise("AssertionError", "", s)

    def _is_simple_block(self, stmts):
        for st in stmts:
            if isinstance(st, ast.Pass): continue
            if isinstance(st, (ast.Assign, ast.AugAssign)):
                tg = st.targets if isinstance(st, ast.Assign) else [st.target]
                if not all(isinstance(t, ast.Name) for t in tg): return False
                if any(isinstance(n, (ast.Call,)) and not (isinstance(n.func, ast.Name) and n.func.id in ("abs", "min", "max", "float")) for n in ast.walk(st.value)): return False
                continue
            if isinstance(st, ast.If):
                if not (self._is_simple_block(st.body) and self._is_simple_block(st.orelse)): return False
                continue
            if isinstance(st, ast.Expr) and isinstance(st.value, ast.Call) and isinstance(st.value.func, ast.Attribute) and st.value.func.attr == "append" \
                    and isinstance(st.value.func.value, ast.Name) and len(st.value.args) == 1 and not st.value.keywords:
                # token_list.append(<call-free expression>) on a local python list of strings: merged as a guarded element
                tgt = self.frames[-1].locals.get(st.value.func.value.id)
                if isinstance(tgt, list) and all(isinstance(x_, (str, GTok)) for x_ in tgt) and not any(isinstance(n, ast.Call) for n in ast.walk(st.value.args[0])):
                    continue
            return False
        return True

    def _pure_cond(self, x):
        """evaluate a branch condition without forking (And/Or as terms); only for operands that cannot raise"""
        if isinstance(x, ast.BoolOp):
            vs = [self._pure_cond(v) for v in x.values]
            vs = [to_z(v) if not isinstance(v, bool) else z3.BoolVal(v) for v in vs]
            return z3.And(*vs) if isinstance(x.op, ast.And) else z3.Or(*vs)
        if isinstance(x, ast.UnaryOp) and isinstance(x.op, ast.Not):
            v = self._pure_cond(x.operand)
            return (not v) if isinstance(v, bool) else z3.Not(v)
        for n in ast.walk(x):
            if isinstance(n, ast.Call) and not (isinstance(n.func, ast.Name) and n.func.id in ("abs", "min", "max", "float")):
                raise Unsupported("impure condition")
        return self.truth(self.ev(x))

    def st_If(self, s):
        if self.merge_ifs and self._is_simple_block(s.body) and self._is_simple_block(s.orelse):
            try:
                c = self._pure_cond(s.test)
            except Unsupported:
                c = None
            if c is not None and not isinstance(c, bool):
                return self._merged_if(s, c)
        c = self.truth(self.ev(s.test))
        if self.decide(c):
            self.exec_block(s.body)
        else:
            self.exec_block(s.orelse)

    def _merged_if(self, s, c):
        loc = self.frames[-1].locals
        base = dict(loc)
        toklists = {k: v for k, v in base.items() if isinstance(v, list) and all(isinstance(x_, (str, GTok)) for x_ in v)}
        def enter():
            loc.clear(); loc.update(base)
            for k, v in toklists.items(): loc[k] = list(v)          # appends inside a branch go to a private copy
        enter(); self.exec_block(s.body); a = dict(loc)
        enter(); self.exec_block(s.orelse); b = dict(loc)
        loc.clear(); loc.update(base)
        for k in set(a) | set(b):
            va, vb = a.get(k, _MISSING), b.get(k, _MISSING)
            if k in toklists and isinstance(va, list) and isinstance(vb, list):
                n0 = len(toklists[k])
                if va[:n0] != toklists[k] or vb[:n0] != toklists[k]: raise Unsupported("token list %s rewritten inside a merged branch" % k)
                if len(va) == n0 and len(vb) == n0: loc[k] = toklists[k]; continue
                wrap = lambda g, x_: GTok(z3.And(g, x_.guard), x_.item) if isinstance(x_, GTok) else GTok(g, x_)
                merged = toklists[k]
                merged.extend([wrap(c, x_) for x_ in va[n0:]] + [wrap(z3.Not(c), x_) for x_ in vb[n0:]])      # the list object itself is extended (aliases see it)
                loc[k] = merged
                continue
            if va is vb:
                if va is not _MISSING: loc[k] = va
                continue
            if va is _MISSING or vb is _MISSING:
                raise Unsupported("variable %s bound on one branch only" % k)
            loc[k] = self._ite(c, va, vb)

    def _ite(self, c, va, vb):
        if isinstance(va, (CondStr, str)) and isinstance(vb, (CondStr, str)):
            sa, sb = CondStr.of(va).segs, CondStr.of(vb).segs
            n = 0
            while n < len(sa) and n < len(sb) and sa[n][1] == sb[n][1] and sa[n][0].eq(sb[n][0]): n += 1
            return CondStr(sa[:n] + [(z3.And(c, g), t) for g, t in sa[n:]] + [(z3.And(z3.Not(c), g), t) for g, t in sb[n:]])
        if (is_sym(va) or _isnumber(va)) and (is_sym(vb) or _isnumber(vb)):
            bools = all((is_sym(v) and v.sort == "bool") or isinstance(v, bool) for v in (va, vb))
            ints = all((is_sym(v) and v.sort == "int") or (isinstance(v, int) and not isinstance(v, bool)) for v in (va, vb))
            want = None if (bools or ints) else "real"
            return SV(z3.If(c, to_z(va, want), to_z(vb, want)))
        raise Unsupported("cannot merge values of type %s/%s" % (type(va).__name__, type(vb).__name__))

    def _loop_ordinal(self, node):
        fn = self.frames[-1].fn
        if fn is None: return None
        k = 0
        for n in ast.walk(fn):
            if type(n) is type(node):
                if n is node: return k
                k += 1
        return None

    def _qual(self):
        fr = self.frames[-1]
        if fr.fn is None: return None
        return "%s.%s.%s" % (fr.module, fr.cls, fr.fn.name) if fr.cls else "%s.%s" % (fr.module, fr.fn.name)

    def st_For(self, s):
        it = self.ev(s.iter)
        if isinstance(it, Opt): it = it.seq
        if isinstance(it, Seq):
            return self._loop_with_spec(s, it)
        items = self.iterate(it, s)
        broke = False
        for v in items:
            self.assign(s.target, v, s)
            try:
                self.exec_block(s.body)
            except _Break:
                broke = True; break
            except _Continue:
                continue
        if not broke:
            self.exec_block(s.orelse)

    def st_While(self, s):
        key = (self._qual(), "While", self._loop_ordinal(s))
        if key in self.loop_specs:
            return self._loop_with_spec(s, None)
        # no contract: only loops whose condition stays concrete can be unrolled
        n = 0
        broke = False
        while True:
            c = self.truth(self.ev(s.test))
            if not isinstance(c, bool):
                raise Unsupported("while-loop with symbolic condition and no invariant (line %d)" % s.lineno)
            if not c: break
            n += 1
            if n > 10000: raise Unsupported("unbounded concrete loop")
            try:
                self.exec_block(s.body)
            except _Break:
                broke = True; break
            except _Continue:
                continue
        if not broke:
            self.exec_block(s.orelse)

    def _assigned_names(self, stmts):
        out = []
        def walk(node):
            # comprehensions have their own scope: their targets do not rebind names of the enclosing function
            yield node
            for ch in ast.iter_child_nodes(node):
                if isinstance(node, (ast.ListComp, ast.SetComp, ast.DictComp, ast.GeneratorExp)) and isinstance(ch, ast.comprehension):
                    for sub in ast.walk(ch.iter): yield sub
                    continue
                yield from walk(ch)
        for b in stmts:
            for n in walk(b):
                if isinstance(n, ast.Name) and isinstance(n.ctx, ast.Store) and n.id not in out:
                    out.append(n.id)
                # containers mutated in place through a local name
                if isinstance(n, (ast.Subscript,)) and isinstance(n.ctx, ast.Store) and isinstance(n.value, ast.Name) and n.value.id not in out:
                    out.append(n.value.id)
                if isinstance(n, ast.AugAssign) and isinstance(n.target, ast.Name) and n.target.id not in out:
                    out.append(n.target.id)
        return out

    def _havoc(self, spec, names):
        loc = self.frames[-1].locals
        for m in names:
            if m not in loc: continue
            old = loc[m]
            if m in spec.havoc:
                loc[m] = spec.havoc[m](self, old)
            elif is_sym(old):
                loc[m] = self.fresh(m, old.z.sort())
            elif isinstance(old, bool):
                loc[m] = self.fresh(m, "bool")
            elif isinstance(old, int):
                loc[m] = self.fresh(m, "int")
            elif isinstance(old, float):
                loc[m] = self.fresh(m, "real")
            elif isinstance(old, dict):
                loc[m] = HavocDict()
            elif isinstance(old, list):
                loc[m] = AccList(m)
            elif isinstance(old, MSeq):
                self.fresh_n += 1
                loc[m] = MSeq(old.ln, z3.Array("%s!%d" % (m, self.fresh_n), z3.IntSort(), z3.IntSort()), old.label)
            elif isinstance(old, AccList):
                loc[m] = AccList(m, old.last)
            elif isinstance(old, (tuple, str)) or old is None:
                raise Unsupported("cannot havoc %s of type %s without a havoc rule" % (m, type(old).__name__))
            else:
                pass   # heap objects (Opaque/HMap/PyObj) are shared; their abstraction is state-independent

    def _loop_with_spec(self, s, seq):
        key = (self._qual(), type(s).__name__, self._loop_ordinal(s))
        spec = self.loop_specs.get(key)
        if spec is None:
            raise Unsupported("loop %s has no side-car invariant" % (key,))
        loc = self.frames[-1].locals
        mods = spec.modifies if spec.modifies is not None else self._assigned_names(s.body)
        mods = list(mods) + [g for g in spec.ghost if g not in mods]
        if isinstance(s, ast.For):
            mods = [m for m in mods if m not in {n.id for n in ast.walk(s.target) if isinstance(n, ast.Name)}]
        self.oblige(spec.name + "/inv-init", spec.inv(loc, z3.IntVal(0)), kind="loop")
        alt = self.choose(2)
        k = self.fresh("k", "int").z
        self._havoc(spec, mods)
        if spec.heap_havoc is not None:
            spec.heap_havoc(self)
        if alt == 0:        # arbitrary iteration
            self.path_extra["iterating"] = spec.name
            if seq is not None:
                self.assume(z3.And(k >= 0, k < seq.ln))
                self.assume(spec.inv(loc, k))
                self.assign(s.target, seq.elem(k), s)
            else:
                self.assume(spec.inv(loc, k))
                c = self.truth(self.ev(s.test))
                if isinstance(c, bool):
                    if not c: raise PathEnd("loop guard false")
                else:
                    self.assume(c)
            var0 = spec.variant(loc) if spec.variant else None
            try:
                self.exec_block(s.body)
            except _Break:
                return          # leaves the loop without the else-clause; state = state at the break
            except _Continue:
                pass
            self.oblige(spec.name + "/inv-preserved", spec.inv(loc, k + 1), kind="loop")
            if var0 is not None:
                self.oblige(spec.name + "/variant-decreases", z3.And(var0 >= 0, spec.variant(loc) < var0), kind="loop")
            raise PathEnd("iteration done")
        else:               # loop exit (iterator exhausted / guard false)
            if seq is not None:
                self.assume(k == seq.ln)
                self.assume(spec.inv(loc, k))
            else:
                self.assume(spec.inv(loc, k))
                c = self.truth(self.ev(s.test))
                if isinstance(c, bool):
                    if c: raise PathEnd("loop guard true")
                else:
                    self.assume(z3.Not(c))
            self.path_extra.setdefault("loop_exit_k", {})[spec.name] = k
            self.exec_block(s.orelse)

    def st_Delete(self, s):
        for t in s.targets:
            self._delete(t, s)

    def _delete(self, t, node):
        if isinstance(t, (ast.List, ast.Tuple)):
            for e in t.elts: self._delete(e, node)
            return
        if isinstance(t, ast.Subscript):
            base = self.ev(t.value); idx = self.ev(t.slice)
            if isinstance(base, Opaque) and "delitem" in base.methods:
                self.log_write(base, idx if not is_sym(idx) else str(idx.z), node, how="del")
                base.methods["delitem"](self, idx, node); return
            if isinstance(base, dict) and not is_sym(idx):
                if idx not in base: raise PyRaise("KeyError", repr(idx), node, implicit=True)
                self.log_write(base, idx, node, how="del")
                del base[idx]; return
            if isinstance(base, list) and isinstance(idx, int):
                self.log_write(base, idx, node, how="del")
                try:
                    del base[idx]
                except IndexError:
                    raise PyRaise("IndexError", "", node, implicit=True)
                return
            raise Unsupported("del on %s" % type(base).__name__)
        if isinstance(t, ast.Name):
            self.frames[-1].locals.pop(t.id, None); return
        raise Unsupported("del target")

    def st_With(self, s):
        for item in s.items:
            v = self.ev(item.context_expr)
            if item.optional_vars is not None:
                self.assign(item.optional_vars, v, s)
        self.exec_block(s.body)

    def st_Try(self, s):
        try:
            try:
                self.exec_block(s.body)
            except PyRaise as e:
                for h in s.handlers:
                    names = []
                    if h.type is None: names = None
                    elif isinstance(h.type, ast.Tuple): names = [ast.unparse(t) for t in h.type.elts]
                    else: names = [ast.unparse(h.type)]
                    base_only = e.etype in ("KeyboardInterrupt", "SystemExit", "GeneratorExit", "BaseException")
                    if names is None or e.etype in names or ("Exception" in names and not base_only) or "BaseException" in names:
                        if h.name: self.frames[-1].locals[h.name] = Opaque("exc:" + e.etype)
                        self.exec_block(h.body)
                        break
                else:
                    raise
            else:
                self.exec_block(s.orelse)
        finally:
            # the finally clause runs on every exit (normal, return, raise, break); a PathEnd/Unsupported skips it
            import sys
            et = sys.exc_info()[0]
            if et is None or not issubclass(et, (PathEnd, Unsupported)):
                self.path_extra["finally_ran"] = self.path_extra.get("finally_ran", 0) + 1
                self.exec_block(s.finalbody)

    def st_FunctionDef(self, s):
        raise Unsupported("nested function definition (line %d)" % s.lineno)

    # ------------------------------------------------------------------------------------------ numpy subset
    def _make_np(self):
        def sign(e, x):
            if is_sym(x): return SV(z_sign(to_z(x, "real") if x.sort != "int" else x.z), "int")
            return (x > 0) - (x < 0)
        def abs_(e, x): return BUILTINS["abs"].fn(e, x)
        def isnan(e, x):
            if is_sym(x): return False     # reals are never NaN; NaN only enters through the assumed interpolator contract
            if isinstance(x, Opaque) and x.tag == "maybe_nan": return SV(x.attrs["is_nan"], "bool")
            return x != x
        def isclose(e, a, b, rtol=1e-05, atol=1e-08, **k):
            if isinstance(a, (list, tuple, NVec)) or isinstance(b, (list, tuple, NVec)):
                # element-wise form with scalar broadcasting: a vector of booleans offering .any() / .all()
                xs = a.items if isinstance(a, NVec) else (list(a) if isinstance(a, (list, tuple)) else None)
                ys = b.items if isinstance(b, NVec) else (list(b) if isinstance(b, (list, tuple)) else None)
                n = len(xs if xs is not None else ys)
                xs = xs if xs is not None else [a] * n; ys = ys if ys is not None else [b] * n
                if len(xs) != len(ys): raise Unsupported("np.isclose of vectors of different length")
                bs = [to_z(isclose(e, x_, y_, rtol=rtol, atol=atol), "bool") for x_, y_ in zip(xs, ys)]
                return Opaque("np.boolvec", attrs={"items": bs}, methods={"any": lambda e_: SV(z3.Or(*bs), "bool"), "all": lambda e_: SV(z3.And(*bs), "bool")})
            za, zb = to_z(a, "real"), to_z(b, "real")
            d = za - zb
            return SV(z3.If(d >= 0, d, -d) <= to_z(atol, "real") + to_z(rtol, "real") * z3.If(zb >= 0, zb, -zb), "bool")
        def array(e, x, **k): return x
        return Opaque("np", methods={"sign": sign, "abs": abs_, "isnan": isnan, "array": array, "asarray": array, "isclose": isclose})


_MISSING = object()


def _as_type(x):
    """the builtin type names (int, float, list, ...) denote the python types when compared / used in membership tests"""
    if isinstance(x, Builtin) and x.name in _PYTYPES:
        return _PYTYPES[x.name]
    return x


def _isnumber(v):
    return isinstance(v, (int, float)) or (hasattr(v, "dtype") and getattr(v, "shape", None) == ())


import operator
_PYOPS = {ast.Add: operator.add, ast.Sub: operator.sub, ast.Mult: operator.mul, ast.Div: operator.truediv, ast.Mod: operator.mod,
          ast.FloorDiv: operator.floordiv, ast.Pow: operator.pow}


# ---------------------------------------------------------------------------------------------- builtins
def _b_abs(e, x):
    if is_sym(x):
        if x.sort == "int": return SV(z_abs(x.z), "int")
        return SV(z_abs(to_z(x, "real")), "real")
    return abs(x)


def _b_minmax(which):
    def f(e, *a):
        if len(a) == 1:
            a = e.iterate(a[0])
        if not any(is_sym(v) for v in a):
            return (min if which == "min" else max)(a)
        ints = all((is_sym(v) and v.sort == "int") or (isinstance(v, int) and not isinstance(v, bool)) for v in a)
        want = None if ints else "real"
        r = to_z(a[0], want)
        for v in a[1:]:
            r = (z_min if which == "min" else z_max)(r, to_z(v, want))
        return SV(r)
    return f


def _b_len(e, x):
    if isinstance(x, Opt): x = x.seq
    if isinstance(x, Seq): return SV(x.ln, "int")
    if isinstance(x, (list, tuple, dict, str, set)) and not isinstance(x, HavocDict): return len(x)
    if isinstance(x, Opaque) and "len" in x.methods: return x.methods["len"](e)
    if isinstance(x, AccList):
        # unknown prefix + tracked appends: only a lower bound on the length is known
        n = e.fresh("len_" + x.name.split("#")[0], "int")
        e.assume(n.z >= len(x.items) + (1 if (x.first is not None and not x.items) else 0))
        return n
    raise Unsupported("len of %s" % type(x).__name__)


_PYTYPES = {"int": int, "float": float, "str": str, "bool": bool, "list": list, "dict": dict, "tuple": tuple, "set": set}


def _type_of(e, v):
    if is_sym(v): return v.pytype
    if isinstance(v, PyObj): return ClassRef(v.cls)
    if isinstance(v, Opaque) and v.cls: return ClassRef(v.cls)
    if isinstance(v, PhaseConf): raise Unsupported("type of abstract phase configuration")
    if isinstance(v, (HavocDict,)): return dict
    return type(v)


def _b_isinstance(e, v, t):
    ts = t if isinstance(t, tuple) else (t,)
    if isinstance(v, Opaque) and v.cls is None and "isinstance" in v.methods and all(isinstance(o, ClassRef) for o in ts):
        # symbolic class membership: returned as a term (no fork), the caller's branch decides
        rs = [v.methods["isinstance"](e, o.cls) for o in ts]
        rs = [z3.BoolVal(r) if isinstance(r, bool) else r for r in rs]
        return SV(z3.Or(*rs) if len(rs) > 1 else rs[0], "bool")
    for one in ts:
        if isinstance(one, Builtin) and one.name in _PYTYPES:
            one = _PYTYPES[one.name]
        if isinstance(one, ClassRef):
            c = v.cls if isinstance(v, PyObj) else (v.cls if isinstance(v, Opaque) else None)
            if c is not None and e.src.is_subclass(c, one.cls): return True
            if isinstance(v, Opaque) and v.cls is None and "isinstance" in v.methods:
                r = v.methods["isinstance"](e, one.cls)
                if e.decide(r): return True
            continue
        if isinstance(one, type):
            if is_sym(v):
                pt = v.pytype
                if issubclass(pt, one): return True
                continue
            if isinstance(v, PhaseConf):
                if one in (dict, list):
                    if v.kind == "any": raise Unsupported("isinstance on abstract phase configuration")
                    if (one is dict and v.kind == "dict") or (one is list and v.kind == "list"): return True
                continue
            if isinstance(v, (PyObj, Opaque, HMap, Seq, Opt, ClassRef)): continue
            if isinstance(v, one): return True
            continue
        raise Unsupported("isinstance against %r" % (one,))
    return False


def _b_float(e, x=0.0):
    if is_sym(x):
        return x if x.sort == "real" else SV(to_z(x, "real"), "real")
    return float(x)


def _b_int(e, x=0):
    if isinstance(x, Opaque) and "__int__" in x.methods:
        return x.methods["__int__"](e)
    if is_sym(x):
        if x.sort == "int": return x
        return e.fresh("int_of", "int")      # havoc (truncation not modelled; not used by any obligation)
    return int(x)


def _b_all(e, it):
    if isinstance(it, AccList): return SV(z3.Bool("all(%s)" % it.name), "bool")    # same list, same comprehension -> same truth value
    if isinstance(it, Seq): return _b_all_seq(e, it)
    for v in e.iterate(it):
        if not e.decide(e.truth(v)): return False
    return True


def _b_any(e, it):
    if isinstance(it, AccList): return SV(z3.Bool("any(%s)" % it.name), "bool")
    if isinstance(it, Seq):
        # any(seq) over a symbolic sequence: exists an index whose element is truthy (elements must be symbolic scalars)
        j = z3.Int("anyj!%d" % id(it)); el = it.elem(j)
        if not is_sym(el): raise Unsupported("any() over a sequence of non-scalar elements")
        return SV(z3.Exists([j], z3.And(j >= 0, j < it.ln, e.truth(el))), "bool")
    for v in e.iterate(it):
        if e.decide(e.truth(v)): return True
    return False


def _b_all_seq(e, it):
    j = z3.Int("allj!%d" % id(it)); el = it.elem(j)
    if not is_sym(el): raise Unsupported("all() over a sequence of non-scalar elements")
    return SV(z3.ForAll([j], z3.Implies(z3.And(j >= 0, j < it.ln), e.truth(el))), "bool")


def _b_sum(e, it, start=0):
    r = start
    for v in e.iterate(it):
        r = e.binop(ast.Add(), r, v)
    return r


def _b_list(e, x=()):
    if isinstance(x, (Seq, Opt)): return x
    return list(e.iterate(x))


def _b_range(e, *a):
    if any(is_sym(v) for v in a): raise Unsupported("range over symbolic bound")
    return range(*a)


def _b_set(e, x=()):
    items = e.iterate(x)
    if any(is_sym(v) for v in items):
        raise Unsupported("set of symbolic values")
    return set(items)


def _noop(e, *a, **k):
    return None


def _b_next(e, it, *default):
    if isinstance(it, FiltSeq):
        try:
            return e.getitem(it, 0)
        except PyRaise as r:
            if r.etype == "IndexError":
                if default: return default[0]
                raise PyRaise("StopIteration", "", None, implicit=True)
            raise
    if isinstance(it, list):
        if it: return it[0]
        if default: return default[0]
        raise PyRaise("StopIteration", "", None, implicit=True)
    raise Unsupported("next() of %s" % type(it).__name__)


BUILTINS = {
    "abs": Builtin("abs", _b_abs), "min": Builtin("min", _b_minmax("min")), "max": Builtin("max", _b_minmax("max")),
    "len": Builtin("len", _b_len), "isinstance": Builtin("isinstance", _b_isinstance), "type": Builtin("type", _type_of),
    "float": Builtin("float", _b_float), "int": Builtin("int", _b_int), "all": Builtin("all", _b_all), "any": Builtin("any", _b_any),
    "sum": Builtin("sum", _b_sum), "list": Builtin("list", _b_list), "range": Builtin("range", _b_range), "set": Builtin("set", _b_set),
    "tuple": Builtin("tuple", lambda e, x=(): tuple(e.iterate(x))), "dict": Builtin("dict", lambda e, x=None, **k: dict(x or {}, **k)),
    "zip": Builtin("zip", lambda e, *a: list(zip(*[e.iterate(x) for x in a]))),
    "enumerate": Builtin("enumerate", lambda e, x, start=0: (Seq(x.ln, lambda j, x=x, start=start: (SV(j + start, "int"), x.elem(j))) if isinstance(x, Seq) else list(enumerate(e.iterate(x), start)))),
    "reversed": Builtin("reversed", lambda e, x: list(reversed(e.iterate(x)))),
    "sorted": Builtin("sorted", lambda e, x: sorted(e.iterate(x))),
    "str": Builtin("str", lambda e, x="": str(x) if not is_sym(x) else "<fmt>"),
    "bool": Builtin("bool", lambda e, x=False: (lambda t: t if isinstance(t, bool) else SV(t, "bool"))(e.truth(x))),
    "print": Builtin("print", _noop), "warn": Builtin("warn", _noop), "next": Builtin("next", lambda e, it, *d: _b_next(e, it, *d)),
    "ValueError": Builtin("ValueError", lambda e, *a: Opaque("exc:ValueError")),
    "KeyError": Builtin("KeyError", lambda e, *a: Opaque("exc:KeyError")),
    "RuntimeError": Builtin("RuntimeError", lambda e, *a: Opaque("exc:RuntimeError")),
    "DeprecationWarning": "DeprecationWarning",
    "True": True, "False": False, "None": None,
}
