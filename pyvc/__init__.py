from .values import *
from .engine import Engine, PyRaise, PathEnd, LoopSpec, Path
from .loader import Source, FunctionMissing
from . import solver
