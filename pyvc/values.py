"""Value domain of the VC generator.  Concrete Python values are used as they are; everything symbolic is *tagged*
(never a bare z3 term: z3 overloads __eq__ and mixed comparisons would silently go wrong)."""
import z3
from fractions import Fraction


class Unsupported(Exception):
    """construct outside the encoded subset -> the obligations of that function are UNDECIDED (never 'failed')"""


class SV:
    """symbolic scalar.  sort: real | int | bool | name (uninterpreted: component / rail / phase names; equality only)"""
    __slots__ = ("z", "sort", "pytype")

    def __init__(self, zt, sort=None, pytype=None):
        self.z = zt
        if sort is None:
            sort = "bool" if z3.is_bool(zt) else "int" if z3.is_int(zt) else "real" if z3.is_real(zt) else "name"
        self.sort = sort
        self.pytype = pytype or {"real": float, "int": int, "bool": bool, "name": str}[sort]

    def __eq__(self, o):
        raise Unsupported("python-level == on a symbolic value (engine bug or unsupported container operation)")

    def __ne__(self, o):
        raise Unsupported("python-level != on a symbolic value")

    def __hash__(self):
        return id(self)

    def __bool__(self):
        raise Unsupported("python-level truth value of a symbolic value")

    def __repr__(self):
        return "SV<%s:%s>" % (self.sort, self.z)

    def __deepcopy__(self, memo):
        return self


NAME = z3.DeclareSort("Name")
_name_consts = {}


def name_const(s):
    """the Name-sorted constant standing for the python string s; distinct strings are distinct (see distinct_names())"""
    if s not in _name_consts:
        _name_consts[s] = z3.Const("str:" + (s if s else '""'), NAME)
    return _name_consts[s]


def distinct_names():
    cs = list(_name_consts.values())
    return [z3.Distinct(*cs)] if len(cs) > 1 else []


def real_val(x):
    if isinstance(x, bool):
        return z3.RealVal(1 if x else 0)
    if isinstance(x, int):
        return z3.RealVal(x)
    if isinstance(x, Fraction):
        return z3.RealVal(str(x))
    return z3.RealVal(repr(float(x)))      # decimal reading of the literal ("float as mathematical real")


def to_z(v, want=None):
    """python / tagged value -> z3 term (want: 'real' coerces ints)"""
    if isinstance(v, SV):
        t = v.z
        if want == "real" and v.sort == "int":
            t = z3.ToReal(t)
        if want == "real" and v.sort == "bool":
            t = z3.If(t, z3.RealVal(1), z3.RealVal(0))
        return t
    if isinstance(v, z3.ExprRef):
        return v
    if isinstance(v, bool):
        return z3.BoolVal(v) if want != "real" else real_val(v)
    if isinstance(v, int):
        return z3.IntVal(v) if want != "real" else z3.RealVal(v)
    if isinstance(v, float):
        return real_val(v)
    if isinstance(v, str):
        return name_const(v)
    if hasattr(v, "dtype") and getattr(v, "shape", None) == ():
        return real_val(float(v))
    raise Unsupported("to_z(%r)" % (type(v).__name__,))


def is_sym(v):
    return isinstance(v, SV)


def is_num(v):
    return isinstance(v, (int, float)) and not isinstance(v, bool) or isinstance(v, bool)


def z_abs(t):
    return z3.If(t >= 0, t, -t)


def z_sign(t):
    one, zero = (z3.IntVal(1), z3.IntVal(0))
    return z3.If(t > 0, one, z3.If(t < 0, -one, zero))


def z_min(a, b):
    return z3.If(a <= b, a, b)      # python: min(a,b) returns a unless b < a


def z_max(a, b):
    return z3.If(b > a, b, a)


class PyObj:
    """instance of a class of the real source; attributes in .attrs, methods looked up along the MRO in the source"""

    def __init__(self, cls, attrs=None, label=None):
        self.cls, self.attrs, self.label = cls, attrs if attrs is not None else {}, label

    def __repr__(self):
        return "PyObj<%s %s>" % (self.cls, self.label or "")


class Opaque:
    """opaque object: attributes + methods given by python callables f(engine, *args, **kw) (assumed contracts)"""

    def __init__(self, tag, attrs=None, methods=None, getitem=None, setitem=None, cls=None, truth=None, contains=None, label=None):
        self.tag, self.attrs, self.methods = tag, attrs or {}, methods or {}
        self.getitem, self.setitem, self.cls, self.truth, self.contains = getitem, setitem, cls, truth, contains
        self.label = label or tag

    def __repr__(self):
        return "Opaque<%s>" % self.tag


def enum_like(t, tag="ctype"):
    """enum-member-like object whose identity is the Name-sorted term t: `.name`, and == / in against real Enum members or other such objects"""
    def eq(e, other, t=t):
        if isinstance(other, Opaque) and "name" in other.attrs: return t == other.attrs["name"].z
        if hasattr(other, "name") and isinstance(getattr(other, "name"), str): return t == name_const(other.name)
        return False
    return Opaque(tag, attrs={"name": SV(t, "name")}, methods={"eq": eq})


class HMap:
    """abstract heap map idx -> value through python callables"""

    def __init__(self, get, set_=None, label=None, contains=None):
        self.get, self.set, self.label, self.contains = get, set_, label, contains


class Seq:
    """symbolic sequence: z3 Int length + element function (python callable on a z3 Int term)"""

    def __init__(self, ln, elem, label=None):
        self.ln, self.elem, self.label = ln, elem, label


class MSeq(Seq):
    """mutable symbolic list of ints: z3 Int length + z3 Array(Int -> Int) content (list built by a comprehension and then updated in place)"""

    def __init__(self, ln, arr, label=None):
        self.ln, self.arr, self.label = ln, arr, label
        self.elem = lambda j: SV(z3.Select(self.arr, j if isinstance(j, z3.ExprRef) else z3.IntVal(j)), "int")

    def store(self, idx, v):
        self.arr = z3.Store(self.arr, to_z(idx), to_z(v))


class FiltSeq:
    """[x for x in <Seq> if P(x)]: the sub-sequence of a symbolic sequence selected by a predicate on positions"""

    def __init__(self, seq, pred):
        self.seq, self.pred = seq, pred       # pred(j: z3 Int) -> z3 Bool


class Opt:
    """'-1 or list' as used by _parents/_childs: (isnone: z3 Bool, seq: Seq)"""

    def __init__(self, isnone, seq):
        self.isnone, self.seq = isnone, seq


class AccList:
    """loop-carried list of a slice: unknown prefix, tracked appends.  last: value of [-1] when nothing was appended"""

    def __init__(self, name, last=None, items=None, first=None):
        self.name, self.last, self.items, self.first = name, last, list(items or []), first

    def extend(self, vals):
        self.items.extend(vals)

    def append(self, v):
        self.items.append(v)

    def neg_index(self, k):
        if k == -1:
            if self.items:
                return self.items[-1]
            if self.last is not None:
                return self.last
        raise Unsupported("index %d into havoc'd list %s" % (k, self.name))


class HavocDict(dict):
    """loop-carried dict of a slice: unknown content; only keys stored on this path may be read"""

    def __missing__(self, k):
        raise Unsupported("read of unknown key %r of a havoc'd dict" % (k,))


class CondStr:
    """string built by conditional concatenation: list of (guard: z3 Bool, text).  Assumption 6 of DESIGN section 4:
    only its token set is observed."""

    def __init__(self, segs=None, stripped=False):
        self.segs, self.stripped = list(segs or []), stripped

    @staticmethod
    def of(s):
        return s if isinstance(s, CondStr) else CondStr([(z3.BoolVal(True), s)] if s else [])

    def plus(self, other):
        return CondStr(self.segs + CondStr.of(other).segs)

    def tokens(self):
        out = []
        for g, s in self.segs:
            for tok in s.split():
                out.append((g, tok))
        return out

    def nonempty(self):
        toks = self.tokens()
        return z3.Or(*[g for g, _ in toks]) if toks else z3.BoolVal(False)


class GTok:
    """element of a python list that was appended under a symbolic guard (if-merging): present iff guard"""

    def __init__(self, guard, item):
        self.guard, self.item = guard, item

    def __repr__(self):
        return "GTok<%r>" % (self.item,)


class PhaseConf:
    """abstract phase configuration (list for sources/converters/..., dict for loads), assumption 4 of DESIGN section 4:
    (nonempty, contains(phase), value(phase)) with contains => nonempty"""

    def __init__(self, tag, kind="any"):
        self.tag, self.kind = tag, kind
        self.nonempty = z3.Bool("pc_nonempty_" + tag)
        self._contains = z3.Function("pc_contains_" + tag, NAME, z3.BoolSort())
        self._value = z3.Function("pc_value_" + tag, NAME, z3.RealSort())

    def contains(self, phase):
        return self._contains(to_z(phase))

    def value(self, phase):
        return self._value(to_z(phase))

    def axioms(self, phase):
        return [z3.Implies(self.contains(phase), self.nonempty)]


class NVec:
    """numpy-array stand-in: fixed-length vector of (symbolic) numbers; + - * / act element-wise, scalars broadcast"""

    def __init__(self, items):
        self.items = list(items)

    def __repr__(self):
        return "NVec%r" % (self.items,)


class ClassRef:
    def __init__(self, cls):
        self.cls = cls

    def __repr__(self):
        return "ClassRef<%s>" % self.cls


class FuncRef:
    def __init__(self, module, node, qual):
        self.module, self.node, self.qual = module, node, qual


class BoundMethod:
    def __init__(self, recv, owner, node, qual):
        self.recv, self.owner, self.node, self.qual = recv, owner, node, qual


class Builtin:
    def __init__(self, name, fn):
        self.name, self.fn = name, fn

    def __repr__(self):
        return "Builtin<%s>" % self.name
