"""Design-phase spike (NOT the framework): conservative may-write scan for the C17 frame obligations.
Walks the real AST of the analysis methods and everything they call inside sysloss, classifies every store / del /
mutator call by the root of its target (fresh local, alias of external state, self scratch attr, persistent state, parameter).
Run: python3-vt spikes/frame_maywrite_scan.py [src-dir]
"""
import ast, sys, collections
SRC = sys.argv[1] if len(sys.argv) > 1 else "/repo/src/sysloss"
mods = {m: ast.parse(open("%s/%s.py" % (SRC, m)).read()) for m in ("system", "components", "diagram")}
funcs = {}
for m, tree in mods.items():
    for n in tree.body:
        if isinstance(n, ast.FunctionDef): funcs.setdefault(n.name, []).append((m, None, n))
        if isinstance(n, ast.ClassDef):
            for f in n.body:
                if isinstance(f, ast.FunctionDef): funcs.setdefault(f.name, []).append((m, n.name, f))
ENTRY = ["solve", "rail_rep", "params", "limits", "phases", "tree", "save", "plot_interp", "make_diag", "make_hdiag", "batt_life"]
SCRATCH = {"_parents", "_childs", "_topo_nodes", "_phase_lkup"}
MUTATORS = {"append", "extend", "pop", "remove", "update", "clear", "insert", "sort", "setdefault", "popitem", "add_node", "add_child", "add_edge", "remove_node", "reverse"}
FRESH_CALLS = {"list", "dict", "set", "tuple", "sorted", "zeros", "ones", "DataFrame", "Series", "deepcopy", "copy", "Tree", "Dot", "Subgraph", "figure", "linspace", "meshgrid", "asarray", "array", "concat", "to_frame"}

def root_and_chain(e):
    chain = []
    while isinstance(e, (ast.Attribute, ast.Subscript)):
        chain.append(e.attr if isinstance(e, ast.Attribute) else "[]"); e = e.value
    return (e.id if isinstance(e, ast.Name) else ("call" if isinstance(e, ast.Call) else type(e).__name__)), list(reversed(chain))

def classify(fn):
    params = {a.arg for a in fn.args.args + fn.args.kwonlyargs}
    kind = {p: ("self" if p == "self" else "param") for p in params}      # name -> fresh | alias | param | self
    nested = [n for n in ast.walk(fn) if isinstance(n, ast.FunctionDef) and n is not fn]
    def expr_kind(v):
        if isinstance(v, (ast.List, ast.Dict, ast.Set, ast.ListComp, ast.DictComp, ast.Constant, ast.BinOp, ast.JoinedStr, ast.Compare, ast.BoolOp, ast.UnaryOp, ast.Tuple)): return "fresh"
        if isinstance(v, ast.Call):
            f = v.func; nm = f.attr if isinstance(f, ast.Attribute) else (f.id if isinstance(f, ast.Name) else "")
            if nm in FRESH_CALLS or nm[:1].isupper(): return "fresh"
            if isinstance(f, ast.Attribute):
                r, ch = root_and_chain(f.value)
                if kind.get(r) in ("self",) and nm.startswith("_"): return "fresh?"     # private helper results: checked separately (e.g. _sys_vars)
                if r in ("np", "pd", "rx", "plt", "copy", "json", "toml"): return "fresh"
                return "fresh?" if kind.get(r, "fresh") == "fresh" else "alias"
            return "fresh?"
        if isinstance(v, (ast.Attribute, ast.Subscript, ast.Name)):
            r, ch = root_and_chain(v)
            k = kind.get(r, "global" if isinstance(v, ast.Name) and r not in kind else "fresh")
            return "alias" if k in ("self", "param", "alias", "global") else k
        return "fresh?"
    out = []
    for n in ast.walk(fn):
        if isinstance(n, ast.Assign):
            for t in n.targets:
                for tt in (t.elts if isinstance(t, ast.Tuple) else [t]):
                    if isinstance(tt, ast.Name):
                        ek = expr_kind(n.value) if not isinstance(t, ast.Tuple) else "fresh?"
                        prev = kind.get(tt.id)
                        kind[tt.id] = ek if prev in (None, ek) else ("alias" if "alias" in (prev, ek) else ek)
    for n in ast.walk(fn):
        tgts = []
        if isinstance(n, ast.Assign): tgts = [x for t in n.targets for x in (t.elts if isinstance(t, ast.Tuple) else [t])]
        elif isinstance(n, ast.AugAssign): tgts = [n.target]
        elif isinstance(n, ast.Delete): tgts = [x for t in n.targets for x in (t.elts if isinstance(t, (ast.List, ast.Tuple)) else [t])]
        for t in tgts:
            if isinstance(t, ast.Name): continue
            r, ch = root_and_chain(t)
            out.append((n.lineno, "store", r, ch, kind.get(r, "global")))
        if isinstance(n, ast.Call) and isinstance(n.func, ast.Attribute):
            inplace = any(k.arg == "inplace" and getattr(k.value, "value", False) for k in n.keywords)
            if n.func.attr in MUTATORS or inplace:
                r, ch = root_and_chain(n.func.value)
                out.append((n.lineno, "call ." + n.func.attr, r, ch, kind.get(r, "global")))
    return out, kind

seen, todo = set(), [(e,) for e in ENTRY]
reach = collections.OrderedDict()
while todo:
    (name,) = todo.pop()
    for (m, cls, fn) in funcs.get(name, []):
        key = (m, cls, name)
        if key in seen: continue
        seen.add(key); reach[key] = fn
        for c in ast.walk(fn):
            if isinstance(c, ast.Call):
                nm = c.func.attr if isinstance(c.func, ast.Attribute) else (c.func.id if isinstance(c.func, ast.Name) else None)
                if nm in funcs and nm not in ("__init__", "from_file", "add_comp", "add_source", "change_comp", "del_comp", "set_sys_phases", "set_comp_phases"): todo.append((nm,))
print("functions reachable from the analysis entry points:", len(reach))
flag = 0
for (m, cls, name), fn in reach.items():
    writes, kind = classify(fn)
    for (ln, what, r, ch, k) in writes:
        verdict = None
        if k in ("fresh",): continue
        if k == "self" and ch and ch[0] in SCRATCH and len(ch) == 1: continue
        if k == "self" and ch[:3] == ["_g", "attrs", "[]"] and what == "store": verdict = "self._g.attrs[...] store (allowed only for key 'hidx')"
        elif k == "self": verdict = "PERSISTENT via self." + ".".join(ch)
        elif k == "param": verdict = "writes through parameter '%s'" % r
        elif k in ("alias", "global"): verdict = "writes through %s '%s'" % (k, r)
        elif k == "fresh?": verdict = "target '%s' assumed fresh (callee result) - needs annotation/contract" % r
        else: verdict = k
        flag += 1
        print("  %s.%s%s:%d  %-14s %s%s   -> %s" % (m, (cls + "." if cls else ""), name, ln, what, r, "".join("." + c if c != "[]" else "[]" for c in ch), verdict))
print("flagged writes:", flag)
