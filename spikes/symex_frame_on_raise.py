"""Design-phase feasibility spike #3 (NOT the framework): the C15 obligation "every path that ends in an exception has an
empty heap write-log" on the REAL System.del_comp (del_childs=False paths; the descendants loop is left to the framework).
Registries are z3 arrays (dom/val), rustworkx calls are heap writes with assumed contracts, `del d[k]` / `d[k]` generate
implicit-KeyError side obligations.  Run: python3-vt spikes/symex_frame_on_raise.py [path-to-system.py]
"""
import ast, sys, time
from z3 import *
SRC = sys.argv[1] if len(sys.argv) > 1 else "/repo/src/sysloss/system.py"
MOD = ast.parse(open(SRC).read())
SYSTEM = [n for n in MOD.body if isinstance(n, ast.ClassDef) and n.name == "System"][0]
fn = [n for n in SYSTEM.body if isinstance(n, ast.FunctionDef) and n.name == "del_comp"][0]

Name = DeclareSort("Name"); I = IntSort()
class Reg:                                   # a registry dict  Name -> tau
    def __init__(s, nm, vsort): s.nm = nm; s.dom = Array(nm + "_dom", Name, BoolSort()); s.val = Array(nm + "_val", Name, vsort)
regs = {"nodes": Reg("nodes", I), "rails": Reg("rails", Name), "groups": Reg("groups", Name), "phase_conf": Reg("phase_conf", Name)}
NAME_OF = Function("name_of", I, Name); ROOT = Function("is_root", I, BoolSort()); LEAF = Function("is_leaf", I, BoolSort())
NSRC = Int("n_sources"); name = Const("name", Name); EMPTY = Const('""', Name); del_childs = Bool("del_childs")
a, b = Consts("a b", Name)
WF = [ForAll([a], And(*[Select(regs[r].dom, a) == Select(regs["nodes"].dom, a) for r in ("rails", "groups", "phase_conf")])),
      ForAll([a], Implies(Select(regs["nodes"].dom, a), NAME_OF(Select(regs["nodes"].val, a)) == a)),
      ForAll([a, b], Implies(And(Select(regs["nodes"].dom, a), Select(regs["nodes"].dom, b)), Select(regs["rails"].val, a) != b)),   # rails are not names
      Not(Select(regs["nodes"].dom, EMPTY))]

class Path:
    def __init__(s, pc, env, writes, doms): s.pc, s.env, s.writes, s.doms = list(pc), dict(env), list(writes), dict(doms)
    def fork(s, c): return Path(s.pc + [c], s.env, s.writes, s.doms)
results = []          # (kind, path, info)
def feasible(pc):
    s = Solver(); s.set("timeout", 3000); s.add(*pc); return s.check() != unsat

def get_index(p, nm):
    """assumed contract of System._get_index (its own body is a separate P obligation): name -> index, rail -> owner's index, else -1"""
    idx = FreshInt("idx"); k = FreshConst(Name, "owner")
    nodes, rails = regs["nodes"], regs["rails"]
    in_nodes = Select(p.doms["nodes"], nm)
    if NO_EMPTY_RAIL: is_rail = And(nm != EMPTY, Select(p.doms["nodes"], k), Select(rails.val, k) == nm)
    else: is_rail = And(Select(p.doms["nodes"], k), Select(rails.val, k) == nm)
    p.pc.append(If(in_nodes, idx == Select(nodes.val, nm), If(is_rail, idx == Select(nodes.val, k), idx == -1)))
    p.pc.append(Implies(idx != -1, idx >= 0))
    return idx
NO_EMPTY_RAIL = False

def ev(e, p):
    if isinstance(e, ast.Constant): return e.value
    if isinstance(e, ast.Name): return p.env[e.id]
    if isinstance(e, ast.Compare):
        l, r = ev(e.left, p), ev(e.comparators[0], p); o = e.ops[0]
        if isinstance(l, tuple) and l[0] == "parents_of": c = ROOT(l[1]) if r == -1 else None
        elif isinstance(l, tuple) and l[0] == "childs_of": c = LEAF(l[1]) if r == -1 else None
        elif isinstance(o, (ast.In, ast.NotIn)) and isinstance(r, tuple) and r[0] == "keys": c = Select(p.doms[r[1]], l); return c if isinstance(o, ast.In) else Not(c)
        else:
            rr = IntVal(r) if isinstance(r, int) else r
            c = {ast.Eq: l == rr, ast.NotEq: l != rr, ast.Lt: l < rr}[type(o)]; return c
        return c if isinstance(o, ast.Eq) else Not(c)
    if isinstance(e, ast.UnaryOp) and isinstance(e.op, ast.Not): return Not(ev(e.operand, p))
    if isinstance(e, ast.UnaryOp) and isinstance(e.op, ast.USub): return -ev(e.operand, p)
    if isinstance(e, ast.Call):
        s_ = ast.unparse(e.func)
        if s_ == "self._get_index": return get_index(p, ev(e.args[0], p))
        if s_ == "self._get_parents": return ("parents",)
        if s_ == "self._get_childs": return ("childs",)
        if s_ == "self._get_sources": return ("sources",)
        if s_ == "len": return NSRC
        if s_ == "ValueError": return "ValueError"
        if s_.endswith(".keys"): return ("keys", e.func.value.slice.value)
        if s_ in ("self._g.remove_node", "self._g.add_edge"): p.writes.append(s_); return None
    if isinstance(e, ast.BoolOp):
        vs = [ev(v, p) for v in e.values]; return And(*vs) if isinstance(e.op, ast.And) else Or(*vs)
    if isinstance(e, ast.Subscript) and ast.unparse(e.value).startswith('self._g.attrs['):      # registry read: d[k]
        reg = e.value.slice.value; key = ev(e.slice, p)
        results.append(("implicit-KeyError", Path(p.pc, p.env, p.writes, p.doms), (reg, Select(p.doms[reg], key), e.lineno)))
        p.pc.append(Select(p.doms[reg], key)); return Select(regs[reg].val, key)
    if isinstance(e, ast.Subscript):
        base = ev(e.value, p)
        if base == ("parents",): return ("parents_of", ev(e.slice, p))
        if base == ("childs",): return ("childs_of", ev(e.slice, p))
        if isinstance(base, tuple) and base[0] in ("parents_of", "childs_of"): return FreshInt("elem")
    raise NotImplementedError(ast.unparse(e))

def run(stmts, p):
    for i, s_ in enumerate(stmts):
        if isinstance(s_, ast.Expr):
            if not isinstance(s_.value, ast.Constant): ev(s_.value, p)
        elif isinstance(s_, ast.Assign): p.env[s_.targets[0].id] = ev(s_.value, p)
        elif isinstance(s_, ast.Raise): results.append(("raise", p, ast.unparse(s_.exc)[:60])); return
        elif isinstance(s_, ast.If):
            c = ev(s_.test, p)
            for cond, body in ((c, s_.body), (Not(c), s_.orelse)):
                q = p.fork(cond)
                if feasible(q.pc): run(list(body) + stmts[i + 1:], q)
            return
        elif isinstance(s_, ast.For):
            if ast.unparse(s_.iter).startswith("rx.descendants"): results.append(("skipped-loop", p, "descendants loop (framework: loop invariant)")); return
            p.writes.append("loop:" + ast.unparse(s_.iter)); continue          # re-linking loop: only add_edge writes
        elif isinstance(s_, ast.Delete):                                         # del [ self._g.attrs["reg"][key] ]
            for tgt in s_.targets[0].elts:
                reg = tgt.value.slice.value; key = ev(tgt.slice, p)
                present = Select(p.doms[reg], key)
                results.append(("implicit-KeyError", Path(p.pc, p.env, p.writes, p.doms), (reg, present, s_.lineno)))
                p.pc.append(present)                                             # continue on the non-raising branch
                p.doms[reg] = Store(p.doms[reg], key, False); p.writes.append("del %s[...]" % reg)
        else: raise NotImplementedError(type(s_).__name__)
    results.append(("return", p, None))

def check(label):
    global results
    results = []
    p0 = Path(WF + [Not(del_childs)], {"name": name, "del_childs": del_childs, "self": None}, [], {r: regs[r].dom for r in regs})
    run(fn.body, p0)
    n_obl = n_fail = 0
    for kind, p, info in results:
        if kind == "raise":
            n_obl += 1; ok = (p.writes == [])
            print("   explicit raise %-45s write-log empty: %s" % (info, ok)); n_fail += (not ok)
        elif kind == "implicit-KeyError":
            reg, present, line = info
            if not p.writes: continue                      # a KeyError before any write is a clean rejection
            n_obl += 1
            s = Solver(); s.set("timeout", 10000); s.add(*p.pc); s.add(Not(present)); r = s.check()
            print("   line %d: key present in %-10s after writes %s : %s" % (line, reg, p.writes[:2], "PROVED" if r == unsat else str(r).upper()))
            if r == sat:
                m = s.model(); n_fail += 1
                print("      counter-model: name in nodes = %s ; name is the rail of component %s" % (m.eval(Select(regs['nodes'].dom, name)), [d for d in m.decls() if d.name().startswith('owner')][:1]))
    print("  => %s: %d obligations, %d refuted" % (label, n_obl, n_fail))

if __name__ == "__main__":
    t0 = time.time()
    NO_EMPTY_RAIL = "name != \"\" and name in self._g.attrs[\"rails\"].values()" in open(SRC).read().replace("'", '"')
    check("System.del_comp, del_childs=False, raise => untouched (C15)")
    print("total %.2fs" % (time.time() - t0))
