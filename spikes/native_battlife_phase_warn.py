import warnings, pandas as pd, json, os, itertools, numpy as np
warnings.filterwarnings("ignore")
from sysloss.components import *
from sysloss.system import System
pd.set_option("display.width", 250); pd.set_option("display.max_columns", 30)
print("== C18 batt_life args")
s = System("s", Source("A", vo=12.0, rs=0.5))
s.add_comp("A", comp=RLoad("L", rs=10.0))
s.set_sys_phases({"p1": 10.0, "p2": 20.0})
s.set_comp_phases("L", {"p1": 10.0, "p2": 5.0})
log=[]
st=[1.0]
def pf(): return (0.01, 4.0, 0.1)
def df(t,i):
    log.append((t,float(i))); st[0]-=0.3
    return (0.01*st[0], 4.0*st[0]+0.5, 0.1)
r = s.batt_life("A", cutoff=2.0, pfunc=pf, dfunc=df)
print(r); print(log)
print(s.params()[["Component","vo (V)","rs (Ohm)"]])
print("== C18 non-source rejected")
for nm in ["L","nope"]:
    try: s.batt_life(nm, cutoff=2.0, pfunc=pf, dfunc=df)
    except Exception as e: print(nm, "EXC", repr(e))
print("== C06 single-phase equals rows")
a = s.solve(); b = s.solve(phase="p2")
print(a[a.Phase=="p2"].reset_index(drop=True).equals(b.reset_index(drop=True)))
print(a); print(b)
try: s.solve(phase="zz")
except Exception as e: print("EXC", repr(e))
print("== C09 rectifier with phase conf")
s = System("s", Source("A", vo=12.0))
s.add_comp("A", comp=Rectifier("R", vdrop=0.5, limits={"io":[0,0.1]}))
s.add_comp("R", comp=ILoad("L", ii=1.0))
s.set_sys_phases({"p1": 10.0, "p2": 20.0})
print(s.solve()[["Component","Phase","Iout (A)","Warnings"]])
s.set_comp_phases("R", ["p1"])
print(s.solve()[["Component","Phase","Iout (A)","Warnings"]])
