import warnings, pandas as pd, json, os, itertools
warnings.filterwarnings("ignore")
from sysloss.components import *
from sysloss.system import System
pd.set_option("display.width", 250); pd.set_option("display.max_columns", 30)

def build(order):
    s = System("s", Source("A", vo=12.0))
    s.add_source(Source("B", vo=5.0))
    steps = {
      "X": lambda: s.add_comp("A", comp=PLoad("X", pwr=1.0)),
      "M": lambda: (s.add_comp(["B","A"], comp=PMux("M", rs=0.1)), s.add_comp("M", comp=PLoad("LM", pwr=2.0))),
      "Y": lambda: s.add_comp("B", comp=PLoad("Y", pwr=0.5)),
    }
    for k in order: steps[k]()
    return s
for order in itertools.permutations("XMY"):
    s = build(order)
    df = s.solve()
    print(order, list(zip(df.Component, df.Domain))[:6], "topo", [s._g[n]._params["name"] for n in s._get_topo_sort()])
    print(df[df.Component.str.startswith("Subsystem")][["Component","Loss (W)","Power (W)"]].values.tolist())
