import time
from z3 import *
def Abs(x): return If(x>=0,x,-x)
def Min(a,b): return If(a<=b,a,b)
def Max(a,b): return If(a>=b,a,b)
def prove(name, hyps, goal, to=20000):
    s=Solver(); s.set("timeout",to)
    s.add(*hyps); s.add(Not(goal))
    t=time.time(); r=s.check(); dt=time.time()-t
    print(f"{name}: {'PROVED' if r==unsat else r} {dt:.3f}s", (s.model() if r==sat else ""))
vi,io,vo_p,eff,iq,iis,rt,ta,ig,vdrop,rs=Reals("vi io vo_p eff iq iis rt ta ig vdrop rs")
# Converter active io>0: ii=|vo_p*io/(vi*eff)|, pwr=|vi*ii|, loss=|ii*vi*(1-eff)|
ii=Abs(vo_p*io/(vi*eff)); pwr=Abs(vi*ii); loss=Abs(ii*vi*(1-eff))
h=[vi!=0, vo_p!=0, io>0, eff>0, eff<=1]
prove("conv balance", h, pwr-loss==Abs(vo_p)*io)
prove("conv loss>=0", h, And(loss>=0, loss<=pwr))
# LinReg
v=Min(Abs(vo_p), Max(Abs(vi)-vdrop,0)); ii2=io+ig
loss2=ig*Abs(vi)+If(Abs(io)>0,(Abs(vi)-Abs(v))*io,0); pwr2=Abs(vi*ii2)
h2=[vi!=0, io>=0, ig>=0, vdrop>=0, vdrop<Abs(vo_p)]
prove("linreg balance", h2, pwr2-loss2==v*io)
prove("linreg loss bounds", h2, And(loss2>=0, loss2<=pwr2))
# efficiency
e=If(pwr2>0, 100*Abs((pwr2-loss2)/pwr2), 0)
prove("linreg eff range", h2, And(e>=0, e<=100))
prove("linreg eff formula", h2+[pwr2>0], e*pwr2==100*(pwr2-loss2))
# Rectifier mosfet
vr=Abs(Abs(vi)-2*rs*io); iir=io+ig
lossr=ig*Abs(vi)+2*rs*Abs(io)*Abs(io); pwrr=Abs(vi*iir)
h3=[vi!=0, io>0, ig>=0, rs>=0]
prove("rect mosfet balance (expected to FAIL w/o guard)", h3, pwrr-lossr==vr*io)
prove("rect mosfet balance with polarity pre", h3+[Abs(vi)-2*rs*io>0], pwrr-lossr==vr*io)
# Source
vs=vo_p-rs*io
prove("source mirrored (expected FAIL neg)", [vo_p!=0, rs>=0, io>=0], Abs(vs)==Abs(Abs(vo_p)-rs*io))
prove("source positive", [vo_p>0, rs>=0, io>=0, vo_p-rs*io>0], Abs(vs)==Abs(vo_p)-rs*io)
# utils
w1,w2,l,t,rho,temp,tcr,k=Reals("w1 w2 l t rho temp tcr k")
def trace(w1,w2,l,t,rho,temp,tcr):
    a=0.5*(w1+w2)*t/1e3; return (rho*l/a)*(1+tcr*(temp-20.0))
def plane(w,l,t,rho,temp,tcr):
    r=rho/(t/1e3); return (r*l/w)*(1+tcr*(temp-20.0))
pos=[w1>0,w2>0,l>0,t>0,rho>0,k>0]
prove("trace==plane", pos, trace(w1,w1,l,t,rho,temp,tcr)==plane(w1,l,t,rho,temp,tcr))
prove("trace prop length", pos, trace(w1,w2,k*l,t,rho,temp,tcr)==k*trace(w1,w2,l,t,rho,temp,tcr))
prove("trace inv thickness", pos, trace(w1,w2,l,k*t,rho,temp,tcr)*k==trace(w1,w2,l,t,rho,temp,tcr))
prove("trace sym", pos, trace(w1,w2,l,t,rho,temp,tcr)==trace(w2,w1,l,t,rho,temp,tcr))
