"""Design-phase probe (NOT the framework): random multi-source systems with a PMux, rails and phases; independent oracle for
mux selection/reporting (C05), domain attribution and aggregate rows (C07), rail report (C08), warnings roll-up (C09).
Run: [PYTHONPATH=<scratch>/src] /venv/bin/python spikes/native_multisource_probe.py [seed] [n]
"""
import sys, random, warnings, math, collections, itertools
import numpy as np, pandas as pd
warnings.filterwarnings("ignore")
from sysloss.components import *
from sysloss.system import System

seed = int(sys.argv[1]) if len(sys.argv) > 1 else 1
N = int(sys.argv[2]) if len(sys.argv) > 2 else 200
rnd = random.Random(seed)
def close(a, b, rel=2e-4): return math.isclose(float(a), float(b), rel_tol=rel, abs_tol=1e-7)
fails = collections.Counter(); ex = {}
def bad(tag, *info):
    fails[tag] += 1; ex.setdefault(tag, info)

def build():
    nsrc = rnd.randint(2, 3)
    vos = [rnd.choice([5.0, 9.0, 12.0, 0.0]) for _ in range(nsrc)]
    s = System("s", Source("S0", vo=vos[0], rs=rnd.choice([0, 0.01])), rail=rnd.choice(["", "R_S0"]))
    tree = {"S0": None}; kinds = {"S0": "Source"}
    for k in range(1, nsrc):
        s.add_source(Source("S%d" % k, vo=vos[k], rs=rnd.choice([0, 0.02])), rail=rnd.choice(["", "R_S%d" % k]))
        tree["S%d" % k] = None; kinds["S%d" % k] = "Source"
    steps = []
    # inner components under sources
    inner = []
    for k in range(rnd.randint(1, 4)):
        par = rnd.choice([n for n in tree if kinds[n] != "Load"])
        kind = rnd.choice(["Converter", "LinReg", "RLoss", "PSwitch"])
        name = "%s%d" % (kind[0], k)
        comp = {"Converter": lambda: Converter(name, vo=rnd.choice([3.3, 4.0]), eff=0.9, limits={"io": [0, rnd.choice([1e-3, 10])]}),
                "LinReg": lambda: LinReg(name, vo=2.5, ig=1e-4, rt=10.0),
                "RLoss": lambda: RLoss(name, rs=0.05),
                "PSwitch": lambda: PSwitch(name, rs=0.02, iis=1e-6)}[kind]()
        steps.append((par, comp, rnd.choice(["", "R_" + name]), kind, name))
        tree[name] = par; kinds[name] = kind; inner.append(name)
    # the mux
    cands = [n for n in tree if kinds[n] != "Load"]
    k = rnd.randint(1, min(4, len(cands)))
    mpar = rnd.sample(cands, k)
    rsl = [rnd.choice([0.01, 0.05, 0.1]) for _ in mpar]
    mux = PMux("MX", rs=(rsl if rnd.random() < 0.6 else rsl[0]), ig=rnd.choice([0, 1e-5]), limits={"vi": [0, rnd.choice([6.0, 100.0])]})
    if not isinstance(mux._params["rs"], list): rsl = [rsl[0]] * k
    steps.append((mpar, mux, rnd.choice(["", "R_MX"]), "PMux", "MX")); kinds["MX"] = "PMux"; tree["MX"] = mpar
    # loads
    j = 0
    for par in list(tree):
        if kinds[par] == "Load": continue
        for _ in range(rnd.randint(0, 2) if par != "MX" else rnd.randint(1, 2)):
            name = "Z%d" % j; j += 1
            comp = rnd.choice([lambda: PLoad(name, pwr=rnd.choice([0.05, 0.2]), limits={"ii": [0, rnd.choice([0.01, 5])]}),
                               lambda: ILoad(name, ii=rnd.choice([0.01, 0.03])),
                               lambda: RLoad(name, rs=rnd.choice([200.0, 800.0]))])()
            steps.append((par, comp, "", "Load", name)); kinds[name] = "Load"; tree[name] = par
    # topological-respecting random order (parents first)
    order = []; pending = steps[:]; rnd.shuffle(pending); have = {n for n in tree if kinds[n] == "Source"}
    while pending:
        for st in pending:
            ps = st[0] if isinstance(st[0], list) else [st[0]]
            if all(p in have for p in ps):
                order.append(st); have.add(st[4]); pending.remove(st); break
    rails = {n: "" for n in tree}
    for n in tree:
        if kinds[n] == "Source": rails[n] = s._g.attrs["rails"][n]
    for par, comp, rail, kind, name in order:
        byrail = rnd.random() < 0.3
        def ref(p): return rails[p] if (byrail and rails[p] != "") else p
        s.add_comp([ref(p) for p in par] if isinstance(par, list) else ref(par), comp=comp, rail=rail)
        rails[name] = rail if kind != "Load" else ""
    phases = None
    if rnd.random() < 0.5:
        phases = {"a": 10.0, "b": 1.0}
        s.set_sys_phases(phases)
        for n in tree:
            if kinds[n] in ("Source", "Converter", "LinReg", "PSwitch") and rnd.random() < 0.4:
                s.set_comp_phases(n, [rnd.choice(["a", "b"])])
    return s, tree, kinds, rails, rsl, phases

for t in range(N):
    s, tree, kinds, rails, rsl, phases = build()
    try:
        df = s.solve(energy=True)
        rr = s.rail_rep()
    except (ValueError, RuntimeError) as e:
        fails["raised " + type(e).__name__] += 1; ex.setdefault("raised " + type(e).__name__, (t, repr(e))); continue
    except Exception as e:
        bad("EXC " + type(e).__name__, t, repr(e)); continue
    has_rails = any(r != "" for r in rails.values())
    pcol = "Rail in" if has_rails else "Parent"
    tot_p, tot_l = {}, {}
    for ph in (phases or {"": 0}):
        d = df[df["Phase"] == ph] if phases else df
        comp = {r["Component"]: r for _, r in d[d["Type"] != ""].iterrows()}
        if set(comp) != set(tree): bad("rowset", t, set(comp) ^ set(tree))
        # mux selection
        mp = tree["MX"]; sel = None
        for i, p in enumerate(mp):
            if abs(comp[p]["Vout (V)"]) != 0.0: sel = i; break
        mx = comp["MX"]
        if sel is None:
            if not (mx["Iin (A)"] == 0 and mx["Vout (V)"] == 0 and mx["Power (W)"] == 0 and mx["Loss (W)"] == 0): bad("C05 dead mux not quiescent", t, dict(mx))
        else:
            sp = mp[sel]
            want = rails[sp] if has_rails else sp
            if mx[pcol] != want: bad("C05 mux %s != selected input" % pcol, t, ph, mx[pcol], want)
            if not close(mx["Vin (V)"], comp[sp]["Vout (V)"]): bad("C05 mux Vin", t, ph)
            if not close(abs(mx["Vout (V)"]), abs(mx["Vin (V)"]) - rsl[sel] * mx["Iout (A)"]): bad("C05 mux Vout/rs[sel]", t, ph, dict(mx), rsl, sel)
        # child current attribution
        for n in tree:
            if kinds[n] == "Load": continue
            isum = sum(comp[c]["Iin (A)"] for c in tree if c != "MX" and tree[c] == n)
            if n in mp and sel is not None and mp[sel] == n: isum += mx["Iin (A)"]
            if not close(comp[n]["Iout (A)"], isum): bad("C05/C01 Iout attribution", t, ph, n, comp[n]["Iout (A)"], isum)
        # true domain
        def dom(n):
            while kinds[n] != "Source":
                n = tree[n] if n != "MX" else mp[sel if sel is not None else 0]
            return n
        if len([n for n in tree if kinds[n] == "Source"]) > 1:
            for n in tree:
                if comp[n]["Domain"] != dom(n): bad("C07 domain", t, ph, n, comp[n]["Domain"], dom(n), [kinds[x] for x in tree])
            for src in [n for n in tree if kinds[n] == "Source"]:
                row = d[d["Component"] == "Subsystem " + src].iloc[0]
                lsum = sum(comp[n]["Loss (W)"] for n in tree if dom(n) == src)
                if not close(row["Loss (W)"], lsum): bad("C07 subsystem loss", t, ph, src, row["Loss (W)"], lsum)
                if not close(row["Power (W)"], comp[src]["Power (W)"]) or not close(row["Iout (A)"], comp[src]["Iout (A)"]): bad("C07 subsystem P/I", t, ph)
                anyw = any(comp[n]["Warnings"] != "" for n in tree if dom(n) == src)
                if (row["Warnings"] == "Yes") != anyw: bad("C09 subsystem warn rollup", t, ph, src, row["Warnings"], anyw)
        trow = d[d["Component"] == "System total"].iloc[0]
        ps = sum(comp[n]["Power (W)"] for n in tree if kinds[n] == "Source"); ls = sum(comp[n]["Loss (W)"] for n in tree)
        if not close(trow["Power (W)"], ps) or not close(trow["Loss (W)"], ls): bad("C07 total", t, ph, trow["Power (W)"], ps, trow["Loss (W)"], ls)
        if ps > 0 and not close(trow["Efficiency (%)"], 100 * (ps - ls) / ps): bad("C07 total eff", t, ph)
        if (trow["Warnings"] == "Yes") != any(comp[n]["Warnings"] != "" for n in tree): bad("C09 total rollup", t, ph)
        lp = sum(comp[n]["Power (W)"] for n in tree if kinds[n] == "Load")
        if not close(ps, lp + ls): bad("C02 system balance", t, ph, ps, lp, ls)
        share = 24.0 if not phases else 24.0 * phases[ph] / sum(phases.values())
        for n in tree:
            if not close(comp[n]["24h energy (Wh)"], comp[n]["Power (W)"] * share): bad("C07 energy", t, ph, n)
        tot_p[ph], tot_l[ph] = ps, ls
        # rail report
        if has_rails:
            if rr is None: bad("C08 rail_rep None", t); continue
            r2 = rr[rr["Phase"] == ph] if phases else rr
            fed = collections.defaultdict(list)
            for n in tree:
                if kinds[n] == "Source": continue
                p = tree[n] if n != "MX" else (mp[sel] if sel is not None else mp[0])
                if rails[p] != "": fed[rails[p]].append(n)
            if set(r2["Rail"]) != set(fed): bad("C08 rail set", t, ph, set(r2["Rail"]), set(fed))
            for _, r in r2.iterrows():
                ms = fed.get(r["Rail"], [])
                if not ms: continue
                owner = [n for n in tree if rails[n] == r["Rail"]][0]
                if not close(r["Voltage (V)"], comp[owner]["Vout (V)"]): bad("C08 rail voltage", t, ph, r["Rail"])
                for col, src in (("Current (A)", "Iin (A)"), ("Power (W)", "Power (W)"), ("Loss (W)", "Loss (W)")):
                    if not close(r[col], sum(comp[m][src] for m in ms)): bad("C08 rail " + col, t, ph, r["Rail"], r[col], sum(comp[m][src] for m in ms))
                toks = set(); [toks.update(comp[m]["Warnings"].split()) for m in ms]
                got = set(r["Warnings"].replace(",", " ").split())
                if toks != got: bad("C08 rail warnings", t, ph, r["Rail"], got, toks)
    if phases:
        arow = df[df["Component"] == "System average"].iloc[0]; T = sum(phases.values())
        if not close(arow["Power (W)"], sum(tot_p[p] * phases[p] for p in phases) / T): bad("C07 average power", t)
        if not close(arow["Loss (W)"], sum(tot_l[p] * phases[p] for p in phases) / T): bad("C07 average loss", t)
        if not close(arow["24h energy (Wh)"], arow["Power (W)"] * 24): bad("C07 average energy", t)
print("systems", N)
for k, v in fails.most_common():
    print(v, k, "\n    e.g.", str(ex[k])[:500])
