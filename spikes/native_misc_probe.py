"""Design-phase probe (NOT the framework): C09 warnings exactness, C11 constructor rejections/normalisation, C13 TOML loader,
C17 read-only analyses, C10 constant-table equivalence.  Run: [PYTHONPATH=<scratch>/src] /venv/bin/python spikes/native_misc_probe.py [seed]
"""
import sys, random, warnings, math, collections, json, os, tempfile, copy, inspect
warnings.filterwarnings("ignore")
import numpy as np
from sysloss.components import *
from sysloss.components import LIMITS_DEFAULT, _ComponentTypes as CT
from sysloss.system import System
seed = int(sys.argv[1]) if len(sys.argv) > 1 else 1
rnd = random.Random(seed)
fails = collections.Counter(); ex = {}
def bad(tag, *info):
    fails[tag] += 1; ex.setdefault(tag, info)
TMP = tempfile.mkdtemp()

# ---------------- C09 ----------------
APPL = {"Source": ["io", "po", "pl"], "PLoad": ["vi", "ii", "tr", "tp"], "ILoad": ["vi", "pi", "tr", "tp"], "RLoad": ["vi", "ii", "pi", "tr", "tp"],
        "Converter": ["vi", "vo", "ii", "io", "pi", "po", "pl", "tr", "tp"]}
ALL = list(LIMITS_DEFAULT)
def quantities(r, ta):
    vi, vo, ii, io, p, l = (float(r[k]) for k in ("Vin (V)", "Vout (V)", "Iin (A)", "Iout (A)", "Power (W)", "Loss (W)"))
    tr = r.get("Temp. rise (°C)", 0.0); tp = r.get("Peak temp. (°C)", 0.0)
    tr = 0.0 if tr == "" else float(tr); tp = 0.0 if tp == "" else float(tp)
    return {"vi": vi, "vo": vo, "vd": abs(vi) - abs(vo), "ii": ii, "io": io, "pi": p, "po": p - l, "pl": l, "tr": tr, "tp": tp}
for t in range(150):
    pol = rnd.choice([1, -1])
    def lims():
        d = {}
        for k in rnd.sample(ALL, rnd.randint(0, 5)):
            lo = rnd.choice([0, 0.001, 0.5, 3.0]); hi = rnd.choice([0.01, 1.0, 4.0, 13.0, 1e6])
            if k == "tp": lo, hi = rnd.choice([-10, 20, 30]), rnd.choice([26, 40, 100])
            d[k] = [lo * rnd.choice([1, pol]), hi * rnd.choice([1, pol])] if k != "tp" else [lo, hi]
        return d
    s = System("s", Source("S", vo=12.0 * pol, rs=0.0, limits=lims()))
    comps = [Converter("C", vo=3.3 * pol, eff=0.9, rt=rnd.choice([0, 50.0]), limits=lims()), LinReg("L", vo=5.0 * pol, ig=1e-3, rt=20.0, limits=lims()),
             RLoss("R", rs=0.5, rt=5.0, limits=lims()), PSwitch("P", rs=0.1, rt=5.0, limits=lims()), Rectifier("D", vdrop=0.3, limits=lims()), VLoss("V", vdrop=0.2, limits=lims())]
    for c in comps:
        s.add_comp("S", comp=c)
        s.add_comp(c._params["name"], comp=rnd.choice([PLoad("pl" + c._params["name"], pwr=rnd.choice([0.1, 1.0]), rt=rnd.choice([0, 30.0]), limits=lims()),
                                                         ILoad("il" + c._params["name"], ii=0.05, rt=10.0, limits=lims()),
                                                         RLoad("rl" + c._params["name"], rs=100.0, limits=lims())]))
    ta = rnd.choice([0.0, 25.0, 60.0])
    df = s.solve(ta=ta)
    for _, r in df[df["Type"] != ""].iterrows():
        c = s._g[s._g.attrs["nodes"][r["Component"]]]
        keys = APPL.get(type(c).__name__, ALL)
        q = quantities(r, ta)
        if type(c).__name__ == "Source": q["po"] = q["pi"] - q["pl"]
        exp = []
        for k in keys:
            lo, hi = c._limits.get(k, LIMITS_DEFAULT[k])
            x = q[k]
            out = (x > hi or x < lo) if k == "tp" else (abs(x) > abs(hi) or abs(x) < abs(lo))
            if out: exp.append(k)
        got = r["Warnings"].split()
        if sorted(got) != sorted(exp):
            near = [k for k in set(got) ^ set(exp) if any(math.isclose(abs(q[k]), abs(b), rel_tol=1e-5, abs_tol=1e-9) for b in c._limits.get(k, LIMITS_DEFAULT[k]))]
            if len(near) == len(set(got) ^ set(exp)): continue   # boundary within solver tolerance
            bad("C09 warnings %s" % type(c).__name__, t, r["Component"], got, exp, {k: q[k] for k in set(got) ^ set(exp)}, c._limits)

# ---------------- C11 ----------------
def rejects(f):
    try: f(); return False
    except ValueError: return True
    except Exception as e: return "other:" + type(e).__name__
checks = {
 "eff=0": lambda: Converter("c", vo=1, eff=0.0), "eff<0": lambda: Converter("c", vo=1, eff=-0.5), "eff>1": lambda: Converter("c", vo=1, eff=1.01),
 "eff table 0": lambda: Converter("c", vo=1, eff={"vi": [1], "io": [1, 2], "eff": [[0.0, 0.5]]}), "eff table >1": lambda: Converter("c", vo=1, eff={"vi": [1], "io": [1, 2], "eff": [[0.5, 1.5]]}),
 "vdrop>=vo": lambda: LinReg("l", vo=3.0, vdrop=3.0), "vdrop>vo neg": lambda: LinReg("l", vo=-3.0, vdrop=-3.5), "rload 0": lambda: RLoad("r", rs=0.0),
 "io not monotonic": lambda: VLoss("v", vdrop={"vi": [1], "io": [2, 1], "vdrop": [[0.1, 0.2]]}), "dims mismatch": lambda: VLoss("v", vdrop={"vi": [1, 2], "io": [1, 2], "vdrop": [[0.1, 0.2]]}),
 "missing key": lambda: PSwitch("p", ig={"vi": [1], "io": [1, 2]}), "neg ig table linreg": lambda: LinReg("l", vo=3, ig={"vi": [1], "io": [1, 2], "ig": [[-1e-3, 1e-3]]}),
 "neg ig table pswitch": lambda: PSwitch("p", ig={"vi": [1], "io": [1, 2], "ig": [[-1e-3, 1e-3]]}), "neg ig table pmux": lambda: PMux("p", ig={"vi": [1], "io": [1, 2], "ig": [[-1e-3, 1e-3]]}),
 "neg ig table rect": lambda: Rectifier("p", ig={"vi": [1], "io": [1, 2], "ig": [[-1e-3, 1e-3]]}),
 "limits not list": lambda: Source("s", vo=1, limits={"io": 3}), "limits 3 items": lambda: RLoss("s", rs=1, limits={"io": [1, 2, 3]}), "limits str": lambda: RLoss("s", rs=1, limits={"io": ["a", 2]}),
 "pmux rs list str": lambda: PMux("m", rs=[0.1, "a"]), "rect rs list str": lambda: Rectifier("m", rs=[0.1, "a"]), "rect rs str": lambda: Rectifier("m", rs="a"),
}
for k, f in checks.items():
    r = rejects(f)
    if r is not True: bad("C11 not rejected with ValueError: " + k, r)
norm = {
 "Source.rs": (Source("s", vo=1, rs=-2)._params["rs"], 2), "PLoad.pwr": (PLoad("p", pwr=-1, pwrs=-2, rt=-3)._params, {"pwr": 1, "pwrs": 2, "rt": 3}),
 "ILoad": (ILoad("p", ii=-1, iis=-2, rt=-3)._params, {"ii": 1, "iis": 2, "rt": 3}), "RLoad": (RLoad("p", rs=-1, rt=-3)._params, {"rs": 1, "rt": 3}),
 "RLoss": (RLoss("p", rs=-1, rt=-3)._params, {"rs": 1, "rt": 3}), "VLoss": (VLoss("p", vdrop=-1, rt=-3)._params, {"vdrop": 1, "rt": 3}),
 "Converter": (Converter("p", vo=-5, eff=0.5, iq=-1, iis=-2, rt=-3)._params, {"vo": -5, "iq": 1, "iis": 2, "rt": 3}),
 "LinReg": (LinReg("p", vo=-5, vdrop=-1, iis=-2, rt=-3)._params, {"vo": -5, "vdrop": 1, "iis": 2, "rt": 3}),
 "PSwitch": (PSwitch("p", rs=-1, iis=-2, rt=-3)._params, {"rs": 1, "iis": 2, "rt": 3}), "PMux": (PMux("p", rs=-1, iis=-2, rt=-3)._params, {"rs": 1, "iis": 2, "rt": 3}),
 "RectM": (Rectifier("p", rs=-1, iq=-2, rt=-3)._params, {"rs": 1, "iq": 2, "rt": 3}), "RectD": (Rectifier("p", vdrop=-1, rt=-3)._params, {"vdrop": 1, "rt": 3}),
}
for k, (got, want) in norm.items():
    if isinstance(want, dict):
        for kk, vv in want.items():
            if got[kk] != vv: bad("C11 normalisation %s.%s" % (k, kk), got[kk], vv)
    elif got != want: bad("C11 normalisation " + k, got, want)
# negative constant ig: normalised only inside the interpolator?
for K, kw in ((LinReg, dict(vo=3.0, ig=-1e-3)), (PSwitch, dict(ig=-1e-3)), (PMux, dict(ig=-1e-3)), (Rectifier, dict(ig=-1e-3))):
    c = K("x", **kw)
    if c._ipr._interp(0.1, 1.0) != 1e-3: bad("C11 ig magnitude in law " + K.__name__, c._ipr._interp(0.1, 1.0))
    if c._params["ig"] != 1e-3: bad("C11 params()['ig'] keeps the sign for " + K.__name__, c._params["ig"])

# ---------------- C13 ----------------
import toml
def tomlfile(section, params, limits=None):
    p = os.path.join(TMP, "c.toml"); d = {section: params}
    if limits: d["limits"] = limits
    open(p, "w").write(toml.dumps(d)); return p
KIN = {Source: ("source", dict(vo=5.0, rs=0.1)), PLoad: ("pload", dict(pwr=0.5, pwrs=0.01, rt=3.0, loss=True)), ILoad: ("iload", dict(ii=0.5, iis=0.01, rt=3.0, loss=True)),
       RLoad: ("rload", dict(rs=50.0, rt=3.0, loss=True)), RLoss: ("rloss", dict(rs=0.5, rt=2.0)), VLoss: ("vloss", dict(vdrop=0.4, rt=2.0)),
       Converter: ("converter", dict(vo=3.3, eff=0.8, iq=1e-3, iis=1e-5, rt=7.0)), LinReg: ("linreg", dict(vo=3.3, vdrop=0.2, ig=1e-3, iis=1e-5, rt=7.0)),
       PSwitch: ("pswitch", dict(rs=0.1, ig=1e-4, iis=1e-6, rt=4.0)), PMux: ("pmux", dict(rs=[0.1, 0.2], ig=1e-4, iis=1e-6, rt=4.0)),
       Rectifier: ("rectifier", dict(vdrop=0.0, rs=0.05, ig=1e-4, iq=1e-5, rt=4.0))}
for K, (sec, P) in KIN.items():
    L = {"vi": [1.0, 30.0], "tp": [-5.0, 90.0]}
    a = K.from_file("n", fname=tomlfile(sec, P, L)); b = K("n", **P, limits=L)
    if a._params != b._params or a._limits != b._limits: bad("C13 full " + K.__name__, a._params, b._params)
    mand = [k for k, v in getattr(K, "_cparams", {"params": {}})["params"].items() if not v["opt"]] if K is not LinReg else ["vo"]
    Pm = {k: P[k] for k in mand}
    a = K.from_file("n", fname=tomlfile(sec, Pm)); b = K("n", **Pm)
    if a._params != b._params: bad("C13 defaults " + K.__name__, a._params, b._params)
    if {k: v for k, v in a._limits.items()} != {k: v for k, v in b._limits.items()}: bad("C13 default limits " + K.__name__)
    for k in mand:
        Pk = {x: y for x, y in P.items() if x != k}
        try: K.from_file("n", fname=tomlfile(sec, Pk)); bad("C13 missing mandatory accepted " + K.__name__, k)
        except KeyError: pass
        except Exception as e: bad("C13 missing mandatory -> %s %s" % (type(e).__name__, K.__name__), k)
    if K is not LinReg:
        for k in P:
            Pk = dict(P); Pk[k] = "text"
            try: K.from_file("n", fname=tomlfile(sec, Pk)); bad("C13 wrong type accepted " + K.__name__, k)
            except ValueError: pass
            except Exception as e: bad("C13 wrong type -> %s %s" % (type(e).__name__, K.__name__), k)

# ---------------- C17 / C10 ----------------
s = System("s", Source("S", vo=12.0, rs=0.05), rail="R")
s.add_comp("S", comp=Converter("C", vo=3.3, eff={"vi": [5.0, 12.0], "io": [0.1, 0.5], "eff": [[0.8, 0.8], [0.8, 0.8]]}))
s.add_comp("C", comp=PLoad("L", pwr=0.7)); s.add_comp("R", comp=VLoss("V", vdrop={"vi": [1.0], "io": [0.1, 1.0], "vdrop": [[0.3, 0.3]]})); s.add_comp("V", comp=ILoad("I", ii=0.2))
s2 = System("s", Source("S", vo=12.0, rs=0.05), rail="R")
s2.add_comp("S", comp=Converter("C", vo=3.3, eff=0.8)); s2.add_comp("C", comp=PLoad("L", pwr=0.7)); s2.add_comp("R", comp=VLoss("V", vdrop=0.3)); s2.add_comp("V", comp=ILoad("I", ii=0.2))
a, b = s.solve(), s2.solve()
for col in ("Vin (V)", "Vout (V)", "Iin (A)", "Iout (A)", "Power (W)", "Loss (W)"):
    for x, y in zip(a[col], b[col]):
        if x != "" and not math.isclose(x, y, rel_tol=1e-9): bad("C10 constant table != constant", col, x, y)
def state(s): return json.dumps({"attrs": {k: v for k, v in s._g.attrs.items() if k != "hidx"}, "params": {s._g[i]._params["name"]: [s._g[i]._params, s._g[i]._limits] for i in s._g.node_indices()}, "edges": list(s._g.edge_list())}, sort_keys=True, default=str)
import sysloss.diagram as sd
import matplotlib; matplotlib.use("Agg")
st0 = state(s); t0 = s.solve().to_json()
calls = [lambda: s.solve(), lambda: s.rail_rep(), lambda: s.params(limits=True), lambda: s.limits(), lambda: s.phases(), lambda: s.save(os.path.join(TMP, "s.json")),
         lambda: s.plot_interp("C"), lambda: s.plot_interp("V"), lambda: sd.make_diag(s, fname=os.path.join(TMP, "d.svg")), lambda: sd.make_hdiag(s, fname=os.path.join(TMP, "h.svg"))]
import contextlib, io
for i, c in enumerate(calls):
    with contextlib.redirect_stdout(io.StringIO()): c()
    if state(s) != st0: bad("C17 state changed by analysis #%d" % i)
    if s.solve().to_json() != t0: bad("C17 solve result changed after analysis #%d" % i)
conf = sd.get_conf(); conf["node"]["Converter"] = {"fillcolor": "red"}; c0 = copy.deepcopy(conf)
sd.make_diag(s, fname=os.path.join(TMP, "d.svg"), config=conf)
if conf != c0: bad("C17/C19 caller config mutated")
print("misc probe done")
for k, v in fails.most_common():
    print(v, k, "\n    e.g.", str(ex[k])[:600])
