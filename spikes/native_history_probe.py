"""Design-phase probe (NOT the framework): random edit histories; run-time WF invariant (C14), untouched-on-reject (C15),
edited == rebuilt-from-scratch (C16).  Run: [PYTHONPATH=<scratch>/src] /venv/bin/python spikes/native_history_probe.py [seed] [n] [len]
"""
import sys, random, warnings, json, collections, io, contextlib, copy, tempfile, os
warnings.filterwarnings("ignore")
import rustworkx as rx
from sysloss.components import *
from sysloss.components import _ComponentTypes as CT
from sysloss.system import System

seed = int(sys.argv[1]) if len(sys.argv) > 1 else 1
N = int(sys.argv[2]) if len(sys.argv) > 2 else 300
L = int(sys.argv[3]) if len(sys.argv) > 3 else 6
rnd = random.Random(seed)
fails = collections.Counter(); ex = {}
def bad(tag, *info):
    fails[tag] += 1; ex.setdefault(tag, info)
TMP = tempfile.mkdtemp()

def mk(kind, name):
    return {"Source": lambda: Source(name, vo=rnd.choice([5.0, 12.0]), rs=0.01),
            "Converter": lambda: Converter(name, vo=3.3, eff=0.9),
            "LinReg": lambda: LinReg(name, vo=2.5, ig=1e-4),
            "RLoss": lambda: RLoss(name, rs=0.05),
            "VLoss": lambda: VLoss(name, vdrop=0.1),
            "PSwitch": lambda: PSwitch(name, rs=0.02),
            "Rectifier": lambda: Rectifier(name, vdrop=0.2),
            "PMux": lambda: PMux(name, rs=0.05),
            "PLoad": lambda: PLoad(name, pwr=0.05),
            "ILoad": lambda: ILoad(name, ii=0.01),
            "RLoad": lambda: RLoad(name, rs=500.0)}[kind]()
KINDS = ["Converter", "LinReg", "RLoss", "VLoss", "PSwitch", "Rectifier", "PMux", "PLoad", "ILoad", "RLoad"]

def wf(s):
    g = s._g; a = g.attrs; errs = []
    live = list(g.node_indices())
    names = {g[i]._params["name"]: i for i in live}
    if len(names) != len(live): errs.append("duplicate component names in graph")
    if a["nodes"] != names: errs.append("nodes registry != graph %s %s" % (a["nodes"], names))
    for reg in ("rails", "groups", "phase_conf"):
        if set(a[reg]) != set(names): errs.append("%s domain != names: %s" % (reg, set(a[reg]) ^ set(names)))
    rl = [r for r in a["rails"].values() if r != ""]
    if len(rl) != len(set(rl)): errs.append("duplicate rails %s" % rl)
    if set(rl) & set(names): errs.append("rail equals a component name")
    nmux = 0
    for i in live:
        c = g[i]; t = c._component_type
        if (g.in_degree(i) == 0) != (t == CT.SOURCE): errs.append("root/source mismatch at %s" % c._params["name"])
        if t == CT.LOAD and g.out_degree(i) > 0: errs.append("load with children %s" % c._params["name"])
        if g.in_degree(i) > 1 and t != CT.PMUX: errs.append("multi-parent non-mux %s" % c._params["name"])
        if t == CT.PMUX: nmux += 1
        for p in g.predecessor_indices(i):
            if t not in g[p]._child_types: errs.append("edge not acceptable %s->%s" % (g[p]._params["name"], c._params["name"]))
        if g.in_degree(i) > 1:
            res = [s._get_index(n) for n in a["pnames"][i]]
            if sorted(res) != sorted(g.predecessor_indices(i)): errs.append("pnames of mux do not resolve to its parents %s" % a["pnames"][i])
    if nmux > 1: errs.append("more than one PMux")
    return errs

def snap(s):
    out = {}
    buf = io.StringIO()
    try:
        import rich
        from rich.console import Console
    except Exception: pass
    out["nodes"] = dict(s._g.attrs["nodes"]); out["rails"] = dict(s._g.attrs["rails"]); out["groups"] = dict(s._g.attrs["groups"])
    out["phase_conf"] = copy.deepcopy(s._g.attrs["phase_conf"]); out["phases"] = copy.deepcopy(s._g.attrs["phases"])
    out["edges"] = sorted((s._g[a]._params["name"], s._g[b]._params["name"]) for a, b in s._g.edge_list())
    out["graphnames"] = sorted(s._g[i]._params["name"] for i in s._g.node_indices())
    out["params"] = {s._g[i]._params["name"]: json.dumps(s._g[i]._params, sort_keys=True, default=str) for i in s._g.node_indices()}
    return out

def structure(s):
    """final structure as a build recipe (parents by name, mux input order)"""
    g = s._g; rec = []
    par = s._get_parents()
    for i in rx.topological_sort(g):
        c = g[i]; n = c._params["name"]
        ps = [] if par[i] == -1 else [g[p]._params["name"] for p in par[i]]
        rec.append((n, c, ps, g.attrs["groups"][n], g.attrs["rails"][n], copy.deepcopy(g.attrs["phase_conf"][n])))
    return rec

def rebuild(rec, order_seed):
    r2 = random.Random(order_seed)
    srcs = [x for x in rec if not x[2]]; rest = [x for x in rec if x[2]]
    r2.shuffle(srcs)
    s = System("sys", copy.deepcopy(srcs[0][1]), group=srcs[0][3], rail=srcs[0][4])
    for x in srcs[1:]: s.add_source(copy.deepcopy(x[1]), group=x[3], rail=x[4])
    have = {x[0] for x in srcs}; pending = rest[:]; r2.shuffle(pending)
    while pending:
        for x in pending:
            if all(p in have for p in x[2]):
                s.add_comp(x[2] if len(x[2]) > 1 else x[2][0], comp=copy.deepcopy(x[1]), group=x[3], rail=x[4]); have.add(x[0]); pending.remove(x); break
    for x in rec:
        if x[5]: s.set_comp_phases(x[0], x[5])
    return s

def table(s):
    df = s.solve()
    keep = [c for c in df.columns if c in ("Component", "Type", "Parent", "Rail in", "Domain", "Phase", "Vin (V)", "Vout (V)", "Iin (A)", "Iout (A)", "Power (W)", "Loss (W)", "Warnings")]
    rows = {}
    for _, r in df.iterrows():
        rows[(r["Component"], r.get("Phase", ""))] = tuple(round(v, 7) if isinstance(v, float) else v for v in (r[c] for c in keep[1:]))
    return rows

for t in range(N):
    s = System("sys", Source("S0", vo=12.0, rs=0.01), rail=rnd.choice(["", "R0"]))
    cnt = 0; hist = []
    for step in range(L):
        names = list(s._g.attrs["nodes"]); rails = [r for r in s._g.attrs["rails"].values() if r]
        pool = names + rails + ["nope", ""]
        op = rnd.choice(["add", "add", "add", "add_source", "change", "change", "del", "del", "phases", "cphases"])
        cnt += 1; fresh = "N%d" % cnt
        before = snap(s)
        try:
            if op == "add":
                kind = rnd.choice(KINDS)
                nm = rnd.choice([fresh, fresh, fresh, rnd.choice(pool)]) or fresh
                rail = rnd.choice(["", "", "R%d" % cnt, rnd.choice(pool)])
                if kind == "PMux" and rnd.random() < 0.7:
                    par = rnd.sample(pool, min(len(pool), rnd.randint(1, 3)))
                else:
                    par = rnd.choice(pool)
                call = ("add_comp", par, kind, nm, rail); s.add_comp(par, comp=mk(kind, nm), rail=rail, group=rnd.choice(["", "g"]))
            elif op == "add_source":
                nm = (rnd.choice([fresh, fresh, rnd.choice(pool)]) or fresh); rail = rnd.choice(["", "R%d" % cnt, rnd.choice(pool)])
                call = ("add_source", nm, rail); s.add_source(mk("Source", nm), rail=rail)
            elif op == "change":
                tgt = rnd.choice(pool); kind = rnd.choice(KINDS + ["Source"])
                nm = (rnd.choice([tgt, tgt, fresh, rnd.choice(pool)]) or fresh); rail = rnd.choice(["", "", "R%d" % cnt, rnd.choice(pool)])
                call = ("change_comp", tgt, kind, nm, rail); s.change_comp(tgt, comp=mk(kind, nm), rail=rail)
            elif op == "del":
                tgt = rnd.choice(pool); dc = rnd.random() < 0.5
                call = ("del_comp", tgt, dc); s.del_comp(tgt, del_childs=dc)
            elif op == "phases":
                ph = rnd.choice([{"a": 1.0, "b": 2.0}, {"a": 1.0}, {"N/A": 1, "b": 2}, {}])
                call = ("set_sys_phases", ph); s.set_sys_phases(ph)
            else:
                tgt = rnd.choice(pool); pc = rnd.choice([["a"], {"a": 0.01}, "bad", 3])
                if tgt in s._g.attrs["nodes"] or tgt in rails:   # well-typed configs only: dict for loads, list otherwise (C06 domain)
                    isload = s._g[s._get_index(tgt)]._component_type == CT.LOAD
                    if isinstance(pc, (list, dict)): pc = {"a": 0.01} if isload else ["a"]
                call = ("set_comp_phases", tgt, pc); s.set_comp_phases(tgt, pc)
            hist.append(call + ("ok",))
        except Exception as e:
            hist.append(call + (type(e).__name__,))
            after = snap(s)
            if after != before:
                diff = [k for k in before if before[k] != after[k]]
                bad("C15 state changed by rejected %s (%s)" % (call[0], type(e).__name__), seed, t, hist[-1], diff)
                break
            if type(e).__name__ not in ("ValueError",):
                bad("C15? rejected with %s in %s" % (type(e).__name__, call[0]), seed, t, hist[-1])
            continue
        errs = wf(s)
        if errs:
            bad("C14 WF broken after %s: %s" % (call[0], errs[0].split(" %")[0][:40]), seed, t, hist, errs); break
    else:
        # C16: reports succeed and equal a rebuilt system
        try:
            t1 = table(s); s.params(limits=True); s.phases(); s.save(os.path.join(TMP, "a.json")); s.rail_rep()
        except (RuntimeError,) as e:
            continue
        except ValueError as e:
            if "Unstable" in str(e): continue
            bad("C16 report raised ValueError", seed, t, hist, repr(e)); continue
        except Exception as e:
            bad("C16 report raised " + type(e).__name__, seed, t, hist, repr(e)); continue
        try:
            rec = structure(s)
            for os_ in (1, 2):
                s2 = rebuild(rec, os_); s2._g.attrs["phases"] = copy.deepcopy(s._g.attrs["phases"])
                t2 = table(s2)
                if t1 != t2:
                    d = [k for k in t1 if t1[k] != t2.get(k)]
                    bad("C16 edited != rebuilt", seed, t, hist, d[:3], [(t1[k], t2.get(k)) for k in d[:2]]); break
        except Exception as e:
            bad("probe-rebuild " + type(e).__name__, seed, t, hist, repr(e))
print("histories", N, "len", L)
for k, v in fails.most_common():
    print(v, k, "\n    e.g.", str(ex[k])[:700])
