import warnings, pandas as pd, json, os
warnings.filterwarnings("ignore")
from sysloss.components import *
from sysloss.system import System
pd.set_option("display.width", 250); pd.set_option("display.max_columns", 30)

print("== D4 domain attribution multi-source")
s = System("s", Source("A", vo=12.0))
s.add_source(Source("B", vo=5.0))
s.add_comp("A", comp=Converter("CA", vo=3.3, eff=0.9))
s.add_comp("B", comp=Converter("CB", vo=1.8, eff=0.8))
s.add_comp("CA", comp=PLoad("LA", pwr=1.0))
s.add_comp("CB", comp=PLoad("LB", pwr=2.0))
print(s.solve())
print([s._g[n]._params["name"] for n in s._get_topo_sort()])

print("== D3 rail_rep warnings")
s = System("s", Source("A", vo=12.0), rail="R12")
s.add_comp("A", comp=Converter("CA", vo=3.3, eff=0.9, limits={"io":[0,0.1]}), rail="R3")
s.add_comp("R3", comp=PLoad("LA", pwr=1.0, limits={"ii":[0,0.01]}))
print(s.solve())
print(s.rail_rep())
s = System("s", Source("A", vo=12.0), rail="R12")
print("no consumers:", s.rail_rep())

print("== D5 rectifier round trip")
s = System("s", Source("A", vo=12.0))
s.add_comp("A", comp=Rectifier("R", vdrop=0.7))
s.add_comp("R", comp=ILoad("L", ii=1.0))
print(s.solve())
s.save("/tmp/sysloss_spike_x.json")
t = System.from_file("/tmp/sysloss_spike_x.json")
print(t.solve())

print("== D6 batt_life exception")
s = System("s", Source("A", vo=12.0, rs=0.5))
s.add_comp("A", comp=ILoad("L", ii=1.0))
def pf(): return (1.0, 4.0, 0.1)
cnt=[0]
def df(t,i):
    cnt[0]+=1
    if cnt[0]==3: raise KeyError("boom")
    return (1.0-0.1*cnt[0], 4.0, 0.1)
try: s.batt_life("A", cutoff=3.0, pfunc=pf, dfunc=df)
except Exception as e: print("EXC", repr(e))
print(s.params())
