"""Design-phase feasibility spike (NOT the framework): a ~150-line symbolic executor that reads the REAL
source of a few sysloss component methods from /repo, enumerates their paths and discharges a contract with z3.
Run:  python3-vt spikes/symex_micro.py
"""
import ast, sys, time
from z3 import *

SRC = "/repo/src/sysloss/components.py"
tree = ast.parse(open(SRC).read())
CLASSES = {n.name: n for n in tree.body if isinstance(n, ast.ClassDef)}
FUNCS = {n.name: n for n in tree.body if isinstance(n, ast.FunctionDef)}

def Abs(x): return If(x >= 0, x, -x)
def Sign(x): return If(x > 0, RealVal(1), If(x < 0, RealVal(-1), RealVal(0)))

def method(cls, name):
    for n in CLASSES[cls].body:
        if isinstance(n, ast.FunctionDef) and n.name == name:
            return n
    for b in CLASSES[cls].bases:  # single inheritance in this code base
        return method(b.id, name)

class Ret(Exception): pass

class Path:
    def __init__(self, env, pc): self.env, self.pc = dict(env), list(pc)

def run(fn, env0):
    """returns list of (pc, outcome) with outcome ('ret', value) or ('raise', name)"""
    out = []
    def ev(e, p):
        if isinstance(e, ast.Constant):
            v = e.value
            if isinstance(v, bool): return BoolVal(v)
            if isinstance(v, (int, float)): return RealVal(repr(v))
            return v
        if isinstance(e, ast.Name):
            return p.env[e.id]
        if isinstance(e, ast.Tuple): return tuple(ev(x, p) for x in e.elts)
        if isinstance(e, ast.UnaryOp) and isinstance(e.op, ast.USub): return -ev(e.operand, p)
        if isinstance(e, ast.BinOp):
            a, b = ev(e.left, p), ev(e.right, p)
            return {ast.Add: lambda: a + b, ast.Sub: lambda: a - b, ast.Mult: lambda: a * b, ast.Div: lambda: a / b}[type(e.op)]()
        if isinstance(e, ast.Subscript):
            base = ev(e.value, p); idx = ev(e.slice, p)
            if isinstance(base, dict): return base[idx]
            if isinstance(base, list): return base[int(idx.as_long()) if is_expr(idx) else idx]
        if isinstance(e, ast.Attribute):
            if isinstance(e.value, ast.Name) and e.value.id == "self": return p.env["self"][e.attr]
            if isinstance(e.value, ast.Name) and e.value.id == "np": return ("np", e.attr)
            base = ev(e.value, p)
            return (base, e.attr)
        if isinstance(e, ast.Call):
            f = e.func
            if isinstance(f, ast.Name) and f.id == "abs": return Abs(ev(e.args[0], p))
            if isinstance(f, ast.Name) and f.id == "min": a, b = [ev(x, p) for x in e.args]; return If(a <= b, a, b)
            if isinstance(f, ast.Name) and f.id == "max": a, b = [ev(x, p) for x in e.args]; return If(a >= b, a, b)
            if isinstance(f, ast.Attribute) and isinstance(f.value, ast.Name) and f.value.id == "np" and f.attr == "sign":
                return Sign(ev(e.args[0], p))
            if isinstance(f, ast.Name) and f.id == "_get_lopt":     # inlined by hand in the spike; the framework inlines the real body
                return p.env["__off__"]
            if isinstance(f, ast.Name) and f.id == "_get_eff":
                ip, op_, d = [ev(x, p) for x in e.args]
                return If(ip > 0, 100 * Abs(op_ / ip), d)
            if isinstance(f, ast.Attribute) and f.attr == "_interp":   # self._ipr._interp(x, y): uninterpreted, range from class invariant
                x, y = [ev(a, p) for a in e.args]
                return p.env["__ipr__"](x, y)
            if isinstance(f, ast.Attribute) and f.attr == "format": return "msg"
            if isinstance(f, ast.Name) and f.id == "ValueError": return "ValueError"
        if isinstance(e, ast.Compare) and len(e.ops) == 1:
            a, b = ev(e.left, p), ev(e.comparators[0], p); o = e.ops[0]
            if isinstance(o, ast.NotIn): return Not(p.env["__phase_in__"])
            return {ast.Eq: lambda: a == b, ast.NotEq: lambda: a != b, ast.Lt: lambda: a < b, ast.LtE: lambda: a <= b,
                    ast.Gt: lambda: a > b, ast.GtE: lambda: a >= b}[type(o)]()
        if isinstance(e, ast.BoolOp):
            vs = [truth(ev(x, p)) for x in e.values]
            return And(*vs) if isinstance(e.op, ast.And) else Or(*vs)
        raise NotImplementedError(ast.dump(e)[:80])
    def truth(v):
        if isinstance(v, str) and v == "PHASE_CONF": return Bool("phase_conf_nonempty")
        return v
    def block(stmts, p, k):
        if not stmts: return k(p)
        s, rest = stmts[0], stmts[1:]
        if isinstance(s, ast.Expr): return block(rest, p, k)  # docstring
        if isinstance(s, ast.Assign):
            p.env[s.targets[0].id] = ev(s.value, p); return block(rest, p, k)
        if isinstance(s, ast.AugAssign):
            p.env[s.target.id] = p.env[s.target.id] + ev(s.value, p); return block(rest, p, k)
        if isinstance(s, ast.Return): out.append((p.pc, ("ret", ev(s.value, p)))); return
        if isinstance(s, ast.Raise): out.append((p.pc, ("raise", "ValueError"))); return
        if isinstance(s, ast.If):
            c = truth(ev(s.test, p))
            for cond, body in ((c, s.body), (Not(c), s.orelse)):
                q = Path(p.env, p.pc + [cond])
                sol = Solver(); sol.add(*q.pc)
                if sol.check() != unsat: block(list(body) + rest, q, k)
            return
        raise NotImplementedError(type(s).__name__)
    block(fn.body, Path(env0, env0.get("__pre__", [])), lambda p: out.append((p.pc, ("ret", None))))
    return out

def prove(name, pc, goal):
    s = Solver(); s.set("timeout", 10000); s.add(*pc); s.add(Not(goal))
    r = s.check(); print(f"   {name}: {'PROVED' if r == unsat else str(r).upper()}", s.model() if r == sat else "")

vi, io, ii, vo_, ta = Reals("vi io ii vo ta")
off, pin = Bool("off"), Bool("phase_in_conf")
ipr = Function("ipr", RealSort(), RealSort(), RealSort())
def base_env(params):
    return {"self": {"_params": params}, "vi": vi, "vo": vo_, "ii": ii, "io": io, "ta": ta, "phase": "ph", "phase_conf": "PHASE_CONF",
            "pstate": {}, "__off__": off, "__phase_in__": pin, "__ipr__": ipr,
            "STATE_OFF": "OFF", "STATE_DEFAULT": "ON"}
t0 = time.time()
# 1. RLoss._solv_outp_volt: law + polarity guard
rs, rt = Reals("rs rt")
env = base_env({"rs": rs, "rt": rt, "name": "n"}); env["vi"] = [vi]; env["__pre__"] = [rs >= 0, io >= 0]
paths = run(method("RLoss", "_solv_outp_volt"), env)
print("RLoss._solv_outp_volt paths:", len(paths))
for pc, (kind, val) in paths:
    if kind == "ret":
        dead = Or(vi == 0, off)
        prove("law", pc, If(dead, val[0] == 0, And(val[0] == vi - Sign(vi) * rs * io, Abs(val[0]) <= Abs(vi), val[0] * vi > 0)))
    else:
        prove("raise only when polarity lost", pc, And(vi != 0, Not(off), Abs(vi) - rs * io <= 0))
# 2. PSwitch._solv_pwr_loss: energy balance given ii == io + ig (C02), as VLoss inherits etc. would be resolved by method()
ig_, iis = Reals("ig iis")
env = base_env({"rs": rs, "rt": rt, "iis": iis, "name": "n"})
env["__pre__"] = [rs >= 0, rt >= 0, iis >= 0, io >= 0, ForAll([vi, io], ipr(vi, io) >= 0)]
paths = run(method("PSwitch", "_solv_pwr_loss"), env)
print("PSwitch._solv_pwr_loss paths:", len(paths))
inactive = And(Bool("phase_conf_nonempty"), Not(pin))
for pc, (kind, val) in paths:
    pwr, loss, eff, tr, tp = val
    g = ipr(Abs(io), Abs(vi))
    hyp = pc + [ii == If(inactive, iis, io + g), Abs(vo_) <= Abs(vi), vi != 0]
    prove("balance", hyp, If(inactive, And(pwr == iis * Abs(vi), loss == pwr), pwr - loss == Abs(vo_) * io))
    prove("0<=loss<=pwr, tr, tp", hyp, And(loss >= 0, loss <= pwr, tr == rt * loss, tp == ta + tr))
# 3. ILoad inherits _solv_pwr_loss from PLoad (MRO resolved from source)
print("ILoad._solv_pwr_loss resolved to class:", [c for c in CLASSES if method("ILoad", "_solv_pwr_loss") in CLASSES[c].body])
print(f"total {time.time()-t0:.2f}s")
