"""Design-phase feasibility spike #4 (NOT the framework): C11-P1 + C12-P1 on the REAL source.
 (a) symbolically execute K.__init__ (scalar forms) from components.py: which _params keys are written on each path and
     with which normalisation (C11: magnitudes, vo signed, ValueError conditions);
 (b) encode/decode lemma: feed the resulting _params dict (as saved by save()) to the REAL per-type branch of
     System.from_file and check that the constructor it calls rebuilds the same _params (C12).
Run: python3-vt spikes/symex_roundtrip_lemma.py [src-dir]
"""
import ast, sys, itertools
from z3 import *
SRC = sys.argv[1] if len(sys.argv) > 1 else "/repo/src/sysloss"
CM = ast.parse(open(SRC + "/components.py").read()); SM = ast.parse(open(SRC + "/system.py").read())
CLS = {n.name: n for n in CM.body if isinstance(n, ast.ClassDef)}
HELP = {n.name: n for n in CM.body if isinstance(n, ast.FunctionDef)}
def Abs(x): return If(x >= 0, x, -x)
class Sym:
    def __init__(s, z, ty="num"): s.z, s.ty = z, ty
class Rej(Exception): pass
class Unsupported(Exception): pass

def run_ctor(cls, kwargs, pc0):
    """returns list of (pc, outcome) ; outcome = ('ok', params dict) | ('raise', exc)"""
    fn = [f for f in CLS[cls].body if isinstance(f, ast.FunctionDef) and f.name == "__init__"][0]
    defaults = {a.arg: d for a, d in zip(fn.args.kwonlyargs, fn.args.kw_defaults)}
    results = []
    def ev(e, env):
        if isinstance(e, ast.Constant): return e.value
        if isinstance(e, ast.Dict) and not e.keys: return {}
        if isinstance(e, ast.Name):
            if e.id in env: return env[e.id]
            if e.id in ("LIMITS_DEFAULT",): return "LIMITS_DEFAULT"
            raise Unsupported(e.id)
        if isinstance(e, ast.Subscript):
            b = ev(e.value, env); return b[ev(e.slice, env)]
        if isinstance(e, ast.Attribute) and isinstance(e.value, ast.Name) and e.value.id == "self": return env["self"][e.attr]
        if isinstance(e, ast.Call):
            f = ast.unparse(e.func)
            if f == "abs":
                v = ev(e.args[0], env); return Sym(Abs(v.z)) if isinstance(v, Sym) else abs(v)
            if f == "isinstance":
                v = ev(e.args[0], env); ty = ast.unparse(e.args[1])
                if isinstance(v, Sym): return ("dict" in ty and v.ty == "dict") or ("list" in ty and "int" not in ty and v.ty == "list") or (("int" in ty or "float" in ty) and v.ty == "num")
                return isinstance(v, (int, float)) if "int" in ty else isinstance(v, dict) if "dict" in ty else isinstance(v, list)
            if f in ("_Interp0d", "_Interp1d", "_Interp2d"): return ("ipr", f)
            if f == "_check_limits": return ev(e.args[0], env)
            if f == "ValueError": return "ValueError"
            if f == "warn": return None
            raise Unsupported(f)
        if isinstance(e, ast.Compare):
            a, b = ev(e.left, env), ev(e.comparators[0], env); o = e.ops[0]
            za = a.z if isinstance(a, Sym) else RealVal(repr(a)); zb = b.z if isinstance(b, Sym) else RealVal(repr(b))
            return {ast.Eq: za == zb, ast.NotEq: za != zb, ast.Lt: za < zb, ast.LtE: za <= zb, ast.Gt: za > zb, ast.GtE: za >= zb}[type(o)]
        if isinstance(e, ast.UnaryOp) and isinstance(e.op, ast.Not):
            v = ev(e.operand, env); return (not v) if isinstance(v, bool) else Not(v)
        raise Unsupported(ast.dump(e)[:60])
    def block(stmts, env, pc):
        for i, s_ in enumerate(stmts):
            if isinstance(s_, ast.Expr): continue
            if isinstance(s_, ast.Assign):
                t = s_.targets[0]; v = ev(s_.value, env)
                if isinstance(t, ast.Name): env[t.id] = v
                elif isinstance(t, ast.Attribute): env["self"][t.attr] = v
                elif isinstance(t, ast.Subscript): ev(t.value, env)[ev(t.slice, env)] = v
                continue
            if isinstance(s_, ast.Raise): results.append((pc, ("raise", "ValueError"))); return
            if isinstance(s_, ast.If):
                c = ev(s_.test, env)
                branches = [(c, s_.body), (not c, s_.orelse)] if isinstance(c, bool) else [(c, s_.body), (Not(c), s_.orelse)]
                for cond, body in branches:
                    if cond is False: continue
                    if cond is True: block(list(body) + stmts[i + 1:], env, pc); return
                    sol = Solver(); sol.add(*pc, cond)
                    if sol.check() == sat:
                        env2 = dict(env); env2["self"] = {k: (dict(v) if isinstance(v, dict) else v) for k, v in env["self"].items()}
                        block(list(body) + stmts[i + 1:], env2, pc + [cond])
                if all(not isinstance(cnd, bool) for cnd, _ in branches): return
                if isinstance(c, bool): return
                return
            raise Unsupported(type(s_).__name__)
        results.append((pc, ("ok", env["self"].get("_params"))))
    env = {"self": {}, "name": "NAME"}
    for k, d in defaults.items():
        env[k] = kwargs[k] if k in kwargs else (ast.literal_eval(d) if d is not None and not isinstance(d, ast.Name) else "LIMITS_DEFAULT")
    block(fn.body, env, list(pc0))
    return results

def same(a, b, pc):
    if isinstance(a, Sym) or isinstance(b, Sym):
        za = a.z if isinstance(a, Sym) else RealVal(repr(a)); zb = b.z if isinstance(b, Sym) else RealVal(repr(b))
        s = Solver(); s.add(*pc, za != zb); return s.check() == unsat
    return a == b

# ---- locate the per-type branches of from_file
FF = [f for c in SM.body if isinstance(c, ast.ClassDef) and c.name == "System" for f in c.body if isinstance(f, ast.FunctionDef) and f.name == "from_file"][0]
child_loop = [n for n in ast.walk(FF) if isinstance(n, ast.For) and isinstance(n.target, ast.Name) and n.target.id == "c"][0]
def loader_call(typ, P):
    """evaluate the child-loop body for c = {'type': typ, 'params': P, 'limits': L}; return (class name, kwargs) of the constructor passed to add_comp"""
    env = {"c": {"type": typ, "params": P, "limits": "L"}, "p": "parent", "LIMITS_DEFAULT": "LIMITS_DEFAULT"}
    found = []
    def ev(e):
        if isinstance(e, ast.Constant): return e.value
        if isinstance(e, ast.Name): return env[e.id]
        if isinstance(e, ast.Subscript): return ev(e.value)[ev(e.slice)]
        if isinstance(e, ast.Compare):
            a, b = ev(e.left), ev(e.comparators[0]); o = e.ops[0]
            return (a == b) if isinstance(o, ast.Eq) else (a in b) if isinstance(o, ast.In) else (a != b)
        if isinstance(e, ast.Call):
            f = ast.unparse(e.func)
            if f == "_get_opt": d, k, x = [ev(a) for a in e.args]; return d[k] if k in d else x
            if f == "_get_mand":
                d, k = [ev(a) for a in e.args]
                if k not in d: raise KeyError(k)
                return d[k]
            if f == "self.add_comp": found.append(ev(e.keywords[0].value)); return None
            if f in CLS: return (f, {k.arg: ev(k.value) for k in e.keywords})
        raise Unsupported(ast.dump(e)[:80])
    def block(stmts):
        for s_ in stmts:
            if isinstance(s_, ast.Assign): env[s_.targets[0].id] = ev(s_.value)
            elif isinstance(s_, ast.Expr): ev(s_.value)
            elif isinstance(s_, ast.If): block(s_.body if ev(s_.test) else s_.orelse)
            else: raise Unsupported(type(s_).__name__)
    block(child_loop.body)
    return found[0] if found else None

SCALARS = {  # kind -> (type tag saved by save(), symbolic scalar kwargs, extra precondition builder)
 "Converter": ("CONVERTER", ["vo", "eff", "iq", "iis", "rt"]), "LinReg": ("LINREG", ["vo", "vdrop", "ig", "iis", "rt"]),
 "RLoss": ("SLOSS", ["rs", "rt"]), "VLoss": ("SLOSS", ["vdrop", "rt"]), "PSwitch": ("PSWITCH", ["rs", "ig", "iis", "rt"]),
 "Rectifier": ("RECTIFIER", ["vdrop", "rs", "ig", "iq", "rt"]), "PLoad": ("LOAD", ["pwr", "pwrs", "rt"]),
 "ILoad": ("LOAD", ["ii", "iis", "rt"]), "RLoad": ("LOAD", ["rs", "rt"]),
}
bad = 0; nobl = 0
for K, (tag, ks) in SCALARS.items():
    args = {k: Sym(Real("%s_%s" % (K, k))) for k in ks}
    if K in ("PLoad", "ILoad", "RLoad"): args["loss"] = True
    paths = run_ctor(K, args, [])
    for pc, (kind, P) in paths:
        if kind == "raise":
            s = Solver(); s.add(*pc); s.check(); print("  %-10s raises ValueError on path %s" % (K, [str(simplify(c)) for c in pc][-1][:70])); continue
        # (a) C11: magnitudes normalised
        for k, v in P.items():
            if k in ("name", "type", "loss", "vo", "eff") or not isinstance(v, Sym): continue
            nobl += 1
            s = Solver(); s.add(*pc, v.z < 0)
            if s.check() != unsat:
                bad += 1; print("  C11 REFUTED %s._params[%r] >= 0 : model %s" % (K, k, s.model()))
        # (b) C12: the loader rebuilds the same _params
        try:
            call = loader_call(tag, P)
        except Exception as e:
            print("  C12 loader branch for %s: %s %s" % (K, type(e).__name__, e)); bad += 1; continue
        cls2, kw2 = call
        P2s = [r for r in run_ctor(cls2, {k: v for k, v in kw2.items() if k != "limits"}, pc)]
        ok_paths = [r for r in P2s if r[1][0] == "ok"]
        nobl += 1
        mism = None
        if cls2 != K or len(ok_paths) != 1 or len(P2s) != 1: mism = "constructor %s, %d paths (%s)" % (cls2, len(P2s), [r[1][0] for r in P2s])
        else:
            P2 = ok_paths[0][1][1]
            if set(P2) != set(P): mism = "key sets differ: saved %s rebuilt %s" % (sorted(P), sorted(P2))
            else:
                for k in P:
                    if not same(P[k], P2[k], ok_paths[0][0]): mism = "value of %r differs" % k
        path_desc = "diode" if P.get("type") == "diode" else ("mosfet" if P.get("type") == "mosfet" else "")
        if mism: bad += 1; print("  C12 REFUTED %s %s: %s" % (K, path_desc, mism))
        else: print("  C12 proved  %s %s: loader rebuilds identical _params (%d keys)" % (K, path_desc, len(P)))
print("obligations %d, refuted %d" % (nobl, bad))
