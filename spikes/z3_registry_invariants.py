# Feasibility: registry invariants with quantifiers (hand-encoded model of add_comp / change_comp name+rail logic)
import time
from z3 import *
Name = DeclareSort("Name")
EMPTY = Const("EMPTY", Name)
def state(tag):
    dom = Function(f"dom_{tag}", Name, BoolSort())       # name in nodes
    rail = Function(f"rail_{tag}", Name, Name)            # rails[name]
    return dom, rail
def WF(dom, rail):
    a,b = Consts("a b", Name)
    return And(
        Not(dom(EMPTY)),
        ForAll([a,b], Implies(And(dom(a),dom(b),a!=b,rail(a)!=EMPTY), rail(a)!=rail(b))),  # rails unique
        ForAll([a,b], Implies(And(dom(a),dom(b)), rail(a)!=b)),                             # rails disjoint from names
    )
def in_rails(dom, rail, x):
    k = Const("k", Name)
    return Exists([k], And(dom(k), rail(k)==x))
def chk_name_ok(dom, rail, name, r):
    return And(Not(dom(name)), Not(in_rails(dom,rail,name)),
               Or(r==EMPTY, And(name!=r, Not(dom(r)), Not(in_rails(dom,rail,r)))))
def prove(nm, hyps, goal):
    s=Solver(); s.set("timeout",20000); s.add(*hyps); s.add(Not(goal))
    t=time.time(); r=s.check(); print(nm, "PROVED" if r==unsat else r, f"{time.time()-t:.3f}s")
    if r==sat: print("   model:", s.model())
dom, rail = state("0"); dom1, rail1 = state("1")
name, r, old = Consts("name r old", Name)
x = Const("x", Name)
# add_comp: after chk_name, nodes[name]=.., rails[name]=r
upd_add = And(ForAll([x], dom1(x) == Or(dom(x), x==name)),
              ForAll([x], rail1(x) == If(x==name, r, rail(x))))
prove("add_comp preserves WF", [WF(dom,rail), name!=EMPTY, chk_name_ok(dom,rail,name,r), upd_add], WF(dom1,rail1))
# change_comp as coded: if name != new: chk_name(new, r); then del old; set new
new = Const("new", Name)
upd_chg = And(ForAll([x], dom1(x) == Or(And(dom(x), x!=old), x==new)),
              ForAll([x], rail1(x) == If(x==new, r, rail(x))))
pre_chg = And(dom(old), Implies(old!=new, chk_name_ok(dom,rail,new,r)))
prove("change_comp (as coded) preserves WF  [expected sat]", [WF(dom,rail), new!=EMPTY, pre_chg, upd_chg], WF(dom1,rail1))
# fixed: also validate rail when name unchanged (rail may equal own old rail)
pre_fix = And(dom(old), If(old!=new, chk_name_ok(dom,rail,new,r),
      Or(r==EMPTY, r==rail(old), And(new!=r, Not(dom(r)), Not(in_rails(dom,rail,r))))))
prove("change_comp (fixed) preserves WF", [WF(dom,rail), new!=EMPTY, pre_fix, upd_chg], WF(dom1,rail1))
