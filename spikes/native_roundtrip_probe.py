"""Design-phase probe: save()/from_file() round trip of every kind with non-default parameters (C12), and TOML loader (C13)."""
import warnings, json, os, tempfile
warnings.filterwarnings("ignore")
from sysloss.components import *
from sysloss.system import System
tab = {"vi": [3.3, 5.0], "io": [0.1, 0.5, 0.9], "eff": [[0.55, 0.78, 0.92], [0.5, 0.74, 0.83]]}
igt = {"vi": [5.0], "io": [0.0, 0.05, 0.1], "ig": [[2.0e-6, 0.5e-3, 0.85e-3]]}
vdt = {"vi": [2.5, 5.0], "io": [0.1, 0.5], "vdrop": [[0.23, 0.34], [0.27, 0.39]]}
lim = {"vi": [1, 30], "ii": [0, 2]}
s = System("rt", Source("S1", vo=12.0, rs=0.1, limits={"io": [0, 3]}), group="g0", rail="R12")
s.add_source(Source("S2", vo=-5.0, rs=0.0), rail="RN5")
comps = [
 ("S1", Converter("C1", vo=3.3, eff=0.9, iq=1e-4, iis=1e-6, rt=11.0, limits=lim)),
 ("S1", Converter("C2", vo=1.8, eff=tab, iq=2e-4)),
 ("S1", LinReg("L1", vo=5.0, vdrop=0.3, ig=1e-3, iis=2e-6, rt=12.0, limits=lim)),
 ("S1", LinReg("L2", vo=2.5, ig=igt)),
 ("S1", RLoss("R1", rs=0.2, rt=13.0, limits=lim)),
 ("S1", VLoss("V1", vdrop=0.4, rt=14.0)),
 ("S1", VLoss("V2", vdrop=vdt)),
 ("S1", PSwitch("P1", rs=0.05, ig=1e-5, iis=3e-6, rt=15.0)),
 ("S1", PSwitch("P2", ig=igt)),
 ("S1", Rectifier("D1", vdrop=0.5, rt=16.0)),
 ("S1", Rectifier("D2", vdrop=vdt)),
 ("S1", Rectifier("M1", rs=0.02, ig=1e-5, iq=2e-5, rt=17.0)),
 ("S1", Rectifier("M2", ig=igt)),
]
for p, c in comps:
    s.add_comp(p, comp=c, group="g1", rail="rail_" + c._params["name"])
k = 0
for p, c in comps:
    n = c._params["name"]
    s.add_comp(n, comp=PLoad("pl" + n, pwr=0.01, pwrs=1e-4, rt=3.0, loss=(k % 2 == 0), limits={"vi": [0, 40]})); k += 1
    s.add_comp("rail_" + n, comp=ILoad("il" + n, ii=0.002, iis=1e-5, rt=4.0, loss=(k % 3 == 0)))
    s.add_comp(n, comp=RLoad("rl" + n, rs=1000.0, rt=5.0, loss=(k % 2 == 1)))
s.add_comp(["S2", "C1"], comp=PMux("MX", rs=[0.1, 0.2], ig=1e-5, iis=1e-6, rt=6.0), rail="RMX")
s.add_comp("MX", comp=ILoad("ilmx", ii=0.01))
s.set_sys_phases({"a": 1.0, "b": 2.0})
s.set_comp_phases("C1", ["a"]); s.set_comp_phases("plC1", {"a": 0.5}); s.set_comp_phases("S2", ["b"])
f = os.path.join(tempfile.mkdtemp(), "x.json")
s.save(f); t = System.from_file(f)
bad = 0
for name, idx in s._g.attrs["nodes"].items():
    a = s._g[idx]; b = t._g[t._g.attrs["nodes"][name]]
    if type(a) is not type(b) or json.dumps(a._params, sort_keys=True) != json.dumps(b._params, sort_keys=True):
        bad += 1; print("PARAMS DIFFER", name, type(a).__name__, a._params, "->", type(b).__name__, b._params)
    la = {k: a._limits.get(k) for k in a._get_limits() if k in a._limits}; lb = {k: b._limits.get(k) for k in b._get_limits() if k in b._limits}
    from sysloss.components import LIMITS_DEFAULT
    la = {k: v for k, v in la.items() if v != LIMITS_DEFAULT[k]}; lb = {k: v for k, v in lb.items() if v != LIMITS_DEFAULT[k]}
    if la != lb: bad += 1; print("LIMITS DIFFER", name, la, lb)
for key in ("groups", "rails", "phases", "phase_conf"):
    if s._g.attrs[key] != t._g.attrs[key]: bad += 1; print("ATTR DIFFERS", key)
ps = {n: [s._g[i]._params["name"] for i in (s._get_parents()[s._g.attrs["nodes"][n]] if s._get_parents()[s._g.attrs["nodes"][n]] != -1 else [])] for n in s._g.attrs["nodes"]}
pt = {n: [t._g[i]._params["name"] for i in (t._get_parents()[t._g.attrs["nodes"][n]] if t._get_parents()[t._g.attrs["nodes"][n]] != -1 else [])] for n in t._g.attrs["nodes"]}
if ps != pt: bad += 1; print("PARENTS DIFFER", {k: (ps[k], pt.get(k)) for k in ps if ps[k] != pt.get(k)})
da = s.solve(); db = t.solve()
ka = {(r["Component"], r["Phase"]): r for _, r in da.iterrows()}; kb = {(r["Component"], r["Phase"]): r for _, r in db.iterrows()}
for key in ka:
    for col in ("Vin (V)", "Vout (V)", "Iin (A)", "Iout (A)", "Power (W)", "Loss (W)"):
        x, y = ka[key][col], kb[key][col]
        if x != "" and abs(x - y) > 1e-9 * max(1, abs(x)): bad += 1; print("SOLVE DIFFERS", key, col, x, y); break
print("components", len(s._g.attrs["nodes"]), "differences", bad)
