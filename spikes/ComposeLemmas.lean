import Mathlib

open Finset BigOperators

/-- C07: per-phase 24h energies add up to the 24h energy of the duration-weighted average power. -/
theorem energy_additive {ι : Type} (s : Finset ι) (d P : ι → ℝ)
    (hT : (∑ p ∈ s, d p) ≠ 0) :
    ∑ p ∈ s, (d p / 3600) * P p * (24 * 3600 / ∑ q ∈ s, d q)
      = ((∑ p ∈ s, P p * d p) / ∑ q ∈ s, d q) * 24 := by
  have h3600 : (3600:ℝ) ≠ 0 := by norm_num
  rw [Finset.sum_div, Finset.sum_mul]
  apply Finset.sum_congr rfl
  intro p _
  field_simp

/-- C02: system balance from per-node balance. Nodes `N`, parent map for non-roots. -/
theorem power_balance {N : Type} [DecidableEq N] (nodes : Finset N)
    (parent : N → Option N)
    (pwr loss hand : N → ℝ) (isLoad : N → Prop) [DecidablePred isLoad]
    -- every non-root's parent is a node
    (hpar : ∀ n ∈ nodes, ∀ p, parent n = some p → p ∈ nodes)
    -- a non-load hands on pwr - loss
    (hbal : ∀ n ∈ nodes, ¬ isLoad n → pwr n - loss n = hand n)
    -- loads hand on nothing
    (hload : ∀ n ∈ nodes, isLoad n → hand n = 0)
    -- what a node hands on is what its children take in (|Vout| * Iout = Σ |Vin_c| * Iin_c)
    (hkir : ∀ p ∈ nodes, hand p = ∑ c ∈ nodes.filter (fun c => parent c = some p), pwr c) :
    ∑ n ∈ nodes.filter (fun n => parent n = none), pwr n
      = ∑ n ∈ nodes.filter (fun n => isLoad n), pwr n
        + ∑ n ∈ nodes.filter (fun n => ¬ isLoad n), loss n := by
  -- Σ_all hand = Σ_{non-root} pwr
  have h1 : ∑ p ∈ nodes, hand p = ∑ c ∈ nodes.filter (fun c => parent c ≠ none), pwr c := by
    rw [Finset.sum_congr rfl hkir]
    rw [Finset.sum_comm' (t' := nodes.filter (fun c => parent c ≠ none))
          (s' := fun c => nodes.filter (fun p => parent c = some p))]
    · apply Finset.sum_congr rfl
      intro c hc
      simp only [Finset.mem_filter] at hc
      obtain ⟨hcn, hne⟩ := hc
      obtain ⟨p, hp⟩ := Option.ne_none_iff_exists'.mp hne
      have : nodes.filter (fun q => parent c = some q) = {p} := by
        ext q; simp [hp, Finset.mem_filter]; constructor
        · rintro ⟨_, h⟩; exact h.symm
        · rintro rfl; exact ⟨hpar c hcn _ hp, rfl⟩
      simp [this]
    · intro p c
      simp only [Finset.mem_filter]
      constructor
      · rintro ⟨h1, h2, h3⟩
        exact ⟨⟨h1, h3⟩, h2, by simp [h3]⟩
      · rintro ⟨⟨h1, h3⟩, h2, _⟩
        exact ⟨h1, h2, h3⟩
  -- Σ_all hand = Σ_{non-load} (pwr - loss)
  have h2 : ∑ p ∈ nodes, hand p = ∑ n ∈ nodes.filter (fun n => ¬ isLoad n), (pwr n - loss n) := by
    rw [← Finset.sum_filter_add_sum_filter_not nodes (fun n => isLoad n)]
    have : ∑ n ∈ nodes.filter (fun n => isLoad n), hand n = 0 := by
      apply Finset.sum_eq_zero; intro n hn
      simp only [Finset.mem_filter] at hn; exact hload n hn.1 hn.2
    rw [this, zero_add]
    apply Finset.sum_congr rfl; intro n hn
    simp only [Finset.mem_filter] at hn; exact (hbal n hn.1 hn.2).symm
  -- split Σ_all pwr two ways
  have h3 := Finset.sum_filter_add_sum_filter_not nodes (fun n => parent n = none) pwr
  have h4 := Finset.sum_filter_add_sum_filter_not nodes (fun n => isLoad n) pwr
  rw [Finset.sum_sub_distrib] at h2
  linarith
