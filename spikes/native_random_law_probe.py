"""Design-phase probe (NOT the framework): random small power trees, solve(), and an independent row-wise law check,
to surface further genuine defects / oracle pitfalls on the unchanged tree before the contracts are written.
Run: /venv/bin/python spikes/native_random_law_probe.py [seed] [n]
Known-finding regions are avoided on purpose: negative sources get rs=0 (D2); series drops are modest (D10).
"""
import sys, random, warnings, math, collections
import numpy as np
warnings.filterwarnings("ignore")
from sysloss.components import *
from sysloss.system import System

seed = int(sys.argv[1]) if len(sys.argv) > 1 else 1
N = int(sys.argv[2]) if len(sys.argv) > 2 else 300
rnd = random.Random(seed)
REL = 2e-4


def close(a, b):
    return math.isclose(a, b, rel_tol=REL, abs_tol=1e-7)


def mk_comp(kind, name, pol):
    r = rnd.random
    if kind == "Converter":
        return Converter(name, vo=pol * rnd.choice([1.8, 3.3, 5.0]) * rnd.choice([1, 1, -1]), eff=rnd.uniform(0.6, 1.0),
                         iq=rnd.choice([0, 1e-4]), iis=rnd.choice([0, 1e-5]), rt=rnd.choice([0, 20.0]))
    if kind == "LinReg":
        return LinReg(name, vo=rnd.choice([1.2, 2.5, 3.0]) * rnd.choice([1, -1]), vdrop=rnd.choice([0, 0.2]),
                      ig=rnd.choice([0, 1e-3]), iis=rnd.choice([0, 1e-5]), rt=rnd.choice([0, 30.0]))
    if kind == "RLoss":
        return RLoss(name, rs=rnd.choice([0, 0.05, -0.1]), rt=rnd.choice([0, 5.0]))
    if kind == "VLoss":
        return VLoss(name, vdrop=rnd.choice([0.0, 0.05, -0.1]), rt=rnd.choice([0, 5.0]))
    if kind == "PSwitch":
        return PSwitch(name, rs=rnd.choice([0, 0.05]), ig=rnd.choice([0, 1e-4]), iis=rnd.choice([0, 1e-6]), rt=rnd.choice([0, 5.0]))
    if kind == "RectD":
        return Rectifier(name, vdrop=rnd.choice([0.05, 0.1]), rt=rnd.choice([0, 5.0]))
    if kind == "RectM":
        return Rectifier(name, rs=rnd.choice([0, 0.02]), ig=rnd.choice([0, 1e-4]), iq=rnd.choice([0, 1e-5]), rt=rnd.choice([0, 5.0]))
    if kind == "PLoad":
        return PLoad(name, pwr=rnd.choice([0.01, 0.1, -0.05]), pwrs=rnd.choice([0, 1e-4]), rt=rnd.choice([0, 10.0]), loss=rnd.random() < 0.3)
    if kind == "ILoad":
        return ILoad(name, ii=rnd.choice([0.001, 0.02, -0.01]), iis=rnd.choice([0, 1e-5]), rt=rnd.choice([0, 10.0]), loss=rnd.random() < 0.3)
    if kind == "RLoad":
        return RLoad(name, rs=rnd.choice([100.0, 1000.0, -470.0]), rt=rnd.choice([0, 10.0]), loss=rnd.random() < 0.3)


INNER = ["Converter", "LinReg", "RLoss", "VLoss", "PSwitch", "RectD", "RectM"]
LEAF = ["PLoad", "ILoad", "RLoad"]


def build():
    pol = rnd.choice([1, 1, -1])
    vo = pol * rnd.choice([5.0, 12.0, 24.0, 0.0 if rnd.random() < 0.1 else 9.0])
    rs = rnd.choice([0, 0.01]) if vo > 0 else 0.0
    s = System("s", Source("S0", vo=vo, rs=rs))
    nodes = [("S0", "Source", 0)]
    n = rnd.randint(2, 9)
    for k in range(n):
        cand = [x for x in nodes if x[1] not in LEAF and x[2] < 4]
        par = rnd.choice(cand)
        kind = rnd.choice(LEAF if (k > n // 2 or rnd.random() < 0.35) else INNER)
        name = "%s%d" % (kind, k)
        s.add_comp(par[0], comp=mk_comp(kind, name, pol))
        nodes.append((name, kind, par[2] + 1))
    phases = None
    if rnd.random() < 0.4:
        phases = {"a": 10.0, "b": 1.0, "c": 100.0}
        s.set_sys_phases(phases)
        for (name, kind, _) in nodes:
            if rnd.random() < 0.5:
                continue
            if kind in ("Source", "Converter", "LinReg", "PSwitch"):
                s.set_comp_phases(name, rnd.choice([["a"], ["a", "c"], ["b"]]))
            elif kind == "PLoad":
                s.set_comp_phases(name, rnd.choice([{"a": 0.02}, {"a": 0.02, "b": 0.2, "c": 0.001}]))
            elif kind == "ILoad":
                s.set_comp_phases(name, rnd.choice([{"b": 0.005}, {"a": 0.002, "c": 0.01}]))
            elif kind == "RLoad":
                s.set_comp_phases(name, rnd.choice([{"b": 220.0}, {"a": 50.0, "c": 5000.0}]))
    return s, phases


def law(c, pc, ph, vin, iout):
    """independent spec: (vout, iin, power, loss) or None if the spec says 'unstable'"""
    P = c._params
    kind = type(c).__name__
    inactive = bool(pc) and ph not in pc
    vin = float(vin); iout = float(iout)
    sg = (vin > 0) - (vin < 0)
    if kind == "Source":
        if P["vo"] == 0 or inactive:
            return 0, 0, 0, 0
        sv = (P["vo"] > 0) - (P["vo"] < 0)
        vo = sv * (abs(P["vo"]) - P["rs"] * iout)
        return vo, iout, abs(P["vo"]) * iout, P["rs"] * iout ** 2
    if vin == 0:
        return 0, 0, 0, 0
    a = abs(vin)
    if kind in ("PLoad", "ILoad", "RLoad"):
        if kind == "PLoad":
            val = P["pwr"] if not pc else (pc[ph] if ph in pc else P["pwrs"]); ii = val / a
        elif kind == "ILoad":
            val = P["ii"] if not pc else (pc[ph] if ph in pc else P["iis"]); ii = abs(val)
        else:
            val = P["rs"] if not pc else (pc[ph] if ph in pc else P["rs"]); ii = a / val
        pw = a * ii
        return 0, ii, (0 if P["loss"] else pw), (pw if P["loss"] else 0)
    if kind == "RLoss":
        vo = a - P["rs"] * iout
        return (None if vo <= 0 else (sg * vo, iout, a * iout, P["rs"] * iout ** 2))
    if kind == "VLoss":
        vo = a - P["vdrop"]
        return (None if vo <= 0 else (sg * vo, iout, a * iout, P["vdrop"] * iout))
    if kind == "Converter":
        if inactive:
            return 0, P["iis"], P["iis"] * a, P["iis"] * a
        ii = P["iq"] if iout == 0 else abs(P["vo"]) * iout / (a * P["eff"])
        return P["vo"], ii, a * ii, (P["iq"] * a if iout == 0 else a * ii * (1 - P["eff"]))
    if kind == "LinReg":
        if inactive:
            return 0, P["iis"], P["iis"] * a, P["iis"] * a
        v = min(abs(P["vo"]), max(a - P["vdrop"], 0.0)); sv = 1 if P["vo"] >= 0 else -1
        ii = iout + P["ig"]
        return sv * v, ii, a * ii, P["ig"] * a + (a - v) * iout
    if kind == "PSwitch":
        if inactive:
            return 0, P["iis"], P["iis"] * a, P["iis"] * a
        v = a - P["rs"] * iout; ii = iout + P["ig"]
        return sg * v, ii, a * ii, P["ig"] * a + P["rs"] * iout ** 2
    if kind == "Rectifier":
        if P["type"] == "diode":
            vo = a - 2 * P["vdrop"]
            return (None if vo <= 0 else (vo, iout, a * iout, 2 * P["vdrop"] * iout))
        ii = P["iq"] if iout == 0 else iout + P["ig"]
        return a - 2 * P["rs"] * iout, ii, a * ii, (P["iq"] * a if iout == 0 else P["ig"] * a + 2 * P["rs"] * iout ** 2)


fails = collections.Counter(); examples = {}
solved = raised = rows = 0
for t in range(N):
    s, phases = build()
    try:
        df = s.solve(ta=30.0)
    except (ValueError, RuntimeError) as e:
        raised += 1; continue
    except Exception as e:
        fails["EXC " + type(e).__name__] += 1; examples.setdefault("EXC " + type(e).__name__, repr(e)); continue
    solved += 1
    pcs = s._g.attrs["phase_conf"]
    for ph in (phases or {"": 0}):
        d = df[df["Phase"] == ph] if phases else df
        d = d[d["Type"] != ""]
        byname = {r["Component"]: r for _, r in d.iterrows()}
        kids = collections.defaultdict(list)
        for r in byname.values():
            if r["Parent"] != "":
                kids[r["Parent"]].append(r)
        for name, r in byname.items():
            rows += 1
            c = s._g[s._g.attrs["nodes"][name]]
            def bad(tag, *info):
                key = "%s:%s" % (type(c).__name__, tag); fails[key] += 1
                examples.setdefault(key, (seed, t, ph, name, c._params, dict(r), info))
            if r["Parent"] != "" and not close(r["Vin (V)"], byname[r["Parent"]]["Vout (V)"]):
                bad("vin!=parent.vout")
            isum = sum(k["Iin (A)"] for k in kids[name])
            if not close(r["Iout (A)"], isum):
                bad("iout!=sum(children iin)", isum)
            exp = law(c, pcs[name], ph, r["Vin (V)"], r["Iout (A)"])
            if exp is None:
                bad("spec says unstable but a row was returned"); continue
            vo, ii, pw, ls = exp
            if not close(r["Vout (V)"], vo): bad("vout", vo)
            if not close(r["Iin (A)"], ii): bad("iin", ii)
            if not close(r["Power (W)"], pw): bad("power", pw)
            if not close(r["Loss (W)"], ls): bad("loss", ls)
            if r["Type"] != "LOAD" and r["Power (W)"] > 0:
                if not close(r["Power (W)"] - r["Loss (W)"], abs(r["Vout (V)"]) * r["Iout (A)"]): bad("balance")
                if not close(r["Efficiency (%)"], 100 * (r["Power (W)"] - r["Loss (W)"]) / r["Power (W)"]): bad("eff")
            if r["Loss (W)"] < -1e-12 or r["Loss (W)"] > r["Power (W)"] + 1e-9 and r["Type"] != "LOAD": bad("loss range")
        tot = d[d["Type"] == "SOURCE"]["Power (W)"].sum()
        loads = d[d["Type"] == "LOAD"]["Power (W)"].sum(); losses = d["Loss (W)"].sum()
        if not close(tot, loads + losses):
            fails["SYSTEM:balance"] += 1; examples.setdefault("SYSTEM:balance", (seed, t, ph, tot, loads, losses))
print("systems", N, "solved", solved, "raised", raised, "rows", rows)
for k, v in fails.most_common():
    print(v, k, "\n    e.g.", examples[k])
