import warnings, numpy as np, random
warnings.filterwarnings("ignore")
from sysloss.components import *
from sysloss.components import _Interp2d, _Interp1d
random.seed(1)
bad=0; n=0
for trial in range(300):
    nv=random.randint(2,5); ni=random.randint(2,6)
    scale_i=10**random.uniform(-3,1); scale_v=10**random.uniform(-1,2)
    io=sorted(random.sample(range(1,1000),ni)); io=[x*scale_i/1000 for x in io]
    vi=sorted(random.sample(range(1,1000),nv)); vi=[x*scale_v/1000 for x in vi]
    z=[[random.uniform(0.1,1.0) for _ in io] for _ in vi]
    c=Converter("c",vo=1.0,eff={"vi":vi,"io":io,"eff":z})
    ip=c._ipr
    # grid points
    for r in range(nv):
        for k in range(ni):
            n+=1
            val=ip._interp(io[k],vi[r])
            if not np.isclose(val,z[r][k],rtol=1e-9): bad+=1; print("grid",trial,val,z[r][k])
    # outside / clamp
    for _ in range(20):
        x=random.uniform(0,2*io[-1]); y=random.uniform(0,2*vi[-1])
        val=ip._interp(x,y); n+=1
        xc=min(max(x,io[0]),io[-1]); yc=min(max(y,vi[0]),vi[-1])
        ref=ip._interp(xc,yc)
        lo=min(map(min,z)); hi=max(map(max,z))
        if np.isnan(val) or not np.isclose(val,ref,rtol=1e-9) or val<lo-1e-12 or val>hi+1e-12:
            bad+=1; print("clamp",trial,x,y,val,ref, io, vi)
print("n",n,"bad",bad)
