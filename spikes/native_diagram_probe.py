"""Design-phase probe: read make_diag/make_hdiag output in Graphviz JSON form and check nodes/edges/clusters/colours/labels (C19)."""
import warnings, json, os, tempfile, re, math
warnings.filterwarnings("ignore")
from sysloss.components import *
from sysloss.system import System
import sysloss.diagram as sd
import matplotlib as mpl
TMP = tempfile.mkdtemp()
s = System("Sys one", Source("S 1", vo=12.0, rs=0.05), group="in")
s.add_source(Source("S2", vo=5.0))
s.add_comp("S 1", comp=Converter("Buck", vo=3.3, eff=0.85), group="core")
s.add_comp("Buck", comp=PLoad("MCU", pwr=0.7), group="core")
s.add_comp("S 1", comp=RLoss("Rf", rs=2.0))
s.add_comp("Rf", comp=ILoad("Sens", ii=0.02))
s.add_comp(["S2", "Buck"], comp=PMux("Mux", rs=0.1), group="io")
s.add_comp("Mux", comp=RLoad("Led", rs=300.0), group="io")
s.set_sys_phases({"on": 1.0, "off": 9.0}); s.set_comp_phases("MCU", {"on": 0.7, "off": 0.001})
def load(fn, **kw):
    p = os.path.join(TMP, "d.json"); fn(s, fname=p, **kw); return json.load(open(p))
def parse(j):
    objs = j.get("objects", []); nodes = {o["_gvid"]: o for o in objs if "nodes" not in o and "subgraphs" not in o and not o["name"].startswith("cluster_")}
    clusters = {o["name"]: o for o in objs if o["name"].startswith("cluster_")}
    edges = [(nodes[e["tail"]]["name"], nodes[e["head"]]["name"]) for e in j.get("edges", [])]
    return nodes, clusters, edges
j = load(sd.make_diag)
nodes, clusters, edges = parse(j)
names = {n["name"] for n in nodes.values()}
print("nodes", sorted(names)); print("clusters", {k: [nodes[i]["name"] for i in v.get("nodes", [])] for k, v in clusters.items()}); print("edges", sorted(edges))
want_edges = sorted((s._g[a]._params["name"], s._g[b]._params["name"]) for a, b in s._g.edge_list())
print("node set ok:", names == set(s._g.attrs["nodes"]), " edge set ok:", sorted(edges) == want_edges)
conf = sd.get_conf(); conf["node"]["Converter"] = {"fillcolor": "red", "shape": "ellipse"}; conf["node"]["Buck"] = {"fillcolor": "green"}; conf["node"]["default"]["fillcolor"] = "yellow"
nodes, clusters, edges = parse(load(sd.make_diag, config=conf))
byn = {n["name"]: n for n in nodes.values()}
print("precedence:", byn["Buck"]["fillcolor"], byn["Buck"]["shape"], byn["MCU"]["fillcolor"])
nodes, clusters, edges = parse(load(sd.make_diag, group=False)); print("group=False clusters:", list(clusters))
jh = load(sd.make_hdiag); nodes, clusters, edges = parse(jh); byn = {n["name"]: n for n in nodes.values()}
df = s.solve(); T = 10.0
loss = {}
for n in s._g.attrs["nodes"]:
    d = df[df.Component == n]; loss[n] = sum(float(r["Loss (W)"]) * {"on": 1.0, "off": 9.0}[r["Phase"]] for _, r in d.iterrows()) / T
mx = max(loss.values())
for n, l in sorted(loss.items(), key=lambda x: x[1]):
    lab = byn[n]["label"]; col = byn[n]["fillcolor"]
    print("%-5s loss=%.6g label=%r fill=%s" % (n, l, lab, col))
print("legend:", byn["Scale"]["label"], " max loss", mx)
