"""Design-phase feasibility spike #2 (NOT the framework): symbolic execution of REAL system.py code with
  (1) a while-loop + break + invariant/variant          -> System._solve          (C03-P1)
  (2) a for-loop over a symbolic sequence + invariant     -> System._child_curr     (C01-P2 / C05-P2)
  (3) a mechanically located slice (per-node loop body)   -> System.solve           (C01-P4, C02-P3, C05-P4)
Abstract heap: self.<attr>[...] chains are resolved through a small model (uninterpreted functions), libraries through
assumed contracts. Run: python3-vt spikes/symex_loops_slices.py [path-to-system.py]
"""
import ast, sys, time, itertools
from z3 import *

SRC = sys.argv[1] if len(sys.argv) > 1 else "/repo/src/sysloss/system.py"
MOD = ast.parse(open(SRC).read())
SYSTEM = [n for n in MOD.body if isinstance(n, ast.ClassDef) and n.name == "System"][0]
def method(name): return [n for n in SYSTEM.body if isinstance(n, ast.FunctionDef) and n.name == name][0]

# ------------------------------------------------------------------ values
class S:                      # tagged symbolic scalar (Real / Int / Bool / uninterpreted sort)
    def __init__(s, z): s.z = z
class Opt:                    # "-1 or list": (isnone, Seq)
    def __init__(s, isnone, seq): s.isnone, s.seq = isnone, seq
class Seq:                    # symbolic sequence: length + element function (Python callable on a z3 Int / python int)
    def __init__(s, ln, elem): s.ln, s.elem = ln, elem
class HMap:                   # heap map: idx -> value via Python callable
    def __init__(s, get): s.get = get
class Obj:                    # opaque object with attribute table and method contracts
    def __init__(s, attrs=None, methods=None, tag=""): s.attrs, s.methods, s.tag = attrs or {}, methods or {}, tag
class Acc:                    # accumulator list: only appends are tracked
    def __init__(s, name): s.name, s.items = name, []
    def copy(s): a = Acc(s.name); a.items = list(s.items); return a
class Unsupported(Exception): pass

def z(v):
    if isinstance(v, S): return v.z
    if isinstance(v, bool): return BoolVal(v)
    if isinstance(v, int): return IntVal(v)
    if isinstance(v, float): return RealVal(repr(v))
    raise Unsupported("z(%r)" % (v,))
def truth(v):
    if isinstance(v, S): return v.z
    if isinstance(v, (bool, int, float, str)) or v is None: return BoolVal(bool(v))
    if isinstance(v, dict) or isinstance(v, list): return BoolVal(len(v) > 0)
    raise Unsupported("truth(%r)" % type(v))

class St:                     # execution state
    def __init__(s, env, pc, calls=None): s.env, s.pc, s.calls = env, pc, calls or []
    def fork(s, c):
        env = {k: (v.copy() if isinstance(v, Acc) else (dict(v) if isinstance(v, dict) else v)) for k, v in s.env.items()}
        return St(env, s.pc + [c], list(s.calls))

OBL = []                      # (name, hypotheses, goal)
def oblige(name, st, goal, extra=()): OBL.append((name, list(st.pc) + list(extra), goal))
def feasible(pc):
    sol = Solver(); sol.set("timeout", 2000); sol.add(*pc); return sol.check() != unsat

# ------------------------------------------------------------------ expression evaluation
class Engine:
    def __init__(e, builtins, loops): e.b, e.loops = builtins, loops
    def ev(e, x, st):
        t = type(x)
        if t is ast.Constant: return x.value
        if t is ast.Name:
            if x.id in st.env: return st.env[x.id]
            if x.id in e.b: return e.b[x.id]
            raise Unsupported("name " + x.id)
        if t is ast.Tuple: return tuple(e.ev(a, st) for a in x.elts)
        if t is ast.List: return [e.ev(a, st) for a in x.elts]
        if t is ast.Dict: return {e.ev(k, st): e.ev(v, st) for k, v in zip(x.keys, x.values)}
        if t is ast.UnaryOp:
            v = e.ev(x.operand, st)
            if isinstance(x.op, ast.USub): return -v if not isinstance(v, S) else S(-v.z)
            if isinstance(x.op, ast.Not): return S(Not(truth(v)))
        if t is ast.BinOp:
            a, b = e.ev(x.left, st), e.ev(x.right, st)
            if isinstance(a, str) and isinstance(x.op, ast.Mod): return "fmt"
            if not isinstance(a, S) and not isinstance(b, S) and isinstance(a, (int, float)) and isinstance(b, (int, float)):
                return {ast.Add: a + b, ast.Sub: a - b, ast.Mult: a * b}[type(x.op)] if type(x.op) in (ast.Add, ast.Sub, ast.Mult) else a / b
            za, zb = z(a), z(b)
            if is_int(za) and is_real(zb): za = ToReal(za)
            if is_int(zb) and is_real(za): zb = ToReal(zb)
            return S({ast.Add: lambda: za + zb, ast.Sub: lambda: za - zb, ast.Mult: lambda: za * zb, ast.Div: lambda: za / zb}[type(x.op)]())
        if t is ast.BoolOp:
            vs = [truth(e.ev(v, st)) for v in x.values]      # all operands here are side-effect free
            return S(And(*vs) if isinstance(x.op, ast.And) else Or(*vs))
        if t is ast.Compare and len(x.ops) == 1:
            a, b, o = e.ev(x.left, st), e.ev(x.comparators[0], st), x.ops[0]
            if isinstance(a, Opt) and b == -1: return S(a.isnone if isinstance(o, ast.Eq) else Not(a.isnone))
            if isinstance(a, str) and isinstance(b, str): return (a == b) if isinstance(o, ast.Eq) else (a != b)
            if isinstance(a, S) and isinstance(b, str):            # Name-sorted value vs literal
                c = a.z == e.b["__strconst__"](b, a.z.sort()); return S(c if isinstance(o, ast.Eq) else Not(c))
            if isinstance(o, (ast.In, ast.NotIn)) and isinstance(b, Obj) and "contains" in b.methods:
                c = b.methods["contains"](a); return S(c if isinstance(o, ast.In) else Not(c))
            za, zb = z(a), z(b)
            if is_int(za) and is_real(zb): za = ToReal(za)
            if is_int(zb) and is_real(za): zb = ToReal(zb)
            return S({ast.Eq: lambda: za == zb, ast.NotEq: lambda: za != zb, ast.Lt: lambda: za < zb, ast.LtE: lambda: za <= zb,
                      ast.Gt: lambda: za > zb, ast.GtE: lambda: za >= zb}[type(o)]())
        if t is ast.Attribute:
            base = e.ev(x.value, st)
            if isinstance(base, Obj):
                if x.attr in base.attrs: return base.attrs[x.attr]
                if x.attr in base.methods: return ("bound", base, x.attr)
            if isinstance(base, str) and x.attr == "format": return ("fmt",)
            raise Unsupported("attr %s on %r" % (x.attr, getattr(base, "tag", type(base))))
        if t is ast.Subscript:
            base, idx = e.ev(x.value, st), e.ev(x.slice, st)
            if isinstance(base, HMap): return base.get(idx)
            if isinstance(base, dict): return base[idx]
            if isinstance(base, (list, tuple)): return base[idx]
            if isinstance(base, Opt): return base.seq.elem(z(idx))
            if isinstance(base, Seq): return base.elem(z(idx))
            raise Unsupported("subscript on %r" % type(base))
        if t is ast.ListComp and len(x.generators) == 1 and not x.generators[0].ifs:
            g = x.generators[0]; it = e.ev(g.iter, st); it = it.seq if isinstance(it, Opt) else it
            if isinstance(it, Seq):
                def elem(j, it=it, g=g, x=x, st=st):
                    st2 = St(dict(st.env), st.pc); st2.env[g.target.id] = it.elem(j); return e.ev(x.elt, st2)
                return Seq(it.ln, elem)
            raise Unsupported("listcomp over %r" % type(it))
        if t is ast.Call: return e.call(x, st)
        raise Unsupported(ast.dump(x)[:70])
    def call(e, x, st):
        f = x.func
        args = [e.ev(a, st) for a in x.args]; kw = {k.arg: e.ev(k.value, st) for k in x.keywords}
        if isinstance(f, ast.Name) and f.id == "len":
            a = args[0]; a = a.seq if isinstance(a, Opt) else a
            return S(a.ln) if isinstance(a, Seq) else len(a)
        if isinstance(f, ast.Name) and f.id == "print": return None
        fv = e.ev(f, st)
        if isinstance(fv, tuple) and fv[0] == "bound":
            return fv[1].methods[fv[2]](st, *args, **kw)
        if isinstance(fv, tuple) and fv[0] == "fmt": return "fmt"
        if callable(fv): return fv(st, *args, **kw)
        raise Unsupported("call " + ast.dump(f)[:60])

    # -------------------------------------------------------------- statements; returns list of (St, outcome)
    def block(e, stmts, st):
        out = [(st, None)]
        for s_ in stmts:
            nxt = []
            for (q, oc) in out:
                if oc is not None: nxt.append((q, oc))
                else: nxt.extend(e.stmt(s_, q))
            out = nxt
        return out
    def assign(e, tgt, val, st):
        if isinstance(tgt, ast.Name): st.env[tgt.id] = val
        elif isinstance(tgt, ast.Tuple):
            for a, b in zip(tgt.elts, val): e.assign(a, b, st)
        elif isinstance(tgt, ast.Subscript):
            base = e.ev(tgt.value, st); idx = e.ev(tgt.slice, st)
            if isinstance(base, dict): base[idx if not isinstance(idx, S) else ("sym", str(idx.z))] = val
            elif isinstance(base, Obj) and "store" in base.methods: base.methods["store"](st, idx, val)
            else: raise Unsupported("store into %r" % type(base))
        else: raise Unsupported("assign target")
    def stmt(e, s_, st):
        t = type(s_)
        if t is ast.Expr:
            if isinstance(s_.value, ast.Constant): return [(st, None)]
            e.ev(s_.value, st); return [(st, None)]
        if t is ast.Assign: e.assign(s_.targets[0], e.ev(s_.value, st), st); return [(st, None)]
        if t is ast.AugAssign:
            cur = e.ev(s_.target, st); val = e.ev(s_.value, st)
            if isinstance(cur, Acc): cur.items.extend(val); return [(st, None)]
            if isinstance(s_.op, ast.Add): e.assign(s_.target, S(z(cur) + z(val)) if not (isinstance(cur, int) and isinstance(val, int)) else cur + val, st); return [(st, None)]
            raise Unsupported("augassign")
        if t is ast.Return: return [(st, ("ret", e.ev(s_.value, st) if s_.value else None))]
        if t is ast.Raise: return [(st, ("raise", s_.exc.func.id if isinstance(s_.exc, ast.Call) else "exc"))]
        if t is ast.Break: return [(st, ("break",))]
        if t is ast.If:
            c = truth(e.ev(s_.test, st)); res = []
            for cond, body in ((c, s_.body), (Not(c), s_.orelse)):
                q = st.fork(simplify(cond))
                if feasible(q.pc): res.extend(e.block(body, q))
            return res
        if t is ast.While: return e.loop(s_, st, None)
        if t is ast.For: return e.loop(s_, st, e.ev(s_.iter, st))
        raise Unsupported(t.__name__)
    def loop(e, node, st, it):
        spec = e.loops[(type(node).__name__, ast.unparse(node.iter if it is not None else node.test))]
        mods = sorted({n.id for b in node.body for n in ast.walk(b) if isinstance(n, ast.Name) and isinstance(n.ctx, ast.Store)})
        k0 = IntVal(0)
        oblige(spec["name"] + "/inv-init", st, spec["inv"](st.env, k0))
        # arbitrary iteration
        q = st.fork(BoolVal(True)); k = FreshInt("k")
        for m in mods:
            if m in q.env and isinstance(q.env[m], S): q.env[m] = S(FreshConst(q.env[m].z.sort(), m))
            elif m in q.env and isinstance(q.env[m], dict): q.env[m] = {}
        if it is not None:
            it = it.seq if isinstance(it, Opt) else it
            q.pc += [k >= 0, k < it.ln]; q.env[node.target.id] = it.elem(k); cond = BoolVal(True)
        else: cond = truth(e.ev(node.test, q))
        q.pc += [spec["inv"](q.env, k), cond]
        var0 = spec["variant"](q.env) if "variant" in spec else None
        exits = []
        for (r, oc) in e.block(node.body, q):
            if oc is None:
                oblige(spec["name"] + "/inv-preserved", r, spec["inv"](r.env, k + 1))
                if var0 is not None: oblige(spec["name"] + "/variant-decreases", r, And(spec["variant"](r.env) < var0, var0 >= 0))
            elif oc[0] == "break": exits.append((r, None))
            else: exits.append((r, oc))
        # exit by exhausted iterator / false condition
        x = st.fork(BoolVal(True)); kx = FreshInt("kx")
        for m in mods:
            if m in x.env and isinstance(x.env[m], S): x.env[m] = S(FreshConst(x.env[m].z.sort(), m))
            elif m in x.env and isinstance(x.env[m], dict): x.env[m] = {}
        if it is not None: x.pc += [kx == it.ln, spec["inv"](x.env, kx)]
        else: x.pc += [spec["inv"](x.env, kx), Not(truth(e.ev(node.test, x)))]
        exits.append((x, None))
        return exits

def discharge(title):
    global OBL
    ok = True
    for name, hyp, goal in OBL:
        s = Solver(); s.set("timeout", 10000); s.add(*hyp); s.add(Not(goal)); t0 = time.time(); r = s.check()
        print("   %-62s %-9s %.3fs" % (name, "PROVED" if r == unsat else str(r).upper(), time.time() - t0))
        if r != unsat:
            ok = False
            if r == sat: print("      model:", str(s.model())[:300].replace("\n", " "))
    n = len(OBL); OBL = []; print("  => %s: %d obligations, %s" % (title, n, "all discharged" if ok else "NOT all discharged")); return ok

# =================================================================================================== (1) _solve
def run_solve(mutate=None):
    fn = method("_solve")
    if mutate: fn = mutate(fn)
    Vec, State = DeclareSort("Vec"), DeclareSort("State")
    FV = Function("FV", Vec, Vec, State, Vec); FS = Function("FS", Vec, Vec, State, State); BI = Function("BI", Vec, Vec, State, Vec)
    CLOSE = Function("close", Vec, Vec, RealSort(), BoolSort())
    v0, i0 = Consts("v0 i0", Vec); s0 = Const("s0", State); maxiter = Int("maxiter"); vtol, itol = Reals("vtol itol")
    selfobj = Obj(methods={
        "_sys_init": lambda st, phase: (S(v0), S(i0), S(s0)),
        "_fwd_prop": lambda st, v, i, phase, state: (S(FV(v.z, i.z, state.z)), S(FS(v.z, i.z, state.z))),
        "_back_prop": lambda st, v, i, phase, state: S(BI(v.z, i.z, state.z))}, tag="self")
    npobj = Obj(methods={"array": lambda st, a: a, "allclose": lambda st, a, b, rtol=None: S(CLOSE(a.z, b.z, z(rtol)))}, tag="np")
    loops = {("While", "iters <= maxiter"): {"name": "_solve/while",
             "inv": lambda env, k: And(z(env["iters"]) >= 0, z(env["iters"]) <= maxiter + 1),
             "variant": lambda env: maxiter + 1 - z(env["iters"])}}
    eng = Engine({"np": npobj}, loops)
    st = St({"self": selfobj, "vtol": S(vtol), "itol": S(itol), "maxiter": S(maxiter), "quiet": S(Bool("quiet")), "phase": "ph"}, [maxiter >= 0])
    for (r, oc) in eng.block(fn.body, st):
        assert oc[0] == "ret"
        v, i, iters, state = oc[1]
        fv = FV(v.z, i.z, state.z)
        post = And(z(iters) <= maxiter + 1, z(iters) >= 1,
                   Implies(z(iters) <= maxiter, And(CLOSE(v.z, fv, vtol), CLOSE(i.z, BI(fv, i.z, state.z), itol))))
        oblige("_solve/post: returned iterate reproduces itself within tol, or iters>maxiter", r, post)
    return discharge("System._solve (C03-P1)")

# =================================================================================================== (2) _child_curr
def heap_model():
    """abstract heap shared by (2) and (3)"""
    I, R, B = IntSort(), RealSort(), BoolSort()
    H = dict(NCH=Function("n_childs", I, I), CH=Function("child", I, I, I), LEAF=Function("is_leaf", I, B),
             NPA=Function("n_parents", I, I), PA=Function("parent", I, I, I), ROOT=Function("is_root", I, B),
             OFF=Function("off0", ArraySort(I, B), I, B), SEL=Function("pri_inp", I, I))
    return H
def run_child_curr():
    fn = method("_child_curr"); H = heap_model(); I = IntSort()
    node = Int("node"); iv = Array("i", I, RealSort()); vv = Array("v", I, RealSort()); stt = Array("state_off", I, BoolSort())
    calls = []
    def comp(c):      # self._g[c]
        def pri(st, pstate, vc):
            pp = Seq(H["NPA"](z(c)), lambda j: S(H["PA"](z(c), j)))
            j = FreshInt("j")    # call-site obligation: the callee sees exactly its parents' off flags and voltages
            oblige("_child_curr/call _get_pri_inp: args are the child's parents' flags and voltages", st,
                   Implies(And(j >= 0, j < pp.ln), And(z(pstate["off"].elem(j)) == Select(stt, z(pp.elem(j))), z(vc.elem(j)) == Select(vv, z(pp.elem(j))))),
                   extra=[Not(H["ROOT"](z(c)))])
            return S(H["SEL"](z(c)))
        return Obj(methods={"_get_pri_inp": pri}, tag="comp")
    selfobj = Obj(attrs={"_childs": HMap(lambda n: Opt(H["LEAF"](z(n)), Seq(H["NCH"](z(n)), lambda j: S(H["CH"](z(n), j))))),
                         "_parents": HMap(lambda n: Opt(H["ROOT"](z(n)), Seq(H["NPA"](z(n)), lambda j: S(H["PA"](z(n), j))))),
                         "_g": HMap(comp)}, tag="self")
    state = HMap(lambda n: {"off": Seq(IntVal(1), lambda j: S(Select(stt, z(n))))})     # state[n]["off"][0]
    def term(c):
        sel, npa = H["SEL"](c), H["NPA"](c)
        return If(And(sel != -1, npa > 1), If(H["PA"](c, sel) == node, Select(iv, c), RealVal(0)), Select(iv, c))
    SUM = Function("S", I, RealSort())
    kk = Int("kk")
    axioms = [SUM(0) == 0, ForAll([kk], Implies(kk >= 0, SUM(kk + 1) == SUM(kk) + term(H["CH"](node, kk))))]
    loops = {("For", "self._childs[node]"): {"name": "_child_curr/for", "inv": lambda env, k: z(env["io"]) == SUM(k)}}
    eng = Engine({}, loops)
    st = St({"self": selfobj, "node": S(node), "i": HMap(lambda c: S(Select(iv, z(c)))), "v": HMap(lambda c: S(Select(vv, z(c)))), "state": state},
            axioms + [Not(H["LEAF"](node)), H["NCH"](node) >= 0,
                      ForAll([kk], Not(H["ROOT"](H["CH"](node, kk))))])      # children have a parent (graph fact from _get_parents/_get_childs)
    for (r, oc) in eng.block(fn.body, st):
        oblige("_child_curr/post: result == sum of attributed child currents", r, z(oc[1]) == SUM(H["NCH"](node)))
    return discharge("System._child_curr (C01-P2, C05-P2)")

# =================================================================================================== (3) solve() per-node slice
def locate_slice():
    fn = method("solve")
    outer = [n for n in ast.walk(fn) if isinstance(n, ast.For) and ast.unparse(n.iter) == "phase_list"][0]
    inner = [n for n in outer.body if isinstance(n, ast.For) and ast.unparse(n.iter) == "self._topo_nodes" and n.target.id == "n"][0]
    colmap = {}
    for n in ast.walk(outer):
        if isinstance(n, ast.Assign) and isinstance(n.targets[0], ast.Subscript) and ast.unparse(n.targets[0].value) == "res" and isinstance(n.value, ast.Name):
            colmap.setdefault(n.targets[0].slice.value, n.value.id)
    return inner, colmap
def run_solve_slice():
    inner, colmap = locate_slice(); H = heap_model(); I, R = IntSort(), RealSort()
    Name = DeclareSort("Name"); EMPTY = Const('""', Name)
    NAME = Function("name_of", I, Name); RAIL = Function("rail_of", Name, Name); GROUP = Function("group_of", Name, Name)
    RS = Function("rs_of", I, R); ISSRC = Function("is_source", I, BoolSort()); CC = Function("child_curr", I, R); DOM = Function("find_domain", I, Name, Name)
    vv = Array("v", I, R); iv = Array("i", I, R); stt = Array("state_off", I, BoolSort()); n = Int("n"); ta = Real("ta")
    rec = {}
    def comp(c):
        def pwr(st, vi, vo, ii, io, ta_, ph, pc): st.calls.append(("pwr", (st, vi, vo, ii, io, ta_, ph, pc))); return tuple(S(FreshReal(x)) for x in ("P", "L", "E", "TR", "TP"))
        def warns(st, vi, vo, ii, io, ta_, ph, pc): st.calls.append(("warn", (st, vi, vo, ii, io, ta_, ph, pc))); return S(Const("w", Name))
        ctype = Obj(attrs={"name": S(If(ISSRC(z(c)), Const("SOURCE", Name), Const("OTHERTYPE", Name)))})
        return Obj(attrs={"_params": HMap(lambda key: {"name": S(NAME(z(c))), "rs": S(RS(z(c)))}[key]), "_component_type": ctype},
                   methods={"_get_pri_inp": lambda st, ps, vc: S(H["SEL"](z(c))), "_solv_pwr_loss": pwr, "_solv_get_warns": warns}, tag="comp")
    gobj = Obj(attrs={"attrs": HMap(lambda key: {"groups": HMap(lambda nm: S(GROUP(z(nm)))), "rails": HMap(lambda nm: S(RAIL(z(nm))))}[key])}, tag="g")
    class G(HMap): pass
    g = G(comp); g.attrs = gobj.attrs["attrs"]
    gwrap = Obj(attrs={"attrs": gobj.attrs["attrs"]}, tag="g"); gwrap_get = comp
    selfg = type("GG", (HMap,), {})(comp)
    # self._g must support both self._g[n] and self._g.attrs[...]: model as Obj with 'attrs' plus subscript
    class GObj(Obj, HMap):
        def __init__(s): Obj.__init__(s, attrs={"attrs": gobj.attrs["attrs"]}, tag="g"); HMap.__init__(s, comp)
    def parname(st, m): return S(If(H["ROOT"](z(m)), EMPTY, NAME(H["PA"](z(m), 0))))
    selfobj = Obj(attrs={"_g": GObj(), "_phase_lkup": HMap(lambda m: S(Const("pc_n", Name))),
                         "_parents": HMap(lambda m: Opt(H["ROOT"](z(m)), Seq(H["NPA"](z(m)), lambda j: S(H["PA"](z(m), j))))),
                         "_childs": HMap(lambda m: Opt(H["LEAF"](z(m)), Seq(H["NCH"](z(m)), lambda j: S(H["CH"](z(m), j)))))},
                  methods={"_find_domain": lambda st, m, d, v: S(DOM(z(m), z(d) if isinstance(d, S) else Const("dom_table", Name))), "_get_parent_name": parname,
                           "_child_curr": lambda st, m, i, v, s_: S(CC(z(m))), "_calc_energy": lambda st, ph, p: S(FreshReal("en"))}, tag="self")
    accs = ["names", "domain", "phases", "group", "rail", "parent", "rail_in", "pwr", "loss", "trise", "tpeak", "eff", "typ", "ener", "warn", "vsi", "iso", "vso", "isi"]
    env = {a: Acc(a) for a in accs}
    env.update({"self": selfobj, "n": S(n), "v": HMap(lambda c: S(Select(vv, z(c)))), "i": HMap(lambda c: S(Select(iv, z(c)))),
                "state": HMap(lambda c: {"off": Seq(IntVal(1), lambda j: S(Select(stt, z(c))))}), "ph": S(Const("ph", Name)), "ta": S(ta),
                "dname": S(Const("dname_prev", Name)), "pstate": {}, "sources": {}, "dwarns": {}, "show_trise": S(Bool("show_trise"))})
    eng = Engine({"__strconst__": lambda s_, sort: Const(s_ if s_ else '""', sort)}, {})
    # free variables of the slice that are defined outside it are havoc'd (loop-carried containers become empty/opaque)
    stored = {x.id for b in inner.body for x in ast.walk(b) if isinstance(x, ast.Name) and isinstance(x.ctx, ast.Store)}
    for x in (x for b in inner.body for x in ast.walk(b) if isinstance(x, ast.Name) and isinstance(x.ctx, ast.Load)):
        if x.id not in env and x.id not in stored and x.id not in ("len", "print"): env[x.id] = {}
    j0 = Int("j0")
    facts = [ForAll([j0], Not(H["ROOT"](n)) == (H["NPA"](n) >= 1)), H["SEL"](n) >= -1, H["SEL"](n) < H["NPA"](n),
             Const("SOURCE", Name) != Const("OTHERTYPE", Name), ISSRC(n) == H["ROOT"](n)]
    paths = eng.block(inner.body, St(env, facts))
    print("  located slice: for n in self._topo_nodes (", len(inner.body), "statements );", len(paths), "paths; column map:", {k: colmap[k] for k in ("Vin (V)", "Vout (V)", "Iin (A)", "Iout (A)")})
    sel = H["SEL"](n); multi = And(sel != -1, H["NPA"](n) > 1)
    selpar = If(multi, H["PA"](n, sel), H["PA"](n, 0))
    spec_vin = If(H["ROOT"](n), Select(vv, n) + RS(n) * Select(iv, n), Select(vv, selpar))
    spec_iout = If(H["ROOT"](n), Select(iv, n), If(H["LEAF"](n), RealVal(0), CC(n)))
    spec_parent = If(H["ROOT"](n), EMPTY, NAME(selpar))
    for (r, oc) in paths:
        col = {c: r.env[colmap[c]].items for c in ("Vin (V)", "Vout (V)", "Iin (A)", "Iout (A)")}
        assert all(len(x) == 1 for x in col.values()), "exactly one value appended per column and node"
        oblige("solve-slice/Vin column == voltage of the selected parent (root: v+rs*ii)", r, z(col["Vin (V)"][0]) == spec_vin)
        oblige("solve-slice/Vout column == v[n]", r, z(col["Vout (V)"][0]) == Select(vv, n))
        oblige("solve-slice/Iin column == i[n]", r, z(col["Iin (A)"][0]) == Select(iv, n))
        oblige("solve-slice/Iout column == child_curr (leaf 0, root i[n])", r, z(col["Iout (A)"][0]) == spec_iout)
        oblige("solve-slice/Parent == name of the SELECTED input (C05-P4)", r, z(r.env["parent"].items[0]) == spec_parent)
        a = [c for c in r.calls if c[0] == "pwr"][-1][1]; w = [c for c in r.calls if c[0] == "warn"][-1][1]
        oblige("solve-slice/_solv_get_warns called with the same electrical arguments as _solv_pwr_loss", r, And(*[z(a[k]) == z(w[k]) for k in range(1, 6)]))
        oblige("solve-slice/_solv_pwr_loss called with (Vin, v[n], i[n], Iout, ta)", r,
               And(z(a[1]) == spec_vin, z(a[2]) == Select(vv, n), z(a[3]) == Select(iv, n), z(a[4]) == spec_iout, z(a[5]) == ta))
    return discharge("System.solve per-node slice (C01-P4, C02-P3, C05-P4)")

if __name__ == "__main__":
    t0 = time.time()
    print("(1)"); run_solve()
    print("(1') seeded break: convergence test compares v with v  -> must be refuted")
    def mut(fn):
        src = ast.unparse(fn).replace("np.allclose(np.array(v), np.array(vi), rtol=vtol)", "np.allclose(np.array(v), np.array(v), rtol=vtol)")
        return ast.parse(src).body[0]
    run_solve(mut)
    print("(2)"); run_child_curr()
    print("(3)"); run_solve_slice()
    print("total %.2fs" % (time.time() - t0))
