#!/usr/bin/env python3
"""Apply one named fix to /repo (CRLF preserved). usage: apply.py <fixid> [root]"""
import sys, re
ROOT = sys.argv[2] if len(sys.argv) > 2 else "/repo"
C = "src/sysloss/components.py"
S = "src/sysloss/system.py"

def rd(f):
    b = open(f"{ROOT}/{f}", "rb").read()
    assert b.count(b"\r\n") == b.count(b"\n"), "not pure CRLF"
    return b.decode("utf-8").replace("\r\n", "\n")
def wr(f, t):
    open(f"{ROOT}/{f}", "wb").write(t.replace("\n", "\r\n").encode("utf-8"))
def rep(t, old, new, count=1, after=None):
    start = 0
    if after is not None:
        start = t.index(after)
    n = t.count(old, start)
    assert n >= 1, ("not found", old[:60])
    if count is not None:
        assert n == count or after is not None, (n, count, old[:60])
    if after is not None or count == 1:
        i = t.index(old, start)
        return t[:i] + new + t[i + len(old):]
    return t.replace(old, new)

GUARD = '''        if not v > 0.0:
            raise ValueError(
                "Unstable system: {K} component '{{}}' has zero output voltage".format(
                    self._params["name"]
                )
            )
'''
FIX = {}
def fix(name):
    def d(f): FIX[name] = f; return f
    return d

@fix("D1")
def d1():
    t = rd(C)
    old = '''            raise ValueError("rs values must be numbers!")
        self._params["rs"] = rs
'''
    new = '''            raise ValueError("rs values must be numbers!")
        else:
            self._params["rs"] = rs
'''
    t = rep(t, old, new)
    old = '''                raise ValueError("rs values must be numbers!")
            self._params["rs"] = rs
'''
    new = '''                raise ValueError("rs values must be numbers!")
            else:
                self._params["rs"] = rs
'''
    t = rep(t, old, new)
    wr(C, t)

@fix("D16")
def d16():
    t = rd(C)
    old = '''        if self._component_type not in [_ComponentTypes.SOURCE, _ComponentTypes.SLOSS]:
'''
    new = '''        if self._component_type not in [
            _ComponentTypes.SOURCE,
            _ComponentTypes.SLOSS,
            _ComponentTypes.RECTIFIER,
        ]:
'''
    wr(C, rep(t, old, new))

@fix("D10")
def d10():
    t = rd(C)
    old = '''        vo = self._params["vo"] - self._params["rs"] * io
        return vo, STATE_DEFAULT
'''
    new = '''        vo = self._params["vo"] - self._params["rs"] * io
        if np.sign(vo) != np.sign(self._params["vo"]):
            raise ValueError(
                "Unstable system: Source component '{}' has zero output voltage".format(
                    self._params["name"]
                )
            )
        return vo, STATE_DEFAULT
'''
    t = rep(t, old, new)
    old = '''        v = abs(vi[0]) - self._params["rs"] * io
        if phase_conf and phase not in phase_conf:
            return 0.0, STATE_OFF
'''
    t = rep(t, old, old + GUARD.format(K="PSwitch"))
    old = '''        v = abs(vi[pinp]) - r * io
        if phase_conf and phase not in phase_conf:
            return 0.0, STATE_OFF
'''
    t = rep(t, old, old + GUARD.format(K="PMux"))
    old = '''        v = abs(vi[0]) - 2 * self._params["rs"] * io
'''
    t = rep(t, old, old + GUARD.format(K="Rectifier"))
    wr(C, t)

@fix("D17")
def d17():
    t = rd(C)
    # all non-source dead-path returns: peak temperature is ambient
    head, tail = t.split("class PLoad(_Component):", 1)
    n1 = tail.count("return 0.0, 0.0, 0.0, 0.0, 0.0\n"); n2 = tail.count("return 0.0, 0.0, 100.0, 0.0, 0.0\n")
    assert (n1, n2) == (9, 1), (n1, n2)
    tail = tail.replace("return 0.0, 0.0, 0.0, 0.0, 0.0\n", "return 0.0, 0.0, 0.0, 0.0, ta\n")
    tail = tail.replace("return 0.0, 0.0, 100.0, 0.0, 0.0\n", "return 0.0, 0.0, 100.0, 0.0, ta\n")
    wr(C, head + "class PLoad(_Component):" + tail)

@fix("D5")
def d5():
    t = rd(S)
    old = '''                                comp=Rectifier(
                                    cname,
                                    rs=rs,
'''
    new = '''                                comp=Rectifier(
                                    cname,
                                    vdrop=vdrop,
                                    rs=rs,
'''
    wr(S, rep(t, old, new))

@fix("D21")
def d21():
    t = rd(S)
    old = '''        if name in self._g.attrs["rails"].values():
            cname = ['''
    new = '''        if name != "" and name in self._g.attrs["rails"].values():
            cname = ['''
    t = rep(t, old, new)
    old = '''        if (
            parent in self._g.attrs["nodes"].keys()
            or parent in self._g.attrs["rails"].values()
        ):
            return True
'''
    new = '''        if parent in self._g.attrs["nodes"].keys() or (
            parent != "" and parent in self._g.attrs["rails"].values()
        ):
            return True
'''
    t = rep(t, old, new)
    wr(S, t)

@fix("D23")
def d23():
    t = rd(S)
    old = '''        # can only have one pmux
        if comp._component_type.name == "PMUX":
'''
    new = '''        if len(pidx) > len(set(pidx)):
            raise ValueError("parent paramenter contains duplicates!")
        # can only have one pmux
        if comp._component_type.name == "PMUX":
'''
    wr(S, rep(t, old, new))

@fix("D8")
def d8():
    t = rd(S)
    old = '''        if name != comp._params["name"]:
            self._chk_name(comp._params["name"], rail)
'''
    new = old + '''        elif rail != "" and rail != self._g.attrs["rails"][name]:
            if (
                rail in self._g.attrs["nodes"].keys()
                or rail in self._g.attrs["rails"].values()
            ):
                raise ValueError('Rail name "{}" is already used!'.format(rail))
'''
    t = rep(t, old, new)
    old = '''            if not isinstance(comp, PMux):
                raise ValueError("PMux cannot be changed to other type!")
'''
    new = old + '''        elif isinstance(comp, PMux) and self._get_pmux() != -1:
            raise ValueError("a system can only have one PMux")

        # check that new component allows the existing childs
        childs = self._get_childs()
        if childs[eidx] != -1:
            for c in childs[eidx]:
                if not self._g[c]._component_type in comp._child_types:
                    raise ValueError(
                        "Component of type {} does not allow the existing childs!".format(
                            comp._component_type.name
                        )
                    )
'''
    t = rep(t, old, new)
    wr(S, t)

@fix("D9")
def d9():
    t = rd(S)
    old = '''        self._g[eidx] = comp
        # replace node name in graph dict
'''
    new = '''        # childs refer to their parents by name: follow a rename
        orail = self._g.attrs["rails"][name]
        for c in self._g.successor_indices(eidx):
            self._g.attrs["pnames"][c] = [
                comp._params["name"]
                if (pn == name or (orail != "" and pn == orail))
                else pn
                for pn in self._g.attrs["pnames"][c]
            ]
        self._g[eidx] = comp
        # replace node name in graph dict
'''
    t = rep(t, old, new)
    old = '''        # delete node
        self._g.remove_node(eidx)
'''
    new = '''        # childs that are kept refer to the new parent by name
        if not del_childs and childs[eidx] != -1:
            orail = self._g.attrs["rails"][name]
            for c in childs[eidx]:
                self._g.attrs["pnames"][c] = [
                    self._g[parents[eidx][0]]._params["name"]
                    if (pn == name or (orail != "" and pn == orail))
                    else pn
                    for pn in self._g.attrs["pnames"][c]
                ]
        # delete node
        self._g.remove_node(eidx)
'''
    t = rep(t, old, new)
    wr(S, t)

@fix("D7")
def d7():
    t = rd(S)
    old = '''        eidx = self._get_index(name)
        if eidx == -1:
            raise ValueError("Component name does not exist!")
        parents = self._get_parents()
        if parents[eidx] == -1:  # source node
'''
    new = '''        if not name in self._g.attrs["nodes"].keys():
            raise ValueError("Component name does not exist!")
        eidx = self._get_index(name)
        parents = self._get_parents()
        if parents[eidx] == -1:  # source node
'''
    wr(S, rep(t, old, new))

@fix("D19")
def d19():
    t = rd(S)
    t = rep(t, "        while iters <= maxiter:\n", "        while iters < maxiter:\n")
    old = '''            v, i, state = vi, ii, ostate
        return v, i, iters, state
'''
    new = '''            v, i, state = vi, ii, ostate
        else:
            iters = maxiter + 1
        return v, i, iters, state
'''
    wr(S, rep(t, old, new))

@fix("D4")
def d4():
    t = rd(S)
    old = '''                    return self._g[i]._params["name"]
        return domain
'''
    new = '''                    return self._g[i]._params["name"]
        return domain[self._parents[n][0]]
'''
    t = rep(t, old, new)
    old = "            sources, dwarns, rail_in, pstate = {}, {}, [], {}\n"
    new = "            sources, dwarns, rail_in, pstate, ndom = {}, {}, [], {}, {}\n"
    t = rep(t, old, new)
    old = "                dname = self._find_domain(n, dname, v)\n"
    new = "                dname = self._find_domain(n, ndom, v)\n                ndom[n] = dname\n"
    t = rep(t, old, new)
    old = '        domain, dname = [], "none"\n'
    new = '        domain, dname, ndom = [], "none", {}\n'
    t = rep(t, old, new)
    old = '''                dname = self._g[n]._params["name"]
                src_cnt += 1
'''
    new = old + '''            else:
                dname = ndom[self._parents[n][0]]
            ndom[n] = dname
'''
    t = rep(t, old, new)
    wr(S, t)

@fix("D14")
def d14():
    t = rd(S)
    old = "                        pn = self._get_parent_name(p[pinp])\n"
    new = '                        pn = self._g[p[pinp]]._params["name"]\n'
    wr(S, rep(t, old, new))

@fix("D3")
def d3():
    t = rd(S)
    old = '''            if len(rails) > 0:
                for ph in phase_list:
                    for r in rails:
                        rail += [r]
                        phases += [ph]
                        if ph != "":
                            filt = (df["Rail in"] == r) & (df["Phase"] == ph)
                        else:
                            filt = df["Rail in"] == r
'''
    new = '''            if True:
                for ph in phase_list:
                    for r in rails:
                        if ph != "":
                            filt = (df["Rail in"] == r) & (df["Phase"] == ph)
                        else:
                            filt = df["Rail in"] == r
                        if not filt.any():
                            continue
                        rail += [r]
                        phases += [ph]
'''
    t = rep(t, old, new)
    old = '''                        if len(w) > 1:
                            if "" in w:
                                w.remove("")
                            warn += [", ".join(w)]
                        else:
                            warn += [""]
'''
    new = '''                        if "" in w:
                            w.remove("")
                        warn += [", ".join(w)]
'''
    t = rep(t, old, new)
    wr(S, t)

@fix("D15")
def d15():
    t = rd(S)
    old = '        self._g.attrs["phase_conf"][name] = phase_conf\n'
    new = '        self._g.attrs["phase_conf"][self._g[cidx]._params["name"]] = phase_conf\n'
    wr(S, rep(t, old, new))

@fix("D6")
def d6():
    t = rd(S)
    a = t.index("        with tqdm(\n            range(int(mult * cap[0])),")
    b = t.index("        # restore source params\n", a)
    c = t.index('        self._g[pidx]._params["rs"] = rs_org\n', b) + len('        self._g[pidx]._params["rs"] = rs_org\n')
    blk = t[a:b]
    blk = "".join(("    " + l if l.strip() else l) for l in blk.splitlines(True))
    rest = t[b:c]
    rest = "".join("    " + l for l in rest.splitlines(True))
    t = t[:a] + "        try:\n" + blk + "        finally:\n" + rest + t[c:]
    wr(S, t)

if __name__ == "__main__":
    FIX[sys.argv[1]]()
    print("applied", sys.argv[1], "to", ROOT)
